//! C14 seeded-fault demo (m8).
//!
//! Text canonicalization must yield the same canonical byte string however the text is
//! delivered. Here the text is delivered by a reader that reports one transient
//! `ErrorKind::Interrupted` in between two blocks (every std consumer -- `io::copy`,
//! `read_to_end` -- simply retries such a read, and nothing has been consumed from the source
//! when the error is reported).
//!
//! Each ingredient is fine alone: the same interrupting source hashes correctly in binary mode,
//! and text mode is correct for a source that is never interrupted.

use std::io::{self, Read};

use pgp::{
    composed::{DetachedSignature, KeyType, SecretKeyParamsBuilder},
    crypto::hash::HashAlgorithm,
    line_writer::LineBreak,
    normalize_lines::NormalizedReader,
    types::Password,
};
use rand::SeedableRng;
use rand_chacha::ChaCha8Rng;

/// Serves `data`; always fills the caller's buffer as far as data is left.
/// The `fail_at`-th call (1 based) to `read` consumes nothing and reports `Interrupted` instead.
struct InterruptedOnce<'a> {
    data: &'a [u8],
    calls: usize,
    fail_at: usize,
}

impl<'a> InterruptedOnce<'a> {
    fn new(data: &'a [u8], fail_at: usize) -> Self {
        Self {
            data,
            calls: 0,
            fail_at,
        }
    }
}

impl Read for InterruptedOnce<'_> {
    fn read(&mut self, buf: &mut [u8]) -> io::Result<usize> {
        self.calls += 1;
        if self.calls == self.fail_at {
            return Err(io::Error::new(io::ErrorKind::Interrupted, "EINTR"));
        }
        self.data.read(buf)
    }
}

/// Reference canonicalization: every LF not preceded by CR becomes CRLF.
fn canonical(input: &[u8]) -> Vec<u8> {
    let mut out = Vec::with_capacity(input.len() * 2);
    let mut prev = 0u8;
    for &b in input {
        if b == b'\n' && prev != b'\r' {
            out.push(b'\r');
        }
        out.push(b);
        prev = b;
    }
    out
}

/// 2000 bytes of text with LF, CRLF and lone CR line material.
fn sample_text() -> Vec<u8> {
    let mut text = Vec::new();
    let mut i = 0usize;
    while text.len() < 2000 {
        text.extend_from_slice(format!("line number {i} of the document").as_bytes());
        match i % 3 {
            0 => text.extend_from_slice(b"\n"),
            1 => text.extend_from_slice(b"\r\n"),
            _ => text.extend_from_slice(b"\rcontinued\n"),
        }
        i += 1;
    }
    text.truncate(2000);
    text
}

#[test]
fn normalized_reader_survives_interrupted_read_between_blocks() {
    let text = sample_text();
    let expected = canonical(&text);

    // not interrupted at all (fail_at = 0 never matches)
    let mut out = Vec::new();
    NormalizedReader::new(InterruptedOnce::new(&text, 0), LineBreak::Crlf)
        .read_to_end(&mut out)
        .unwrap();
    assert_eq!(out, expected, "uninterrupted delivery");

    // interrupted once, right before the 2nd, 3rd, 4th block is fetched
    for fail_at in [2, 3, 4] {
        let mut out = Vec::new();
        NormalizedReader::new(InterruptedOnce::new(&text, fail_at), LineBreak::Crlf)
            .read_to_end(&mut out)
            .unwrap();
        assert_eq!(
            out.len(),
            expected.len(),
            "canonical text truncated after an interrupted read (call {fail_at})"
        );
        assert_eq!(out, expected, "interrupted at call {fail_at}");
    }
}

#[test]
fn text_signature_verifies_over_interrupted_source() {
    let mut rng = ChaCha8Rng::seed_from_u64(14);

    let mut key_params = SecretKeyParamsBuilder::default();
    key_params
        .key_type(KeyType::Ed25519Legacy)
        .can_sign(true)
        .can_certify(true)
        .primary_user_id("alice".into());
    let alice = key_params
        .build()
        .expect("params")
        .generate(&mut rng)
        .expect("generate");
    let alice_pub = alice.primary_key.public_key();

    let text = sample_text();

    // binary signature: the interrupting source is fine on its own
    let bin_sig = DetachedSignature::sign_binary_data(
        &mut rng,
        &alice.primary_key,
        &Password::empty(),
        HashAlgorithm::Sha256,
        &text[..],
    )
    .expect("sign binary");
    bin_sig
        .signature
        .verify(&alice_pub, InterruptedOnce::new(&text, 2))
        .expect("binary signature over interrupted source");

    // text signature: fine on its own, over an uninterrupted source and over the CRLF form
    let text_sig = DetachedSignature::sign_text_data(
        &mut rng,
        &alice.primary_key,
        &Password::empty(),
        HashAlgorithm::Sha256,
        &text[..],
    )
    .expect("sign text");
    text_sig.verify(&alice_pub, &text).expect("text signature");
    text_sig
        .verify(&alice_pub, &canonical(&text))
        .expect("text signature, CRLF form");

    // both together: must still verify, the delivered bytes are the same
    text_sig
        .signature
        .verify(&alice_pub, InterruptedOnce::new(&text, 2))
        .expect("text signature over interrupted source");

    // ... and a signature over only the first block must NOT verify for the whole document
    let prefix_sig = DetachedSignature::sign_text_data(
        &mut rng,
        &alice.primary_key,
        &Password::empty(),
        HashAlgorithm::Sha256,
        &text[..512],
    )
    .expect("sign prefix");
    prefix_sig
        .signature
        .verify(&alice_pub, InterruptedOnce::new(&text, 2))
        .expect_err("signature over a 512 byte prefix accepted for the whole document");
}
