use codec_dev::codec::*;
use std::collections::BTreeMap;
use std::path::{Path, PathBuf};

fn walk(dir: &Path, out: &mut Vec<PathBuf>) {
    let Ok(rd) = std::fs::read_dir(dir) else { return };
    let mut entries: Vec<_> = rd.flatten().map(|e| e.path()).collect();
    entries.sort();
    for p in entries {
        if p.is_dir() { walk(&p, out) } else { out.push(p) }
    }
}

fn contains(h: &[u8], n: &[u8]) -> bool { h.windows(n.len()).any(|w| w == n) }

/// Returns the binary packet stream of a fixture file, or None if it is not OpenPGP data.
fn load(path: &Path) -> Option<Result<Vec<u8>, DecodeError>> {
    let data = std::fs::read(path).ok()?;
    if contains(&data, b"-----BEGIN PGP") {
        if contains(&data, b"-----BEGIN PGP SIGNED MESSAGE") { return None; }
        return Some(dearmor(&data));
    }
    if data.first().is_some_and(|b| b & 0x80 != 0) { return Some(Ok(data)); }
    None
}

fn assert_tiles(d: &Decoded, body: &[u8], ctx: &str) {
    let mut pos = 0;
    for f in &d.fields {
        assert_eq!(f.start, pos, "{ctx}: gap/overlap before {f:?}");
        assert!(f.end > f.start, "{ctx}: empty field {f:?}");
        pos = f.end;
    }
    assert_eq!(pos, body.len(), "{ctx}: fields do not reach the end of the body");
    assert_eq!(d.canonical, d.non_canonical_reasons.is_empty(), "{ctx}");
    match &d.summary {
        Summary::Signature(s) => {
            assert!(s.sig_material.1 == body.len() && s.left16.1 <= s.sig_material.0, "{ctx}");
            assert!(s.hashed_len_field.1 == s.hashed.0 && s.hashed.1 <= s.unhashed_len_field.0, "{ctx}");
            assert!(s.unhashed_len_field.1 == s.unhashed.0 && (s.version < 4 || s.unhashed.1 == s.left16.0), "{ctx}");
            for sp in &s.subpackets {
                let area = if sp.hashed { s.hashed } else { s.unhashed };
                assert!(area.0 <= sp.len_field.0 && sp.body.1 <= area.1 && sp.len_field.1 + 1 == sp.body.0, "{ctx}");
            }
        }
        Summary::Key(k) => {
            assert!(k.material.1 <= k.public_end && k.public_end <= body.len(), "{ctx}");
            if let Some(sp) = k.secret_part { assert!(sp == (k.public_end, body.len()), "{ctx}"); }
            if !k.is_secret { assert_eq!(k.public_end, body.len(), "{ctx}"); }
        }
        Summary::Other => {}
    }
}

#[test]
fn fixture_walk() {
    let mut files = Vec::new();
    walk(Path::new("/repo/tests"), &mut files);
    // tag -> [ok, unsupported, invalid, truncated, trailing, non-canonical(ok subset), opaque-bearing(ok subset)]
    let mut table: BTreeMap<u8, [usize; 7]> = BTreeMap::new();
    let mut failures = Vec::new();
    let mut noncanon = Vec::new();
    let (mut nfiles, mut nskipped, mut narmor_err, mut nsplit_err) = (0, 0, 0, 0);
    for f in &files {
        let stream = match load(f) {
            None => { nskipped += 1; continue }
            Some(Err(e)) => { narmor_err += 1; println!("ARMOR-ERR {}: {e}", f.display()); continue }
            Some(Ok(s)) => s,
        };
        nfiles += 1;
        let packets = match split_packets(&stream) {
            Ok(p) => p,
            Err(e) => { nsplit_err += 1; println!("SPLIT-ERR {}: {e}", f.display()); continue }
        };
        for (i, (tag, hdr, body)) in packets.iter().enumerate() {
            assert!(!hdr.is_empty());
            let row = table.entry(*tag).or_default();
            let ctx = format!("{} #{i} tag {tag}", f.display());
            match decode_packet(*tag, body) {
                Ok(d) => {
                    assert_tiles(&d, body, &ctx);
                    row[0] += 1;
                    if !d.canonical { row[5] += 1; noncanon.push(format!("{ctx}: {:?}", d.non_canonical_reasons)); }
                    if matches!(tag, 1..=7 | 14) && d.fields.iter().any(|f| f.kind == Kind::Opaque) {
                        row[6] += 1;
                        let o: Vec<_> = d.fields.iter().filter(|f| f.kind == Kind::Opaque).map(|f| f.path.clone()).collect();
                        println!("OPAQUE {ctx}: {o:?} first octets {}", hex::encode(&body[..body.len().min(12)]));
                    }
                }
                Err(e) => {
                    let col = match e {
                        DecodeError::Unsupported(_) => 1,
                        DecodeError::Invalid(_) => 2,
                        DecodeError::Truncated { .. } => 3,
                        DecodeError::Trailing { .. } => 4,
                    };
                    row[col] += 1;
                    failures.push(format!("{ctx} (len {}): {e}", body.len()));
                }
            }
        }
    }
    println!("\nfiles decoded: {nfiles}, skipped (not OpenPGP / cleartext): {nskipped}, armor errors: {narmor_err}, split errors: {nsplit_err}");
    println!("\n tag |    ok | unsupp | invalid | trunc | trailing | (ok: non-canon) | (ok: has opaque)");
    for (t, r) in &table {
        println!("{t:4} | {:5} | {:6} | {:7} | {:5} | {:8} | {:15} | {:15}", r[0], r[1], r[2], r[3], r[4], r[5], r[6]);
    }
    println!("\nFAILURES ({}):", failures.len());
    for f in &failures { println!("  {f}"); }
    println!("\nNON-CANONICAL ({}):", noncanon.len());
    for f in &noncanon { println!("  {f}"); }
}

fn first_key(path: &str) -> (Vec<u8>, KeyInfo) {
    let stream = dearmor(&std::fs::read(path).unwrap()).unwrap();
    let pk = split_packets(&stream).unwrap();
    let (tag, _, body) = pk.into_iter().next().unwrap();
    let Summary::Key(k) = decode_packet(tag, &body).unwrap().summary else { panic!() };
    (body, k)
}

#[test]
fn fingerprints() {
    // RFC 9580 Appendix A.3/A.4 v6 certificate.
    let (body, k) = first_key("/repo/tests/rfc9580/v6-25519-annex-a-4/tsk.asc");
    assert!(k.is_secret && k.version == 6 && k.pk_alg == 27);
    let (fp, id) = fingerprint(&body[..k.public_end]).unwrap();
    assert_eq!(hex::encode_upper(&fp), "CB186C4F0609A697E4D52DFA6C722B0C1F1E27C18A56708F6525EC27BAD9ACC9");
    assert_eq!(hex::encode_upper(id), "CB186C4F0609A697");
    // Autocrypt alice, v4 EdDSA legacy, public and secret forms.
    for f in ["pub", "sec"] {
        let (body, k) = first_key(&format!("/repo/tests/autocrypt/alice@autocrypt.example.{f}.asc"));
        let (fp, id) = fingerprint(&body[..k.public_end]).unwrap();
        assert_eq!(hex::encode_upper(&fp), "EB85BB5FA33A75E15E944E63F231550C4F47E38E");
        assert_eq!(hex::encode_upper(id), "F231550C4F47E38E");
    }
}

#[test]
fn hash_vectors() {
    let h = |b: &[u8]| hex::encode(b);
    assert_eq!(h(&sha1(b"")), "da39a3ee5e6b4b0d3255bfef95601890afd80709");
    assert_eq!(h(&sha1(b"abc")), "a9993e364706816aba3e25717850c26c9cd0d89d");
    assert_eq!(h(&sha1(b"abcdbcdecdefdefgefghfghighijhijkijkljklmklmnlmnomnopnopq")), "84983e441c3bd26ebaae4aa1f95129e5e54670f1");
    assert_eq!(h(&sha256(b"")), "e3b0c44298fc1c149afbf4c8996fb92427ae41e4649b934ca495991b7852b855");
    assert_eq!(h(&sha256(b"abc")), "ba7816bf8f01cfea414140de5dae2223b00361a396177a9cb410ff61f20015ad");
    assert_eq!(h(&sha256(b"abcdbcdecdefdefgefghfghighijhijkijkljklmklmnlmnomnopnopq")), "248d6a61d20638b8e5c026930c3e6039a33ce45964ff2167f6ecedd419db06c1");
    assert_eq!(h(&md5(b"")), "d41d8cd98f00b204e9800998ecf8427e");
    assert_eq!(h(&md5(b"abc")), "900150983cd24fb0d6963f7d28e17f72");
    assert_eq!(h(&md5(b"message digest")), "f96b697d7cb7938d525a2f31aaf161d0");
    assert_eq!(h(&md5(b"12345678901234567890123456789012345678901234567890123456789012345678901234567890")), "57edf4a22be3c955ac49da2e2107b67a");
    let a = vec![b'a'; 1_000_000];
    assert_eq!(h(&sha1(&a)), "34aa973cd4c4daa4f61eeb2bdbad27316534016f");
    assert_eq!(h(&sha256(&a)), "cdc76e5c9914fb9281a1c7e284d73e67f1809a48a497200e046d39ccc7112cd0");
    assert_eq!(h(&md5(&a)), "7707d6ae4e027c70eea2a935c2296f21");
}

#[test]
fn v3_key_id_matches_self_signature_issuer() {
    let stream = dearmor(&std::fs::read("/repo/tests/openpgp/pgp263-test.pub.asc").unwrap()).unwrap();
    let pk = split_packets(&stream).unwrap();
    let (fp, id) = fingerprint(&pk[0].2).unwrap();
    assert_eq!(fp.len(), 16);
    let Summary::Signature(s) = decode_packet(2, &pk[2].2).unwrap().summary else { panic!() };
    assert_eq!(s.v3_issuer, Some(id));
    assert_eq!((s.hashed, s.version, s.v3_created), ((2, 7), 3, Some(0x3bea468b)));
    // the secret form of the same key gives the same fingerprint from its public part
    let stream = dearmor(&std::fs::read("/repo/tests/openpgp/pgp263-test.sec.asc").unwrap()).unwrap();
    let sk = split_packets(&stream).unwrap();
    let Summary::Key(k) = decode_packet(5, &sk[0].2).unwrap().summary else { panic!() };
    assert_eq!(fingerprint(&sk[0].2[..k.public_end]).unwrap(), (fp, id));
}

fn h(s: &str) -> Vec<u8> { hex::decode(s.replace(' ', "")).unwrap() }
fn ok(tag: u8, body: &[u8]) -> Decoded {
    let d = decode_packet(tag, body).unwrap_or_else(|e| panic!("tag {tag}: {e}"));
    assert_tiles(&d, body, "synthetic");
    d
}
fn kinds(d: &Decoded) -> Vec<Kind> { d.fields.iter().map(|f| f.kind).collect() }

#[test]
fn synthetic_canonicality() {
    use Kind::*;
    // v4 RSA signature, empty areas, MPI 0x01ff declared as 9 bits: canonical
    let base = "04 00 01 08 0000 0000 abcd";
    assert!(ok(2, &h(&format!("{base} 0009 01ff"))).canonical);
    for bad in ["000a 01ff", "0008 7f", "0006 7f", "0010 00ff", "0001 00", "0008 00"] {
        let d = ok(2, &h(&format!("{base} {bad}")));
        assert!(!d.canonical && d.non_canonical_reasons.len() == 1, "{bad}");
    }
    assert!(ok(2, &h(&format!("{base} 0000"))).canonical); // zero-length MPI of value 0
    assert_eq!(decode_packet(2, &h(&format!("{base} 0009 01ff 00"))).err(), Some(DecodeError::Trailing { at: 14 }));
    assert!(matches!(decode_packet(2, &h(&format!("{base} 0009 01"))), Err(DecodeError::Truncated { .. })));

    // subpacket length forms: 1-octet, 2-octet (192), 5-octet minimal (16320) and non-minimal
    let sig = |area: Vec<u8>| {
        let mut b = h("04 00 16 0a");
        b.extend_from_slice(&(area.len() as u16).to_be_bytes());
        b.extend_from_slice(&area);
        b.extend_from_slice(&h("0000 abcd 0001 01 0001 01"));
        b
    };
    let sub = |lenf: &str, len: usize| { let mut v = h(lenf); v.push(0x82); v.extend(vec![0x55; len - 1]); v };
    let d = ok(2, &sig([sub("05", 5), sub("c000", 192), sub("ff00003fc0", 16320)].concat()));
    assert!(d.canonical);
    let Summary::Signature(s) = &d.summary else { panic!() };
    assert_eq!(s.subpackets.len(), 3);
    assert!(s.subpackets.iter().all(|p| p.hashed && p.critical && p.typ == 2));
    assert_eq!(s.subpackets[1].len_field, (12, 14));
    assert_eq!(s.subpackets[1].body, (15, 15 + 191));
    assert_eq!(d.fields.iter().find(|f| f.path == "hashed/2/body").map(|f| f.end - f.start), Some(16319));
    for (lenf, len) in [("ff00000005", 5), ("ff000000c0", 192), ("ff00003fbf", 16319)] {
        let d = ok(2, &sig(sub(lenf, len)));
        assert!(!d.canonical, "{lenf}");
    }
    // subpacket overrunning its area, zero-length subpacket
    assert!(matches!(decode_packet(2, &sig(h("06 02 00"))), Err(DecodeError::Invalid(_))));
    assert!(matches!(decode_packet(2, &sig(h("00"))), Err(DecodeError::Invalid(_))));

    // user attribute
    assert!(ok(17, &h("03 01 aa bb 02 64 cc")).canonical);
    let d = ok(17, &h("ff00000003 01 aa bb"));
    assert!(!d.canonical);
    assert_eq!(kinds(&d), [UserAttrSubLen, UserAttrSubType, UserAttrBody]);
}

#[test]
fn synthetic_layouts() {
    use Kind::*;
    // SKESK v5 (LibrePGP): ver, sym, aead(OCB), s2k iter+salted, 15-octet nonce, esk 16, tag 16
    let b = h(&format!("05 09 02 03 08 {} ff {} {} {}", "11".repeat(8), "22".repeat(15), "33".repeat(16), "44".repeat(16)));
    assert_eq!(kinds(&ok(3, &b)), [Version, SymAlg, AeadAlg, S2kType, HashAlg, S2kSalt, S2kCount, Nonce, EncryptedSessionKey, AuthTag]);
    // SKESK v6 with a wrong count octet
    let b = h(&format!("06 1e 07 02 0b 03 08 {} ff {} {} {}", "11".repeat(8), "22".repeat(15), "33".repeat(16), "44".repeat(16)));
    assert!(matches!(decode_packet(3, &b), Err(DecodeError::Invalid(_))));
    // PKESK v3 X25519: key id, alg 25, 32 ephemeral, len 1+24, sym alg, wrapped
    let b = h(&format!("03 {} 19 {} 19 09 {}", "00".repeat(8), "aa".repeat(32), "bb".repeat(24)));
    assert_eq!(kinds(&ok(1, &b)), [Version, KeyId, PkAlg, NativeKeyMaterial, EskLen, SymAlg, EncryptedSessionKey]);
    // PKESK v6 anonymous recipient, X448
    let b = h(&format!("06 00 1a {} 18 {}", "aa".repeat(56), "bb".repeat(24)));
    assert_eq!(kinds(&ok(1, &b)), [Version, EskLen, PkAlg, NativeKeyMaterial, EskLen, EncryptedSessionKey]);
    // PKESK v6 with a v4 fingerprint of the wrong size
    assert!(matches!(decode_packet(1, &h("06 03 04 aa bb 01 0001 01")), Err(DecodeError::Invalid(_))));
    // PKESK v3 ECDH
    let b = h(&format!("03 {} 12 0107 40{} 30 {}", "00".repeat(8), "aa".repeat(32), "bb".repeat(48)));
    assert_eq!(kinds(&ok(1, &b)), [Version, KeyId, PkAlg, MpiBits, MpiBody, EskLen, EncryptedSessionKey]);
    // OPS v3 / v6
    assert_eq!(kinds(&ok(4, &h("03 00 08 01 1122334455667788 01"))), [Version, SigType, HashAlg, PkAlg, KeyId, NestedFlag]);
    let b = h(&format!("06 00 08 1b 10 {} {} 01", "55".repeat(16), "66".repeat(32)));
    assert_eq!(kinds(&ok(4, &b)), [Version, SigType, HashAlg, PkAlg, SaltLen, Salt, Fingerprint, NestedFlag]);
    // literal, compressed, marker, mdc, padding, seipd v1, unknown tag
    assert_eq!(kinds(&ok(11, &h("62 03 616263 00000000 6869"))), [LiteralMode, NameLen, Name, Time, Data]);
    assert_eq!(kinds(&ok(11, &h("62 00 00000000"))), [LiteralMode, NameLen, Time]);
    assert_eq!(kinds(&ok(8, &h("01 aabb"))), [CompAlg, Data]);
    assert_eq!(kinds(&ok(10, b"PGP")), [Data]);
    assert!(decode_packet(10, b"PGQ").is_err() && decode_packet(10, b"PGPx").is_err());
    assert_eq!(kinds(&ok(19, &[7u8; 20])), [AuthTag]);
    assert!(decode_packet(19, &[7u8; 21]).is_err() && decode_packet(19, &[7u8; 19]).is_err());
    assert_eq!(kinds(&ok(18, &h("01 aabbcc"))), [Version, Data]);
    assert_eq!(kinds(&ok(18, &h("07 aabbcc"))), [Version, Opaque]);
    assert_eq!(kinds(&ok(60, &h("aabbcc"))), [Opaque]);
    assert!(ok(60, &[]).fields.is_empty() && ok(13, &[]).fields.is_empty());
}

#[test]
fn synthetic_keys() {
    use Kind::*;
    // v6 Ed25519 public key; then same with wrong material length
    let b = h(&format!("06 00000001 1b 00000020 {}", "aa".repeat(32)));
    let d = ok(6, &b);
    assert_eq!(kinds(&d), [Version, Time, PkAlg, KeyMaterialLen, NativeKeyMaterial]);
    let Summary::Key(k) = d.summary else { panic!() };
    assert_eq!((k.material, k.public_end, k.is_secret), ((10, 42), 42, false));
    assert!(matches!(decode_packet(6, &h(&format!("06 00000001 1b 00000021 {}", "aa".repeat(33)))), Err(DecodeError::Invalid(_))));
    assert!(matches!(decode_packet(6, &h(&format!("06 00000001 1b 0000001f {}", "aa".repeat(31)))), Err(DecodeError::Invalid(_))));
    assert!(matches!(decode_packet(6, &h(&format!("06 00000001 1b 00000020 {}", "aa".repeat(31)))), Err(DecodeError::Truncated { .. })));
    assert!(matches!(decode_packet(6, &h(&format!("06 00000001 1b 00000020 {}", "aa".repeat(33)))), Err(DecodeError::Trailing { at: 42 })));
    // v6 unknown algorithm public + secret (length octets make the split possible)
    let d = ok(5, &h("06 00000001 63 00000003 aabbcc 00 ddee"));
    assert_eq!(kinds(&d), [Version, Time, PkAlg, KeyMaterialLen, Opaque, S2kUsage, Opaque]);
    let Summary::Key(k) = d.summary else { panic!() };
    assert_eq!((k.public_end, k.secret_part), (13, Some((13, 16))));
    // v4 unknown algorithm secret key: cannot split
    let d = ok(5, &h("04 00000001 63 aabbcc 00 ddee"));
    let Summary::Key(k) = d.summary else { panic!() };
    assert_eq!((k.public_end, k.secret_part, k.is_secret), (12, None, true));
    // v6 unprotected Ed25519 secret key has no checksum; v4 has one
    let b = h(&format!("06 00000001 1b 00000020 {} 00 {}", "aa".repeat(32), "bb".repeat(32)));
    assert_eq!(kinds(&ok(5, &b)), [Version, Time, PkAlg, KeyMaterialLen, NativeKeyMaterial, S2kUsage, NativeKeyMaterial]);
    let b = h(&format!("04 00000001 1b {} 00 {} 1234", "aa".repeat(32), "bb".repeat(32)));
    assert_eq!(kinds(&ok(7, &b)), [Version, Time, PkAlg, NativeKeyMaterial, S2kUsage, NativeKeyMaterial, SecretChecksum]);
    // v6 legacy CFB (usage = cipher id): count octet covers the IV only
    let b = h(&format!("06 00000001 1b 00000020 {} 09 10 {} {}", "aa".repeat(32), "cc".repeat(16), "dd".repeat(34)));
    assert_eq!(kinds(&ok(5, &b)), [Version, Time, PkAlg, KeyMaterialLen, NativeKeyMaterial, S2kUsage, S2kParamsLen, Iv, EncryptedSecret]);
    // v6 usage 254 with unknown cipher 0x63: IV length derived from the count octet
    let b = h(&format!("06 00000001 1b 00000020 {} fe 09 63 02 00 08 {} {}", "aa".repeat(32), "cc".repeat(5), "dd".repeat(34)));
    let d = ok(5, &b);
    assert_eq!(kinds(&d), [Version, Time, PkAlg, KeyMaterialLen, NativeKeyMaterial, S2kUsage, S2kParamsLen, SymAlg, S2kSpecLen, S2kType, HashAlg, Iv, EncryptedSecret]);
    assert_eq!(d.fields.iter().find(|f| f.kind == Iv).map(|f| f.end - f.start), Some(5));
    // v6 usage 254 with a count octet that contradicts the known block size
    let b = h(&format!("06 00000001 1b 00000020 {} fe 0a 09 02 00 08 {} {}", "aa".repeat(32), "cc".repeat(16), "dd".repeat(34)));
    assert!(matches!(decode_packet(5, &b), Err(DecodeError::Invalid(_))));
    // v4 usage 255 / CAST5 / salted S2K; v4 legacy usage = IDEA
    let b = h(&format!("04 00000001 1b {} ff 03 01 02 {} {} {}", "aa".repeat(32), "11".repeat(8), "cc".repeat(8), "dd".repeat(34)));
    assert_eq!(kinds(&ok(5, &b)), [Version, Time, PkAlg, NativeKeyMaterial, S2kUsage, SymAlg, S2kType, HashAlg, S2kSalt, Iv, EncryptedSecret]);
    let b = h(&format!("04 00000001 1b {} 01 {} {}", "aa".repeat(32), "cc".repeat(8), "dd".repeat(34)));
    let d = ok(5, &b);
    assert_eq!(kinds(&d), [Version, Time, PkAlg, NativeKeyMaterial, S2kUsage, Iv, EncryptedSecret]);
    let Summary::Key(k) = d.summary else { panic!() };
    assert_eq!((k.s2k_usage, k.sym_alg, k.s2k_type, k.aead_alg), (Some(1), Some(1), None, None));
    // ECDH public key: oid, point, KDF params
    let b = h(&format!("04 00000001 12 0a 2b060104019755010501 0107 40{} 03 01 08 07", "aa".repeat(32)));
    assert_eq!(kinds(&ok(14, &b)), [Version, Time, PkAlg, CurveOidLen, CurveOid, MpiBits, MpiBody, KdfParams]);
    // ElGamal (3 MPIs) and DSA (4 MPIs)
    assert_eq!(ok(6, &h("04 00000001 10 0001 01 0001 01 0001 01")).fields.len(), 9);
    assert_eq!(ok(6, &h("04 00000001 11 0001 01 0001 01 0001 01 0001 01")).fields.len(), 11);
    // unknown key version
    assert_eq!(kinds(&ok(6, &h("05 00000001 16 aabb"))), [Version, Opaque]);
    assert!(matches!(fingerprint(&h("05 00000001 16 aabb")), Err(DecodeError::Unsupported(_))));
}

#[test]
fn framing() {
    // new format: 1-octet, 2-octet, 5-octet, partial (2 + 1 + final 1)
    let mut s = h("cd 02 6161");
    s.extend(h("cd c0 00")); s.extend(vec![0x62; 192]);
    s.extend(h("cd ff 00000003 636363"));
    s.extend(h("cb e1 6464 e0 65 01 66"));
    // old format: 1, 2, 4 octet lengths and indeterminate
    s.extend(h("b4 01 67")); s.extend(h("b5 0002 6868")); s.extend(h("b6 00000001 69")); s.extend(h("a3 01 02 03"));
    let p = split_packets(&s).unwrap();
    let got: Vec<(u8, usize, usize)> = p.iter().map(|(t, h, b)| (*t, h.len(), b.len())).collect();
    assert_eq!(got, [(13, 2, 2), (13, 3, 192), (13, 6, 3), (11, 2, 4), (13, 2, 1), (13, 3, 2), (13, 5, 1), (8, 1, 3)]);
    assert_eq!(p[3].2, b"ddef");
    assert!(split_packets(&h("cd 05 61")).is_err() && split_packets(&h("4d 00")).is_err() && split_packets(&h("cd")).is_err());
    assert!(split_packets(&[]).unwrap().is_empty());
    // armor: headers, no headers, CRLF, missing checksum
    let a = b"junk\n-----BEGIN PGP MESSAGE-----\r\nVersion: x\r\nComment: y\r\n\r\nzQJh\r\nYQ==\r\n=abcd\r\n-----END PGP MESSAGE-----\r\n";
    assert_eq!(dearmor(a).unwrap(), h("cd026161"));
    assert_eq!(dearmor(b"-----BEGIN PGP MESSAGE-----\n\nzQJhYQ\n-----END PGP MESSAGE-----").unwrap(), h("cd026161"));
    assert_eq!(dearmor(b"-----BEGIN PGP MESSAGE-----\nzQJhYQ==").unwrap(), h("cd026161"));
    assert!(dearmor(b"hello").is_err() && dearmor(b"-----BEGIN PGP MESSAGE-----\n\nzQ!h").is_err());
}

/// No input may panic; every success must tile.  Mutates all fixture packets (every prefix up to
/// a cap, single-octet changes) and feeds pseudo-random bodies to every tag.
#[test]
fn robustness() {
    let mut files = Vec::new();
    walk(Path::new("/repo/tests"), &mut files);
    let mut rng = 0x9e3779b97f4a7c15u64;
    let mut next = move || { rng ^= rng << 13; rng ^= rng >> 7; rng ^= rng << 17; rng };
    let (mut n, mut okc) = (0usize, 0usize);
    let mut check = |tag: u8, body: &[u8]| {
        n += 1;
        if let Ok(d) = decode_packet(tag, body) { okc += 1; assert_tiles(&d, body, "mutated"); }
    };
    for f in &files {
        let Some(Ok(stream)) = load(f) else { continue };
        let _ = dearmor(&stream);
        for cut in (0..stream.len().min(300)).step_by(7) { let _ = split_packets(&stream[..cut]); let _ = split_packets(&stream[cut..]); }
        let Ok(packets) = split_packets(&stream) else { continue };
        for (tag, _, body) in packets {
            if body.len() > 20_000 { continue; }
            for cut in 0..body.len().min(700) { check(tag, &body[..cut]); }
            let mut m = body.clone();
            for i in 0..m.len().min(400) {
                let orig = m[i];
                for v in [orig ^ 1, orig ^ 0x80, 0, 0xff, orig.wrapping_add(1)] { m[i] = v; check(tag, &m); }
                m[i] = orig;
            }
            if !m.is_empty() { m.push(0); check(tag, &m); }
        }
    }
    for tag in 0..=63u8 {
        for _ in 0..3000 {
            let len = (next() % 96) as usize;
            let mut b: Vec<u8> = (0..len).map(|_| next() as u8).collect();
            if let Some(f) = b.first_mut() { if next() % 4 != 0 { *f = [2, 3, 4, 5, 6, 1][(next() % 6) as usize]; } }
            check(tag, &b);
            let _ = fingerprint(&b);
        }
    }
    for _ in 0..3000 {
        let len = (next() % 200) as usize;
        let b: Vec<u8> = (0..len).map(|_| next() as u8 | 0x80).collect();
        let _ = split_packets(&b);
        let mut t = b"-----BEGIN PGP X-----\n\n".to_vec();
        t.extend(b.iter().map(|x| b"ABCDEFGHIJKLMNOPQRSTUVWXYZabcdefghijklmnopqrstuvwxyz0123456789+/=\n-: "[(x % 69) as usize]));
        let _ = dearmor(&t);
    }
    println!("robustness: {n} bodies decoded without panic, {okc} ok");
}
