//! E5 `resmon`: a counting global allocator (per-thread counters) and a sharded sub-process
//! runner for sweeps over hostile input (aborts, stack overflows and hangs kill a process;
//! panics are caught in-process).

use std::{
    alloc::{GlobalAlloc, Layout, System},
    cell::Cell,
};

pub struct Counting;

thread_local! {
    static CUR: Cell<isize> = const { Cell::new(0) };
    static PEAK: Cell<isize> = const { Cell::new(0) };
    static TOTAL: Cell<u64> = const { Cell::new(0) };
    static MAX_ONE: Cell<usize> = const { Cell::new(0) };
    static ALLOCS: Cell<u64> = const { Cell::new(0) };
}

unsafe impl GlobalAlloc for Counting {
    unsafe fn alloc(&self, layout: Layout) -> *mut u8 {
        let p = System.alloc(layout);
        if !p.is_null() {
            note_alloc(layout.size());
        }
        p
    }
    unsafe fn alloc_zeroed(&self, layout: Layout) -> *mut u8 {
        let p = System.alloc_zeroed(layout);
        if !p.is_null() {
            note_alloc(layout.size());
        }
        p
    }
    unsafe fn dealloc(&self, ptr: *mut u8, layout: Layout) {
        System.dealloc(ptr, layout);
        let _ = CUR.try_with(|c| c.set(c.get() - layout.size() as isize));
    }
    unsafe fn realloc(&self, ptr: *mut u8, layout: Layout, new_size: usize) -> *mut u8 {
        let p = System.realloc(ptr, layout, new_size);
        if !p.is_null() {
            let _ = CUR.try_with(|c| c.set(c.get() - layout.size() as isize));
            note_alloc(new_size);
        }
        p
    }
}

#[inline]
fn note_alloc(size: usize) {
    let _ = CUR.try_with(|c| {
        let v = c.get() + size as isize;
        c.set(v);
        let _ = PEAK.try_with(|p| {
            if v > p.get() {
                p.set(v);
            }
        });
    });
    let _ = TOTAL.try_with(|t| t.set(t.get() + size as u64));
    let _ = ALLOCS.try_with(|t| t.set(t.get() + 1));
    let _ = MAX_ONE.try_with(|m| {
        if size > m.get() {
            m.set(size);
        }
    });
}

#[derive(Clone, Copy, Debug, Default)]
pub struct Usage {
    /// peak of live bytes above the level at the start of the window
    pub peak: usize,
    /// total bytes requested in the window
    pub total: u64,
    /// largest single request
    pub max_one: usize,
    pub allocs: u64,
}

/// Measure the allocations made by `f` on this thread.
pub fn measure<T>(f: impl FnOnce() -> T) -> (T, Usage) {
    let base = CUR.with(|c| c.get());
    PEAK.with(|p| p.set(base));
    let t0 = TOTAL.with(|t| t.get());
    let a0 = ALLOCS.with(|t| t.get());
    MAX_ONE.with(|m| m.set(0));
    let r = f();
    let peak = PEAK.with(|p| p.get());
    let u = Usage {
        peak: (peak - base).max(0) as usize,
        total: TOTAL.with(|t| t.get()) - t0,
        max_one: MAX_ONE.with(|m| m.get()),
        allocs: ALLOCS.with(|t| t.get()) - a0,
    };
    (r, u)
}

/// CPU time consumed by this thread (seconds).
pub fn thread_cpu_time() -> f64 {
    // /proc/thread-self/stat fields 14,15 (utime, stime) in clock ticks are too coarse (10 ms);
    // use schedstat: on-cpu time in nanoseconds
    if let Ok(s) = std::fs::read_to_string("/proc/thread-self/schedstat") {
        if let Some(ns) = s.split_whitespace().next().and_then(|x| x.parse::<u64>().ok()) {
            return ns as f64 / 1e9;
        }
    }
    // fallback: wall clock
    static START: std::sync::OnceLock<std::time::Instant> = std::sync::OnceLock::new();
    START.get_or_init(std::time::Instant::now).elapsed().as_secs_f64()
}
