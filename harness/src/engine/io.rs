//! E1 `ioexplore`: scripted environment objects (source, sink, consumer) whose every call is a
//! choice point, and the deviation-bounded / state-pruned exhaustive explorer over those choices.

use std::{
    collections::HashSet,
    io::{self, BufRead, Read, Write},
    sync::{Arc, Mutex},
};

#[derive(Clone, Copy, Debug, PartialEq, Eq, Hash, serde::Serialize, serde::Deserialize)]
pub enum Kind {
    SrcRead,
    SrcEof,
    SinkWrite,
    SinkFlush,
    Consumer,
}

#[derive(Clone, Copy, Debug, PartialEq, Eq, Hash)]
pub struct Point {
    pub kind: Kind,
    /// number of alternatives including the default (choice 0)
    pub n: u16,
    pub chosen: u16,
}

#[derive(Default)]
struct ScriptInner {
    prefix: Vec<u16>,
    expect: Vec<(Kind, u16)>,
    trace: Vec<Point>,
    marks: Vec<(usize, u64)>,
    horizon: usize,
    horizon_hit: bool,
    diverged: Option<String>,
    fault_injected: bool,
}

/// One execution's sequence of environment choices: a forced prefix, defaults afterwards.
#[derive(Clone)]
pub struct Script(Arc<Mutex<ScriptInner>>);

impl std::fmt::Debug for Script {
    fn fmt(&self, f: &mut std::fmt::Formatter<'_>) -> std::fmt::Result {
        write!(f, "Script")
    }
}

impl Script {
    pub fn new(prefix: Vec<u16>, expect: Vec<(Kind, u16)>, horizon: usize) -> Self {
        Script(Arc::new(Mutex::new(ScriptInner {
            prefix,
            expect,
            horizon,
            ..Default::default()
        })))
    }
    pub fn defaults(horizon: usize) -> Self {
        Self::new(vec![], vec![], horizon)
    }
    /// Choose among `n` alternatives (0 = default) at a choice point of kind `kind`.
    pub fn choose(&self, kind: Kind, n: u16) -> u16 {
        let mut s = self.0.lock().unwrap();
        let i = s.trace.len();
        if i >= s.horizon {
            s.horizon_hit = true;
        }
        let chosen = if i < s.prefix.len() {
            if let Some(&(k, en)) = s.expect.get(i) {
                if k != kind || en != n {
                    s.diverged = Some(format!(
                        "point {i}: expected {k:?}/{en}, got {kind:?}/{n}"
                    ));
                }
            }
            let c = s.prefix[i];
            if c >= n {
                s.diverged = Some(format!("point {i}: choice {c} out of range {n}"));
                0
            } else {
                c
            }
        } else {
            0
        };
        s.trace.push(Point { kind, n, chosen });
        chosen
    }
    pub fn mark_state(&self, h: u64) {
        let mut s = self.0.lock().unwrap();
        let pos = s.trace.len();
        s.marks.push((pos, h));
    }
    pub fn trace(&self) -> Vec<Point> {
        self.0.lock().unwrap().trace.clone()
    }
    pub fn marks(&self) -> Vec<(usize, u64)> {
        self.0.lock().unwrap().marks.clone()
    }
    pub fn horizon_hit(&self) -> bool {
        self.0.lock().unwrap().horizon_hit
    }
    pub fn diverged(&self) -> Option<String> {
        self.0.lock().unwrap().diverged.clone()
    }
    pub fn calls(&self) -> usize {
        self.0.lock().unwrap().trace.len()
    }
    fn fault_available(&self) -> bool {
        !self.0.lock().unwrap().fault_injected
    }
    fn set_fault(&self) {
        self.0.lock().unwrap().fault_injected = true;
    }
    pub fn fault_injected(&self) -> bool {
        self.0.lock().unwrap().fault_injected
    }
}

pub const FAULT_MSG: &str = "verif-injected-fault";

pub fn injected() -> io::Error {
    io::Error::new(io::ErrorKind::Other, FAULT_MSG)
}

pub const INTERRUPT_MSG: &str = "verif-interrupted";

/// `ErrorKind::Interrupted`: nothing was read, the call is to be repeated (std's `read_to_end`,
/// `read_exact`, `io::copy` and every careful consumer do so).
pub fn interrupted() -> io::Error {
    io::Error::new(io::ErrorKind::Interrupted, INTERRUPT_MSG)
}

#[derive(Clone, Debug, Default)]
pub struct SrcOpts {
    /// offer `Err` as an alternative at each call (at most one per run)
    pub faults: bool,
    /// the injected error is returned once and later calls succeed (default: sticky)
    pub transient: bool,
    /// the injected error is an `ErrorKind::Interrupted` (returned once; the call is to be repeated)
    pub interrupt: bool,
    /// stream positions `b` for which sizes ending at b-1, b, b+1 are offered
    pub boundaries: Vec<usize>,
    /// the *default* answer returns at most this many bytes (uniform adversarial schedules)
    pub uniform: Option<usize>,
    /// offer every size 1..k (all compositions) instead of the reduced menu
    pub full_menu: bool,
    /// menu restricted to {1,2,3,all}
    pub reduced_menu: bool,
}

/// A source whose every `read` is a choice point.
#[derive(Debug)]
pub struct ScriptedReader {
    data: Arc<Vec<u8>>,
    pos: usize,
    script: Script,
    opts: SrcOpts,
    failed: bool,
}

impl ScriptedReader {
    pub fn new(data: Arc<Vec<u8>>, script: Script, opts: SrcOpts) -> Self {
        ScriptedReader {
            data,
            pos: 0,
            script,
            opts,
            failed: false,
        }
    }
    pub fn pos(&self) -> usize {
        self.pos
    }
    fn menu(&self, k: usize) -> Vec<usize> {
        // sizes strictly below the default answer k, ascending, deduplicated; default first
        let mut m: Vec<usize> = Vec::new();
        if self.opts.full_menu {
            m.extend(1..k);
        } else if self.opts.reduced_menu {
            m.extend([1usize, 2, 3].iter().filter(|&&x| x < k));
        } else {
            for x in [1usize, 2, 3, k.div_ceil(2), k.saturating_sub(1)] {
                if x >= 1 && x < k {
                    m.push(x);
                }
            }
            for &b in &self.opts.boundaries {
                if b == 0 {
                    continue;
                }
                // next multiple of b after pos
                let next = (self.pos / b + 1) * b;
                for end in [next - 1, next, next + 1] {
                    if end > self.pos {
                        let x = end - self.pos;
                        if x >= 1 && x < k {
                            m.push(x);
                        }
                    }
                }
            }
        }
        m.sort_unstable();
        m.dedup();
        m
    }
}

impl Read for ScriptedReader {
    fn read(&mut self, buf: &mut [u8]) -> io::Result<usize> {
        if self.failed {
            return Err(injected());
        }
        if self.script.horizon_hit() {
            return Err(io::Error::new(io::ErrorKind::Other, "verif-horizon"));
        }
        let rem = self.data.len() - self.pos;
        let fault_ok = self.opts.faults && self.script.fault_available();
        if buf.is_empty() {
            return Ok(0);
        }
        if rem == 0 {
            let n = 1 + fault_ok as u16;
            let c = self.script.choose(Kind::SrcEof, n);
            if c == 1 {
                self.script.set_fault();
                if self.opts.interrupt {
                    return Err(interrupted());
                }
                self.failed = !self.opts.transient;
                return Err(injected());
            }
            return Ok(0);
        }
        let mut k = rem.min(buf.len());
        if let Some(u) = self.opts.uniform {
            k = k.min(u.max(1));
        }
        let menu = self.menu(k);
        let n = 1 + menu.len() as u16 + fault_ok as u16;
        let c = self.script.choose(Kind::SrcRead, n) as usize;
        let take = if c == 0 {
            k
        } else if c <= menu.len() {
            menu[c - 1]
        } else {
            self.script.set_fault();
            if self.opts.interrupt {
                return Err(interrupted());
            }
            self.failed = !self.opts.transient;
            return Err(injected());
        };
        buf[..take].copy_from_slice(&self.data[self.pos..self.pos + take]);
        self.pos += take;
        Ok(take)
    }
}

#[derive(Clone, Debug, Default)]
pub struct SinkOpts {
    pub faults: bool,
    pub short_writes: bool,
    /// the injected error is returned once (the data of that call is not written) and later
    /// calls succeed (default: sticky)
    pub transient: bool,
    /// the injected error is an `ErrorKind::Interrupted` (nothing written / flushed; returned
    /// once; `write_all` and every careful writer repeat the call)
    pub interrupt: bool,
}

/// A sink whose every `write` and `flush` is a choice point.
#[derive(Debug)]
pub struct ScriptedWriter {
    pub out: Arc<Mutex<Vec<u8>>>,
    script: Script,
    opts: SinkOpts,
    failed: bool,
}

impl ScriptedWriter {
    pub fn new(script: Script, opts: SinkOpts) -> Self {
        ScriptedWriter {
            out: Arc::new(Mutex::new(Vec::new())),
            script,
            opts,
            failed: false,
        }
    }
    pub fn handle(&self) -> Arc<Mutex<Vec<u8>>> {
        self.out.clone()
    }
}

impl Write for ScriptedWriter {
    fn write(&mut self, buf: &[u8]) -> io::Result<usize> {
        if self.failed {
            return Err(injected());
        }
        if buf.is_empty() {
            return Ok(0);
        }
        let fault_ok = self.opts.faults && self.script.fault_available();
        let mut menu: Vec<usize> = Vec::new();
        if self.opts.short_writes {
            for x in [1usize, buf.len().div_ceil(2)] {
                if x < buf.len() && !menu.contains(&x) {
                    menu.push(x);
                }
            }
        }
        let n = 1 + menu.len() as u16 + fault_ok as u16;
        let c = self.script.choose(Kind::SinkWrite, n) as usize;
        let take = if c == 0 {
            buf.len()
        } else if c <= menu.len() {
            menu[c - 1]
        } else {
            self.script.set_fault();
            if self.opts.interrupt {
                return Err(interrupted());
            }
            self.failed = !self.opts.transient;
            return Err(injected());
        };
        self.out.lock().unwrap().extend_from_slice(&buf[..take]);
        Ok(take)
    }
    fn flush(&mut self) -> io::Result<()> {
        if self.failed {
            return Err(injected());
        }
        let fault_ok = self.opts.faults && self.script.fault_available();
        let c = self.script.choose(Kind::SinkFlush, 1 + fault_ok as u16);
        if c == 1 {
            self.script.set_fault();
            if self.opts.interrupt {
                return Err(interrupted());
            }
            self.failed = !self.opts.transient;
            return Err(injected());
        }
        Ok(())
    }
}

/// How a consumer pulls data out of a `Read`.
#[derive(Clone, Copy, Debug, PartialEq, Eq, Hash, serde::Serialize, serde::Deserialize)]
pub enum Consumer {
    /// `read_to_end`
    ToEnd,
    /// `read` with a fixed buffer size until `Ok(0)`
    Fixed(usize),
    /// every call chooses its buffer size from the menu through the script
    Scripted,
    /// `fill_buf` + `consume(j)`, j from script {len, 1, ceil(len/2)}
    BufScripted,
}

/// (0 = a read into an empty buffer: legal, answers Ok(0), and is not the end of the stream)
pub const CONSUMER_MENU: [usize; 13] = [1 << 20, 1, 2, 3, 7, 64, 511, 512, 513, 8191, 8192, 8193, 0];
pub const CONSUMER_MENU_SMALL: [usize; 5] = [1 << 16, 1, 2, 7, 0];

#[derive(Clone, Debug, PartialEq, Eq, Hash)]
pub struct Consumed {
    pub out: Vec<u8>,
    /// `None` = clean end of stream; `Some(msg)` = the first error
    pub err: Option<String>,
    pub calls: usize,
}

/// Drive a `Read` to its end (first `Ok(0)` for a non-empty buffer, or first `Err`).
pub fn consume<R: Read>(
    r: &mut R,
    mode: Consumer,
    script: &Script,
    small_menu: bool,
    mut after_call: impl FnMut(&R, usize),
) -> Consumed {
    let mut out = Vec::new();
    let mut calls = 0usize;
    // interrupted reads in a row (repeated up to 64 times)
    let mut interrupts = 0usize;
    let cap = 1 << 22;
    match mode {
        Consumer::ToEnd => {
            // std's read_to_end repeats interrupted reads without limit: a subject that answers
            // `Interrupted` forever is turned into an error after 64 repeats in a row (the error state the subject is in is an
            // error all the same)
            struct Bounded<'a, R: Read>(&'a mut R, usize);
            impl<R: Read> Read for Bounded<'_, R> {
                fn read(&mut self, buf: &mut [u8]) -> io::Result<usize> {
                    match self.0.read(buf) {
                        Err(e) if e.kind() == io::ErrorKind::Interrupted => {
                            self.1 += 1;
                            if self.1 > 64 {
                                return Err(io::Error::other("verif-livelock: the reader answers Interrupted without end"));
                            }
                            Err(e)
                        }
                        other => {
                            self.1 = 0;
                            other
                        }
                    }
                }
            }
            let r2 = Bounded(r, 0).read_to_end(&mut out);
            calls = 1;
            Consumed {
                out,
                err: r2.err().map(|e| e.to_string()),
                calls,
            }
        }
        Consumer::Fixed(sz) => {
            let mut buf = vec![0u8; sz.max(1)];
            loop {
                calls += 1;
                if script.horizon_hit() || calls > cap {
                    return Consumed {
                        out,
                        err: Some("verif-horizon".into()),
                        calls,
                    };
                }
                match r.read(&mut buf) {
                    Ok(0) => {
                        return Consumed {
                            out,
                            err: None,
                            calls,
                        }
                    }
                    Ok(n) => {
                        interrupts = 0;
                        out.extend_from_slice(&buf[..n]);
                        after_call(r, out.len());
                    }
                    Err(e) if e.kind() == io::ErrorKind::Interrupted && interrupts < 64 => {
                        interrupts += 1;
                        continue;
                    }
                    Err(e) => {
                        return Consumed {
                            out,
                            err: Some(e.to_string()),
                            calls,
                        }
                    }
                }
            }
        }
        Consumer::Scripted => {
            let menu: &[usize] = if small_menu {
                &CONSUMER_MENU_SMALL
            } else {
                &CONSUMER_MENU
            };
            let mut buf = vec![0u8; menu[0]];
            loop {
                calls += 1;
                if script.horizon_hit() {
                    return Consumed {
                        out,
                        err: Some("verif-horizon".into()),
                        calls,
                    };
                }
                let c = script.choose(Kind::Consumer, menu.len() as u16) as usize;
                let sz = menu[c];
                if sz == 0 {
                    // an empty buffer: nothing can be delivered, and nothing may change
                    match r.read(&mut []) {
                        Ok(_) => continue,
                        Err(e) if e.kind() == io::ErrorKind::Interrupted && interrupts < 64 => {
                            interrupts += 1;
                            continue;
                        }
                        Err(e) => {
                            return Consumed {
                                out,
                                err: Some(e.to_string()),
                                calls,
                            }
                        }
                    }
                }
                match r.read(&mut buf[..sz]) {
                    Ok(0) => {
                        return Consumed {
                            out,
                            err: None,
                            calls,
                        }
                    }
                    Ok(n) => {
                        interrupts = 0;
                        out.extend_from_slice(&buf[..n]);
                        after_call(r, out.len());
                    }
                    Err(e) if e.kind() == io::ErrorKind::Interrupted && interrupts < 64 => {
                        interrupts += 1;
                        continue;
                    }
                    Err(e) => {
                        return Consumed {
                            out,
                            err: Some(e.to_string()),
                            calls,
                        }
                    }
                }
            }
        }
        Consumer::BufScripted => unreachable!("use consume_bufread"),
    }
}

/// Drive a `BufRead` through `fill_buf`/`consume(j)`.
pub fn consume_bufread<R: BufRead>(r: &mut R, script: &Script) -> Consumed {
    let mut out = Vec::new();
    let mut calls = 0usize;
    let mut interrupts = 0usize;
    loop {
        calls += 1;
        if script.horizon_hit() {
            return Consumed {
                out,
                err: Some("verif-horizon".into()),
                calls,
            };
        }
        let len = match r.fill_buf() {
            Ok(b) => {
                if b.is_empty() {
                    return Consumed {
                        out,
                        err: None,
                        calls,
                    };
                }
                interrupts = 0;
                b.len()
            }
            Err(e) if e.kind() == io::ErrorKind::Interrupted && interrupts < 64 => {
                interrupts += 1;
                continue;
            }
            Err(e) => {
                return Consumed {
                    out,
                    err: Some(e.to_string()),
                    calls,
                }
            }
        };
        let mut menu = vec![len];
        for x in [1usize, len.div_ceil(2)] {
            if x < len && !menu.contains(&x) {
                menu.push(x);
            }
        }
        let c = script.choose(Kind::Consumer, menu.len() as u16) as usize;
        let j = menu[c];
        let b = r.fill_buf().expect("second fill_buf on non-empty buffer");
        out.extend_from_slice(&b[..j]);
        r.consume(j);
    }
}

/// Bounds of one exploration.
#[derive(Clone, Copy, Debug)]
pub struct Explore {
    /// maximum number of non-default choices per execution (`usize::MAX` = unbounded)
    pub max_dev: usize,
    /// hard cap on executions (a hit cap is reported, never hidden)
    pub max_runs: u64,
    /// prune on state marks seen before
    pub prune: bool,
    pub horizon: usize,
}

#[derive(Clone, Debug, Default)]
pub struct ExploreStats {
    pub runs: u64,
    pub points: u64,
    pub states: u64,
    pub pruned: u64,
    pub cap_hit: bool,
    pub max_trace: usize,
    pub diverged: Option<String>,
}

/// Systematically explores all choice sequences of `run` within the bounds.  `run` must build a
/// fresh subject wired to the given script and execute it to completion; `on_run` receives the
/// script (trace) and the observation of every execution.  Returns `false` from `on_run` to stop.
pub fn explore<O>(
    b: Explore,
    run: impl Fn(&Script) -> O,
    mut on_run: impl FnMut(&Script, O) -> bool,
) -> ExploreStats {
    let mut st = ExploreStats::default();
    let mut visited: HashSet<u64> = HashSet::new();
    let mut stack: Vec<(Vec<u16>, Vec<(Kind, u16)>)> = vec![(vec![], vec![])];
    while let Some((prefix, expect)) = stack.pop() {
        if st.runs >= b.max_runs {
            st.cap_hit = true;
            break;
        }
        let plen = prefix.len();
        let devs = prefix.iter().filter(|&&c| c != 0).count();
        let script = Script::new(prefix, expect, b.horizon);
        let obs = run(&script);
        st.runs += 1;
        let trace = script.trace();
        st.points += trace.len() as u64;
        st.max_trace = st.max_trace.max(trace.len());
        if let Some(d) = script.diverged() {
            st.diverged = Some(d);
            break;
        }
        if trace.len() < plen {
            st.diverged = Some(format!(
                "replay shorter than prefix: {} < {plen}",
                trace.len()
            ));
            break;
        }
        // state pruning: first already-visited state reached after the new deviation
        let mut cutoff = trace.len();
        if b.prune {
            for (pos, h) in script.marks() {
                if plen == 0 || pos >= plen {
                    if !visited.insert(h) {
                        cutoff = pos;
                        st.pruned += 1;
                        break;
                    }
                }
            }
            st.states = visited.len() as u64;
        }
        let go = on_run(&script, obs);
        if !go {
            break;
        }
        if devs + 1 > b.max_dev {
            continue;
        }
        // children: deviate at each later point (reverse so that the earliest is explored first)
        for i in (plen..cutoff.min(trace.len())).rev() {
            let p = trace[i];
            for alt in (1..p.n).rev() {
                let mut np: Vec<u16> = trace[..i].iter().map(|p| p.chosen).collect();
                np.push(alt);
                let ne: Vec<(Kind, u16)> = trace[..=i].iter().map(|p| (p.kind, p.n)).collect();
                stack.push((np, ne));
            }
        }
    }
    st
}

pub fn schedule_string(trace: &[Point]) -> String {
    trace
        .iter()
        .map(|p| {
            let k = match p.kind {
                Kind::SrcRead => "r",
                Kind::SrcEof => "e",
                Kind::SinkWrite => "w",
                Kind::SinkFlush => "f",
                Kind::Consumer => "c",
            };
            format!("{k}{}/{}", p.chosen, p.n)
        })
        .collect::<Vec<_>>()
        .join(" ")
}
