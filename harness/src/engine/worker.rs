//! Sharded sub-process runner: a space of indexable cases is split into shards, each shard runs
//! in a child process (the binary re-executes itself with `--worker`).  A child that dies (abort,
//! stack overflow, OOM kill) or exceeds its time budget is bisected until the single offending
//! case is isolated; that case is reported as a violation.  Panics are caught inside the child.

use std::{
    collections::BTreeMap,
    io::Read,
    process::{Command, Stdio},
    time::{Duration, Instant},
};

use rayon::prelude::*;
use serde_json::{json, Value};

use super::{guarded, loc_file, Ctx, Outcome, Viol};

#[derive(Default)]
pub struct ShardResult {
    pub evals: u64,
    pub nontrivial: u64,
    pub classes: BTreeMap<String, u64>,
    pub viols: Vec<(String, String, Value)>,
    pub samples: Vec<Value>,
}

/// Child side: run cases [start, end) and print the result as one JSON line.
pub fn child_run(start: u64, end: u64, case_json: impl Fn(u64) -> Value, run: impl Fn(u64) -> Outcome) -> Value {
    let mut r = ShardResult::default();
    let mut per_sig: BTreeMap<String, u32> = BTreeMap::new();
    for i in start..end {
        let o = match guarded(|| run(i)) {
            Ok(o) => o,
            Err((loc, msg)) => {
                let short: String = msg.chars().take(200).collect();
                Outcome::bad(format!("panic@{}", loc_file(&loc)), format!("panic at {loc}: {short}"))
            }
        };
        r.evals += o.evals.max(1);
        if o.nontrivial {
            r.nontrivial += 1;
        }
        *r.classes.entry(o.class.clone()).or_default() += 1;
        if r.samples.len() < 2 && o.nontrivial && i % 7 == 0 {
            r.samples.push(json!({"case": case_json(i), "outcome": o.class}));
        }
        for v in o.viol {
            let n = per_sig.entry(v.sig.clone()).or_default();
            *n += 1;
            if *n <= 3 {
                r.viols.push((v.sig, v.what, case_json(i)));
            }
        }
    }
    json!({
        "evals": r.evals, "nontrivial": r.nontrivial, "classes": r.classes,
        "viols": r.viols.iter().map(|(s, w, c)| json!({"sig": s, "what": w, "case": c})).collect::<Vec<_>>(),
        "samples": r.samples,
    })
}

enum ChildEnd {
    Ok(Value),
    Died(String),
    Timeout,
}

fn run_child(prop: &str, space: &str, start: u64, end: u64, tier: &str, timeout: Duration) -> ChildEnd {
    let exe = std::env::current_exe().expect("current exe");
    let mut child = match Command::new(exe)
        .args([prop, "--tier", tier, "--worker", space, &start.to_string(), &end.to_string()])
        .stdout(Stdio::piped())
        .stderr(Stdio::null())
        .spawn()
    {
        Ok(c) => c,
        Err(e) => {
            // not a verdict about the code under test
            eprintln!("MACHINERY: cannot start a worker process: {e}");
            std::process::exit(2);
        }
    };
    let mut stdout = child.stdout.take().expect("stdout");
    // read stdout on a helper thread so that a chatty child cannot block
    let reader = std::thread::spawn(move || {
        let mut s = String::new();
        let _ = stdout.read_to_string(&mut s);
        s
    });
    let t0 = Instant::now();
    loop {
        match child.try_wait() {
            Ok(Some(status)) => {
                let out = reader.join().unwrap_or_default();
                if status.success() {
                    if let Some(line) = out.lines().rev().find(|l| l.starts_with('{')) {
                        if let Ok(v) = serde_json::from_str::<Value>(line) {
                            return ChildEnd::Ok(v);
                        }
                    }
                    return ChildEnd::Died("no result line".into());
                }
                return ChildEnd::Died(format!("{status}"));
            }
            Ok(None) => {
                if t0.elapsed() > timeout {
                    let _ = child.kill();
                    let _ = child.wait();
                    return ChildEnd::Timeout;
                }
                std::thread::sleep(Duration::from_millis(20));
            }
            Err(e) => return ChildEnd::Died(format!("wait: {e}")),
        }
    }
}

#[allow(clippy::too_many_arguments)]
fn run_range(
    prop: &str,
    space: &str,
    start: u64,
    end: u64,
    tier: &str,
    timeout: Duration,
    case_json: &(dyn Fn(u64) -> Value + Sync),
    acc: &std::sync::Mutex<ShardResult>,
) {
    run_range_inner(prop, space, start, end, tier, timeout, case_json, acc, false)
}

#[allow(clippy::too_many_arguments)]
fn run_range_inner(
    prop: &str,
    space: &str,
    start: u64,
    end: u64,
    tier: &str,
    timeout: Duration,
    case_json: &(dyn Fn(u64) -> Value + Sync),
    acc: &std::sync::Mutex<ShardResult>,
    retry: bool,
) {
    match run_child(prop, space, start, end, tier, timeout) {
        ChildEnd::Ok(v) => {
            let mut a = acc.lock().unwrap();
            a.evals += v["evals"].as_u64().unwrap_or(0);
            a.nontrivial += v["nontrivial"].as_u64().unwrap_or(0);
            if let Some(c) = v["classes"].as_object() {
                for (k, n) in c {
                    *a.classes.entry(k.clone()).or_default() += n.as_u64().unwrap_or(0);
                }
            }
            if let Some(vs) = v["viols"].as_array() {
                for x in vs {
                    a.viols.push((
                        x["sig"].as_str().unwrap_or("").to_string(),
                        x["what"].as_str().unwrap_or("").to_string(),
                        x["case"].clone(),
                    ));
                }
            }
            if let Some(ss) = v["samples"].as_array() {
                for s in ss {
                    if a.samples.len() < 3 {
                        a.samples.push(s.clone());
                    }
                }
            }
        }
        other => {
            let how = match &other {
                ChildEnd::Timeout => "timeout".to_string(),
                ChildEnd::Died(s) => format!("process-died({s})"),
                ChildEnd::Ok(_) => unreachable!(),
            };
            if end - start <= 1 {
                // reproduce before believing: the same single case once more, alone
                if !retry {
                    return run_range_inner(prop, space, start, end, tier, timeout, case_json, acc, true);
                }
                let mut a = acc.lock().unwrap();
                a.evals += 1;
                let kind = if matches!(other, ChildEnd::Timeout) { "does-not-terminate" } else { "kills-the-process" };
                a.viols.push((
                    format!("{prop}:{space}:{kind}"),
                    format!("case {start} of space {space}: {how} (abort, stack overflow or allocation failure; or no result within {} s)", timeout.as_secs()),
                    case_json(start),
                ));
            } else {
                let mid = start + (end - start) / 2;
                // a shard that merely was too slow as a whole gets proportionally less time per half,
                // but never less than the single-case budget
                run_range(prop, space, start, mid, tier, timeout, case_json, acc);
                run_range(prop, space, mid, end, tier, timeout, case_json, acc);
            }
        }
    }
}

/// Parent side.
#[allow(clippy::too_many_arguments)]
pub fn run_sharded(
    ctx: &Ctx,
    space: &str,
    exhaustive: bool,
    rule: &str,
    total: u64,
    shard: u64,
    timeout: Duration,
    case_json: &(dyn Fn(u64) -> Value + Sync),
) {
    let t0 = Instant::now();
    let acc = std::sync::Mutex::new(ShardResult::default());
    let shards: Vec<(u64, u64)> = (0..total.div_ceil(shard)).map(|i| (i * shard, ((i + 1) * shard).min(total))).collect();
    let tier = ctx.tier.name();
    shards.par_iter().for_each(|(s, e)| {
        run_range(&ctx.id, space, *s, *e, tier, timeout, case_json, &acc);
    });
    let r = acc.into_inner().unwrap();
    for (sig, what, case) in &r.viols {
        ctx.violation(space, Viol { sig: sig.clone(), what: what.clone() }, case.clone());
    }
    ctx.add_counts(
        space,
        exhaustive,
        rule,
        r.evals,
        r.nontrivial,
        r.nontrivial.max(1),
        r.evals,
        r.classes,
        r.samples,
        t0.elapsed().as_secs_f64(),
    );
}
