//! Core plumbing shared by all property checks: tiers, outcomes, the parallel case runner with
//! panic capture, violation bookkeeping against `known_findings.json`, replay files and evidence.

pub mod io;
pub mod resmon;
pub mod worker;

use std::{
    cell::RefCell,
    collections::{BTreeMap, HashSet},
    hash::{Hash, Hasher},
    panic::{catch_unwind, AssertUnwindSafe},
    sync::Mutex,
    time::Instant,
};

use rayon::prelude::*;
use serde::{de::DeserializeOwned, Serialize};
use serde_json::{json, Value};

#[derive(Clone, Copy, PartialEq, Eq, Debug)]
pub enum Tier {
    Quick,
    Thorough,
}

impl Tier {
    pub fn name(self) -> &'static str {
        match self {
            Tier::Quick => "quick",
            Tier::Thorough => "thorough",
        }
    }
    pub fn pick<T>(self, quick: T, thorough: T) -> T {
        match self {
            Tier::Quick => quick,
            Tier::Thorough => thorough,
        }
    }
}

#[derive(Clone, Debug, PartialEq, Eq)]
pub struct Viol {
    /// structural signature: decides known-finding matching; must not contain run-specific noise
    pub sig: String,
    pub what: String,
}

/// Result of running one case against the implementation.
#[derive(Clone, Debug, Default, PartialEq, Eq)]
pub struct Outcome {
    /// outcome class (e.g. "ok", "rejected@parse"); the histogram of classes is reported
    pub class: String,
    /// whether the case exercised the behaviour the property is about (by the rule of the space)
    pub nontrivial: bool,
    pub viol: Vec<Viol>,
    /// implementation steps executed (environment calls, API operations)
    pub transitions: u64,
    /// hashes of canonical states visited (implementation states; optional)
    pub states: Vec<u64>,
    /// executions of the implementation inside this case (0 means 1)
    pub evals: u64,
}

impl Outcome {
    pub fn ok(class: impl Into<String>) -> Self {
        Outcome {
            class: class.into(),
            nontrivial: true,
            transitions: 1,
            ..Default::default()
        }
    }
    pub fn trivial(class: impl Into<String>) -> Self {
        Outcome {
            class: class.into(),
            nontrivial: false,
            transitions: 1,
            ..Default::default()
        }
    }
    pub fn bad(sig: impl Into<String>, what: impl Into<String>) -> Self {
        let sig = sig.into();
        Outcome {
            class: format!("VIOLATION:{sig}"),
            nontrivial: true,
            viol: vec![Viol {
                sig,
                what: what.into(),
            }],
            transitions: 1,
            states: vec![],
            evals: 0,
        }
    }
    pub fn with_transitions(mut self, n: u64) -> Self {
        self.transitions = n;
        self
    }
    pub fn with_evals(mut self, n: u64) -> Self {
        self.evals = n;
        self
    }
    pub fn push(&mut self, sig: impl Into<String>, what: impl Into<String>) {
        let sig = sig.into();
        if self.viol.is_empty() {
            self.class = format!("VIOLATION:{sig}");
        }
        self.viol.push(Viol {
            sig,
            what: what.into(),
        });
    }
}

pub fn h64<T: Hash + ?Sized>(t: &T) -> u64 {
    // DefaultHasher::new() uses fixed keys: deterministic across runs.
    #[allow(deprecated)]
    let mut h = std::hash::SipHasher::new();
    t.hash(&mut h);
    h.finish()
}

thread_local! {
    static LAST_PANIC: RefCell<Option<(String, String)>> = const { RefCell::new(None) };
}

pub fn install_panic_hook() {
    std::panic::set_hook(Box::new(|info| {
        let loc = info
            .location()
            .map(|l| {
                let f = l.file();
                // strip registry prefix noise, keep repo-relative paths
                let f = f.strip_prefix("/repo/").unwrap_or(f);
                format!("{}:{}", f, l.line())
            })
            .unwrap_or_else(|| "?".into());
        let msg = if let Some(s) = info.payload().downcast_ref::<&str>() {
            s.to_string()
        } else if let Some(s) = info.payload().downcast_ref::<String>() {
            s.clone()
        } else {
            "<non-string panic>".into()
        };
        if std::env::var_os("VERIF_PANIC_TRACE").is_some() {
            eprintln!("[panic] {loc}: {msg}");
        }
        LAST_PANIC.with(|p| *p.borrow_mut() = Some((loc, msg)));
    }));
}

/// Runs `f`, converting a panic into `Err((location, message))`.
pub fn guarded<T>(f: impl FnOnce() -> T) -> Result<T, (String, String)> {
    match catch_unwind(AssertUnwindSafe(f)) {
        Ok(v) => Ok(v),
        Err(_) => Err(LAST_PANIC
            .with(|p| p.borrow_mut().take())
            .unwrap_or_else(|| ("?".into(), "?".into()))),
    }
}

/// Strip line numbers: `src/x.rs:12` -> `src/x.rs` (signatures must survive unrelated edits).
pub fn loc_file(loc: &str) -> &str {
    loc.rsplit_once(':').map(|x| x.0).unwrap_or(loc)
}

fn run_guarded<C>(f: &(impl Fn(&C) -> Outcome + Sync), c: &C) -> Outcome {
    match guarded(|| f(c)) {
        Ok(o) => o,
        Err((loc, msg)) => {
            let short: String = msg.chars().take(160).collect();
            Outcome::bad(
                format!("panic@{}", loc_file(&loc)),
                format!("panic at {loc}: {short}"),
            )
        }
    }
}

#[derive(Default)]
struct Stats {
    evaluations: u64,
    transitions: u64,
    nontrivial: HashSet<u64>,
    states: HashSet<u64>,
    classes: BTreeMap<String, u64>,
    samples: Vec<Value>,
    viols: Vec<(Viol, Value)>,
    viol_counts: BTreeMap<String, u64>,
}

const MAX_VIOL_PER_SIG: u64 = 5;
const MAX_SAMPLES: usize = 3;

impl Stats {
    fn add<C: Serialize + Hash>(&mut self, c: &C, o: Outcome) {
        self.evaluations += o.evals.max(1);
        self.transitions += o.transitions.max(o.evals).max(1);
        let key = h64(c);
        if o.nontrivial {
            self.nontrivial.insert(key);
        }
        if o.states.is_empty() {
            self.states.insert(key);
        } else {
            self.states.extend(o.states.iter().copied());
        }
        *self.classes.entry(o.class.clone()).or_default() += 1;
        if self.samples.len() < MAX_SAMPLES && o.nontrivial {
            self.samples
                .push(json!({"case": serde_json::to_value(c).unwrap_or(Value::Null), "outcome": o.class}));
        }
        for v in o.viol {
            let n = self.viol_counts.entry(v.sig.clone()).or_default();
            *n += 1;
            if *n <= MAX_VIOL_PER_SIG {
                self.viols
                    .push((v, serde_json::to_value(c).unwrap_or(Value::Null)));
            }
        }
    }
    fn merge(mut self, mut o: Stats) -> Stats {
        if self.nontrivial.len() < o.nontrivial.len() {
            std::mem::swap(&mut self.nontrivial, &mut o.nontrivial);
        }
        if self.states.len() < o.states.len() {
            std::mem::swap(&mut self.states, &mut o.states);
        }
        self.evaluations += o.evaluations;
        self.transitions += o.transitions;
        self.nontrivial.extend(o.nontrivial);
        self.states.extend(o.states);
        for (k, v) in o.classes {
            *self.classes.entry(k).or_default() += v;
        }
        for s in o.samples {
            if self.samples.len() < MAX_SAMPLES {
                self.samples.push(s);
            }
        }
        for (k, v) in o.viol_counts {
            *self.viol_counts.entry(k).or_default() += v;
        }
        for (v, c) in o.viols {
            let have = self.viols.iter().filter(|x| x.0.sig == v.sig).count() as u64;
            if have < MAX_VIOL_PER_SIG {
                self.viols.push((v, c));
            }
        }
        self
    }
}

#[derive(Clone, serde::Deserialize)]
pub struct Finding {
    pub property: String,
    /// exact signature, or a prefix ending in `*`
    pub signature: String,
    pub status: String, // "known" | "fixed"
    pub what: String,
    #[serde(default)]
    pub commit: Option<String>,
}

pub struct Ctx {
    pub id: String,
    pub tier: Tier,
    pub seed: u64,
    start: Instant,
    inner: Mutex<CtxInner>,
}

#[derive(Default)]
struct CtxInner {
    evaluations: u64,
    transitions: u64,
    nontrivial: u64,
    states: u64,
    classes: BTreeMap<String, u64>,
    spaces: Vec<Value>,
    samples: Vec<Value>,
    viols: Vec<(String, Viol, Value)>, // (space, viol, case)
    viol_counts: BTreeMap<String, u64>,
    assumptions: Vec<String>,
    notes: Vec<String>,
    all_exhaustive: bool,
    caps_hit: Vec<String>,
    extra: BTreeMap<String, Value>,
}

pub type ReplayFn<'a> = &'a (dyn Fn(&str, &Value) -> Option<Outcome> + Sync);

impl Ctx {
    pub fn new(id: &str, tier: Tier, seed: u64) -> Self {
        Ctx {
            id: id.to_string(),
            tier,
            seed,
            start: Instant::now(),
            inner: Mutex::new(CtxInner {
                all_exhaustive: true,
                ..Default::default()
            }),
        }
    }

    pub fn assume(&self, s: impl Into<String>) {
        self.inner.lock().unwrap().assumptions.push(s.into());
    }
    pub fn note(&self, s: impl Into<String>) {
        self.inner.lock().unwrap().notes.push(s.into());
    }
    pub fn cap_hit(&self, s: impl Into<String>) {
        let mut i = self.inner.lock().unwrap();
        i.caps_hit.push(s.into());
        i.all_exhaustive = false;
    }
    pub fn extra(&self, k: &str, v: Value) {
        self.inner.lock().unwrap().extra.insert(k.to_string(), v);
    }

    /// Enumerate one sub-space completely (or, with `exhaustive=false`, a labelled sample of it)
    /// in parallel: every case is run against the real implementation by `f`.
    pub fn run_space<C, I, F>(&self, name: &str, exhaustive: bool, rule: &str, cases: I, f: F)
    where
        C: Serialize + Hash + Send + Sync,
        I: ParallelIterator<Item = C>,
        F: Fn(&C) -> Outcome + Sync,
    {
        let t0 = Instant::now();
        let stats = cases
            .fold(Stats::default, |mut st, c| {
                let o = run_guarded(&f, &c);
                st.add(&c, o);
                st
            })
            .reduce(Stats::default, Stats::merge);
        self.absorb(name, exhaustive, rule, stats, t0);
    }

    /// Sequential variant for spaces whose cases are expensive and internally parallel.
    pub fn run_space_seq<C, I, F>(&self, name: &str, exhaustive: bool, rule: &str, cases: I, f: F)
    where
        C: Serialize + Hash,
        I: Iterator<Item = C>,
        F: Fn(&C) -> Outcome + Sync,
    {
        let t0 = Instant::now();
        let mut st = Stats::default();
        for c in cases {
            let o = run_guarded(&f, &c);
            st.add(&c, o);
        }
        self.absorb(name, exhaustive, rule, st, t0);
    }

    fn absorb(&self, name: &str, exhaustive: bool, rule: &str, st: Stats, t0: Instant) {
        let mut i = self.inner.lock().unwrap();
        i.evaluations += st.evaluations;
        i.transitions += st.transitions;
        i.nontrivial += st.nontrivial.len() as u64;
        i.states += st.states.len() as u64;
        for (k, v) in &st.classes {
            *i.classes.entry(format!("{name}/{k}")).or_default() += v;
        }
        if !exhaustive {
            i.all_exhaustive = false;
        }
        let viol_total: u64 = st.viol_counts.values().sum();
        i.spaces.push(json!({
            "space": name, "exhaustive": exhaustive, "rule": rule,
            "cases": st.evaluations, "distinct_nontrivial": st.nontrivial.len(),
            "states": st.states.len(), "transitions": st.transitions,
            "outcome_classes": st.classes, "violating_cases": viol_total,
            "wall_s": t0.elapsed().as_secs_f64(),
        }));
        for s in st.samples {
            if i.samples.len() < 12 {
                i.samples.push(json!({"space": name, "sample": s}));
            }
        }
        for (k, v) in st.viol_counts {
            *i.viol_counts.entry(k).or_default() += v;
        }
        for (v, c) in st.viols {
            i.viols.push((name.to_string(), v, c));
        }
        eprintln!(
            "[{}] space {name}: {} cases, {} nontrivial, {} violating, {:.1}s",
            self.id,
            st.evaluations,
            st.nontrivial.len(),
            viol_total,
            t0.elapsed().as_secs_f64()
        );
    }

    /// Report one violation found outside `run_space` (e.g. in a BFS).
    pub fn violation(&self, space: &str, v: Viol, case: Value) {
        let mut i = self.inner.lock().unwrap();
        *i.viol_counts.entry(v.sig.clone()).or_default() += 1;
        i.viols.push((space.to_string(), v, case));
    }

    /// Add counts measured by a custom engine (BFS, DFS with pruning...).
    pub fn add_counts(
        &self,
        name: &str,
        exhaustive: bool,
        rule: &str,
        evaluations: u64,
        nontrivial: u64,
        states: u64,
        transitions: u64,
        classes: BTreeMap<String, u64>,
        samples: Vec<Value>,
        wall_s: f64,
    ) {
        let mut i = self.inner.lock().unwrap();
        i.evaluations += evaluations;
        i.transitions += transitions;
        i.nontrivial += nontrivial;
        i.states += states;
        for (k, v) in &classes {
            *i.classes.entry(format!("{name}/{k}")).or_default() += v;
        }
        if !exhaustive {
            i.all_exhaustive = false;
        }
        i.spaces.push(json!({
            "space": name, "exhaustive": exhaustive, "rule": rule,
            "cases": evaluations, "distinct_nontrivial": nontrivial,
            "states": states, "transitions": transitions,
            "outcome_classes": classes, "wall_s": wall_s,
        }));
        for s in samples.into_iter().take(3) {
            if i.samples.len() < 12 {
                i.samples.push(json!({"space": name, "sample": s}));
            }
        }
        eprintln!(
            "[{}] space {name}: {evaluations} cases, {states} states, {transitions} transitions, {wall_s:.1}s",
            self.id
        );
    }

    /// Writes evidence and replay files, prints KNOWN-FINDING / VIOLATION lines, returns exit code.
    pub fn finish(&self, replay: ReplayFn) -> i32 {
        let i = self.inner.lock().unwrap();
        let findings = load_findings();
        let mut exit = 0;
        let mut known_printed: HashSet<String> = HashSet::new();
        let mut new_sigs: BTreeMap<String, (String, Viol, Value)> = BTreeMap::new();
        let mut known_hits: BTreeMap<String, u64> = BTreeMap::new();
        for (space, v, case) in &i.viols {
            if let Some(f) = findings
                .iter()
                .find(|f| f.property == self.id && f.status == "known" && sig_matches(&f.signature, &v.sig))
            {
                *known_hits.entry(f.signature.clone()).or_default() += 1;
                if known_printed.insert(f.signature.clone()) {
                    println!(
                        "KNOWN-FINDING: property={} {} [{}]",
                        self.id, f.what, f.signature
                    );
                }
            } else {
                new_sigs
                    .entry(v.sig.clone())
                    .or_insert_with(|| (space.clone(), v.clone(), case.clone()));
            }
        }
        let mut violations = 0;
        let dir = format!("/verif/replays/{}", self.id);
        if !new_sigs.is_empty() {
            let _ = std::fs::create_dir_all(&dir);
        }
        for (n, (sig, (space, v, case))) in new_sigs.iter().enumerate() {
            // determinism gate: the same case must give the same verdict twice.  A case that
            // kills or hangs its worker process has been re-run alone in a process of its own by
            // the bisection (that is its reproduction); replaying it here would take this
            // process down with it.
            let in_worker_only = sig.ends_with(":kills-the-process") || sig.ends_with(":does-not-terminate");
            let r1 = if in_worker_only { Ok(None) } else { guarded(|| replay(space, case)) };
            let r2 = if in_worker_only { Ok(None) } else { guarded(|| replay(space, case)) };
            let norm = |r: &Result<Option<Outcome>, (String, String)>| match r {
                Ok(Some(o)) => Some(o.viol.iter().map(|v| v.sig.clone()).collect::<Vec<_>>()),
                Ok(None) => None,
                Err((loc, _)) => Some(vec![format!("panic@{}", loc_file(loc))]),
            };
            let (n1, n2) = (norm(&r1), norm(&r2));
            if n1 != n2 {
                eprintln!(
                    "MACHINERY: nondeterministic case in {} space {space} sig {sig}: {n1:?} vs {n2:?}",
                    self.id
                );
                exit = 2;
                continue;
            }
            if let Some(sigs) = &n1 {
                if !sigs.iter().any(|s| s == sig) {
                    eprintln!(
                        "MACHINERY: violation {sig} in {} space {space} did not reproduce on replay ({sigs:?})",
                        self.id
                    );
                    exit = 2;
                    continue;
                }
            }
            let path = format!("{dir}/{n}.json");
            let body = json!({
                "property": self.id, "space": space, "signature": sig, "what": v.what,
                "count": i.viol_counts.get(sig).copied().unwrap_or(1), "case": case,
            });
            let _ = std::fs::write(&path, serde_json::to_string_pretty(&body).unwrap());
            println!("VIOLATION property={} replay={}", self.id, path);
            println!("  signature: {sig}\n  what: {}", v.what);
            violations += 1;
            if exit == 0 {
                exit = 1;
            }
        }

        let mut samples = i.samples.clone();
        if samples.is_empty() {
            samples.push(json!("no case was run"));
        }
        let rule: Vec<String> = i
            .spaces
            .iter()
            .map(|s| {
                format!(
                    "{}: {}",
                    s["space"].as_str().unwrap_or(""),
                    s["rule"].as_str().unwrap_or("")
                )
            })
            .collect();
        let mut coverage = json!({
            "evaluations": i.evaluations,
            "distinct_nontrivial": i.nontrivial,
            "rule": rule.join(" || "),
            "samples": samples,
            "states": i.states,
            "transitions": i.transitions,
            "traces_validated_against_impl": i.evaluations,
            "exhaustive": i.all_exhaustive,
            "subspaces": i.spaces,
            "distinct_outcome_classes": i.classes.len(),
            "outcome_classes": i.classes,
            "caps_hit": i.caps_hit,
            "known_finding_hits": known_hits,
            "notes": i.notes,
        });
        for (k, v) in &i.extra {
            coverage[k] = v.clone();
        }
        let ev = json!({
            "property_id": self.id,
            "tier": self.tier.name(),
            "seed": self.seed,
            "level": "model_checking",
            "coverage": coverage,
            "assumptions": i.assumptions,
            "wall_s": self.start.elapsed().as_secs_f64(),
            "violations": violations,
        });
        let _ = std::fs::create_dir_all("/verif/evidence");
        if let Err(e) = std::fs::write(
            format!("/verif/evidence/{}.json", self.id),
            serde_json::to_string_pretty(&ev).unwrap(),
        ) {
            eprintln!("MACHINERY: cannot write evidence: {e}");
            return 2;
        }
        if i.evaluations == 0 {
            eprintln!("MACHINERY: no case was evaluated");
            return 2;
        }
        eprintln!(
            "[{}] done: {} evaluations, {} states, {} transitions, {} new violation signature(s), {:.1}s",
            self.id,
            i.evaluations,
            i.states,
            i.transitions,
            violations,
            self.start.elapsed().as_secs_f64()
        );
        exit
    }
}

pub fn sig_matches(pat: &str, sig: &str) -> bool {
    if let Some(p) = pat.strip_suffix('*') {
        sig.starts_with(p)
    } else {
        pat == sig
    }
}

pub fn load_findings() -> Vec<Finding> {
    let path = "/verif/known_findings.json";
    match std::fs::read_to_string(path) {
        Ok(s) => match serde_json::from_str::<Value>(&s) {
            Ok(v) => v["findings"]
                .as_array()
                .map(|a| {
                    a.iter()
                        .filter_map(|x| serde_json::from_value(x.clone()).ok())
                        .collect()
                })
                .unwrap_or_default(),
            Err(e) => {
                eprintln!("MACHINERY: known_findings.json unreadable: {e}");
                std::process::exit(2);
            }
        },
        Err(_) => vec![],
    }
}

/// Helper for the `replay` dispatchers of the property modules.
pub fn replay_as<C: DeserializeOwned>(case: &Value, f: impl Fn(&C) -> Outcome) -> Option<Outcome> {
    let c: C = serde_json::from_value(case.clone()).ok()?;
    Some(f(&c))
}

/// Deterministic rng for the harness.
pub fn rng(seed: u64) -> rand_chacha::ChaCha20Rng {
    use rand::SeedableRng;
    rand_chacha::ChaCha20Rng::seed_from_u64(seed)
}

pub fn hex(b: &[u8]) -> String {
    hex::encode(b)
}
