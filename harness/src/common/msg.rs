//! Driver for `MessageBuilder`: one configuration value -> message bytes; and the matching reader
//! pipeline (parse -> decrypt -> decompress -> read -> verify).

use std::io::{Read, Write};

use pgp::{
    composed::{
        ArmorOptions, Encryption, Message, MessageBuilder, PlainSessionKey, SubpacketConfig,
        VerificationResult,
    },
    crypto::{
        aead::{AeadAlgorithm, ChunkSize},
        hash::HashAlgorithm,
        sym::SymmetricKeyAlgorithm,
    },
    packet::{DataMode, Subpacket, SubpacketData},
    types::{CompressionAlgorithm, KeyDetails, Password, StringToKey, Timestamp, VerifyingKey},
};
use serde::{Deserialize, Serialize};

use super::{cert, KeyKind, NOW};

#[derive(Clone, Copy, Debug, Hash, PartialEq, Eq, Serialize, Deserialize)]
pub enum Enc {
    None,
    /// SEIPDv1 with the cipher id
    V1(u8),
    /// SEIPDv2: cipher id, AEAD id, chunk size octet
    V2(u8, u8, u8),
}

#[derive(Clone, Copy, Debug, Hash, PartialEq, Eq, Serialize, Deserialize)]
pub enum EskSpec {
    /// password with S2K kind: 0 salted-iterated(count 0), 1 salted, 2 argon2(1,1,2^4 KiB... small), 3 simple
    Password(u8),
    /// public key of the cert (encryption subkey), addressed or anonymous
    Key(KeyKind, bool),
}

#[derive(Clone, Debug, Hash, PartialEq, Eq, Serialize, Deserialize)]
pub struct MsgCfg {
    /// 0 from_bytes, 1 from_reader, 2 from_file; +10: the builder options are set before the
    /// encryption transition (`seipd_v1` / `seipd_v2`) instead of after it
    pub source: u8,
    /// 0 none, 1 zip, 2 zlib, 3 bzip2
    pub compression: u8,
    pub enc: Enc,
    pub esks: Vec<EskSpec>,
    /// signer keys with hash id (index into HASHES)
    pub signers: Vec<(KeyKind, u8)>,
    /// utf8 literal + text signatures
    pub text: bool,
    pub armor: bool,
    pub checksum: bool,
    /// partial chunk size as power of two exponent (9..=20); 0 = library default
    pub partial_exp: u8,
}

impl Default for MsgCfg {
    fn default() -> Self {
        MsgCfg {
            source: 0,
            compression: 0,
            enc: Enc::None,
            esks: vec![],
            signers: vec![],
            text: false,
            armor: false,
            checksum: true,
            partial_exp: 9,
        }
    }
}

pub const HASHES: [HashAlgorithm; 6] = [
    HashAlgorithm::Sha256,
    HashAlgorithm::Sha512,
    HashAlgorithm::Sha384,
    HashAlgorithm::Sha3_256,
    HashAlgorithm::Sha3_512,
    HashAlgorithm::Sha224,
];

pub const FILE_NAME: &str = "name.txt";
pub const PASSWORDS: [&str; 3] = ["pw-one", "pw-two", "pw-three"];

pub fn compression(c: u8) -> Option<CompressionAlgorithm> {
    match c {
        1 => Some(CompressionAlgorithm::ZIP),
        2 => Some(CompressionAlgorithm::ZLIB),
        3 => Some(CompressionAlgorithm::BZip2),
        _ => None,
    }
}

pub fn s2k(kind: u8, seed: u64) -> StringToKey {
    let mut rng = crate::engine::rng(seed);
    match kind {
        0 => StringToKey::new_iterated(&mut rng, HashAlgorithm::Sha256, 0),
        1 => {
            use rand::Rng;
            let mut salt = [0u8; 8];
            rng.fill(&mut salt[..]);
            StringToKey::Salted {
                hash_alg: HashAlgorithm::Sha256,
                salt,
            }
        }
        2 => StringToKey::new_argon2(&mut rng, 1, 1, 4),
        _ => StringToKey::Simple {
            hash_alg: HashAlgorithm::Sha256,
        },
    }
}

/// Deterministic payload: binary pattern, or CRLF text over a small alphabet.
pub fn payload(n: usize, text: bool) -> Vec<u8> {
    if text {
        let words: [&[u8]; 5] = [b"ab", b"c d", b"\r\n", "\u{e9}".as_bytes(), b"-"];
        let mut out = Vec::with_capacity(n + 4);
        let mut i = 0usize;
        while out.len() < n {
            let w = words[(i * 7 + i / 3) % words.len()];
            if out.len() + w.len() > n {
                break;
            }
            out.extend_from_slice(w);
            i += 1;
        }
        while out.len() < n {
            out.push(b'z');
        }
        out
    } else {
        (0..n)
            .map(|i| ((i as u32).wrapping_mul(2654435761) >> 13) as u8)
            .collect()
    }
}

fn signer_subpackets(key: &dyn KeyDetails) -> SubpacketConfig {
    // explicit subpackets (pinned time) keep the output independent of the wall clock
    let hashed = vec![
        Subpacket::regular(SubpacketData::IssuerFingerprint(key.fingerprint())).expect("sp"),
        Subpacket::regular(SubpacketData::SignatureCreationTime(Timestamp::from_secs(NOW)))
            .expect("sp"),
    ];
    SubpacketConfig::UserDefined {
        hashed,
        unhashed: vec![],
    }
}

/// Where the builder writes: a writer, or a path handed to `to_file` / `to_armored_file`.
pub enum Sink<W: Write> {
    Writer(W),
    File(std::path::PathBuf),
}

fn finish<R: Read, E: Encryption, W: Write>(
    mut b: MessageBuilder<'_, R, E>,
    cfg: &MsgCfg,
    out: Sink<W>,
    seed: u64,
) -> pgp::errors::Result<()> {
    let _ = &mut b;
    let rng = crate::engine::rng(seed ^ 0xF1);
    let opts = ArmorOptions {
        headers: None,
        include_checksum: cfg.checksum,
    };
    match (out, cfg.armor) {
        (Sink::Writer(mut out), true) => b.to_armored_writer(rng, opts, &mut out),
        (Sink::Writer(out), false) => b.to_writer(rng, out),
        (Sink::File(path), true) => b.to_armored_file(rng, path, opts),
        (Sink::File(path), false) => b.to_file(rng, path),
    }
}

/// Build the message described by `cfg` from `source` into `out`.
pub fn build<R: Read, W: Write>(
    cfg: &MsgCfg,
    source: R,
    bytes_for_mode0: Option<Vec<u8>>,
    out: W,
    seed: u64,
) -> pgp::errors::Result<()> {
    build_sink(cfg, source, bytes_for_mode0, Sink::Writer(out), seed)
}

/// The message written through `to_file` / `to_armored_file` onto `path`.
pub fn build_file(cfg: &MsgCfg, payload: &[u8], path: &std::path::Path, seed: u64) -> pgp::errors::Result<()> {
    build_sink(cfg, payload, Some(payload.to_vec()), Sink::<Vec<u8>>::File(path.to_path_buf()), seed)
}

pub fn build_sink<R: Read, W: Write>(
    cfg: &MsgCfg,
    source: R,
    bytes_for_mode0: Option<Vec<u8>>,
    out: Sink<W>,
    seed: u64,
) -> pgp::errors::Result<()> {
    let certs: Vec<_> = cfg.signers.iter().map(|(k, _)| cert(*k, 1)).collect();
    let enc_certs: Vec<_> = cfg
        .esks
        .iter()
        .map(|e| match e {
            EskSpec::Key(k, _) => Some(cert(*k, 3)),
            _ => None,
        })
        .collect();
    macro_rules! common {
        ($b:expr) => {{
            if let Some(c) = compression(cfg.compression) {
                $b.compression(c);
            }
            if cfg.partial_exp != 0 {
                $b.partial_chunk_size(1u32 << cfg.partial_exp)?;
            }
            if cfg.text {
                $b.data_mode(DataMode::Utf8)?;
                $b.sign_text();
            }
            for (i, (_, h)) in cfg.signers.iter().enumerate() {
                let key = &certs[i].primary_key;
                $b.sign_with_subpackets(
                    key,
                    Password::empty(),
                    HASHES[*h as usize],
                    signer_subpackets(key),
                );
            }
        }};
    }
    macro_rules! esks_v1 {
        ($b:expr) => {{
            for (i, e) in cfg.esks.iter().enumerate() {
                match e {
                    EskSpec::Password(k) => {
                        $b.encrypt_with_password(
                            s2k(*k, seed + i as u64),
                            &Password::from(PASSWORDS[i % 3]),
                        )?;
                    }
                    EskSpec::Key(_, anon) => {
                        let c = enc_certs[i].as_ref().expect("enc cert");
                        let pk = c.secret_subkeys[0].key.public_key();
                        let rng = crate::engine::rng(seed + 100 + i as u64);
                        if *anon {
                            $b.encrypt_to_key_anonymous(rng, pk)?;
                        } else {
                            $b.encrypt_to_key(rng, pk)?;
                        }
                    }
                }
            }
        }};
    }
    macro_rules! esks_v2 {
        ($b:expr) => {{
            for (i, e) in cfg.esks.iter().enumerate() {
                match e {
                    EskSpec::Password(k) => {
                        $b.encrypt_with_password(
                            crate::engine::rng(seed + 200 + i as u64),
                            s2k(*k, seed + i as u64),
                            &Password::from(PASSWORDS[i % 3]),
                        )?;
                    }
                    EskSpec::Key(_, anon) => {
                        let c = enc_certs[i].as_ref().expect("enc cert");
                        let pk = c.secret_subkeys[0].key.public_key();
                        let rng = crate::engine::rng(seed + 100 + i as u64);
                        if *anon {
                            $b.encrypt_to_key_anonymous(rng, pk)?;
                        } else {
                            $b.encrypt_to_key(rng, pk)?;
                        }
                    }
                }
            }
        }};
    }
    macro_rules! with_builder {
        ($b:expr) => {{
            #[allow(unused_mut)]
            let mut b0 = $b;
            // `source` 10..12: the options (compression, partial size, text mode, signers) are
            // set on the plain builder BEFORE it is turned into an encrypting one, and not again
            let early = cfg.source >= 10;
            if early {
                common!(b0);
            }
            match cfg.enc {
                Enc::None => {
                    let mut b = b0;
                    if !early {
                        common!(b);
                    }
                    finish(b, cfg, out, seed)
                }
                Enc::V1(sym) => {
                    let mut b = b0.seipd_v1(
                        crate::engine::rng(seed ^ 0xA1),
                        SymmetricKeyAlgorithm::from(sym),
                    );
                    if !early {
                        common!(b);
                    }
                    esks_v1!(b);
                    finish(b, cfg, out, seed)
                }
                Enc::V2(sym, aead, chunk) => {
                    let cs = ChunkSize::try_from(chunk)
                        .map_err(|_| pgp::errors::Error::from(std::io::Error::other("bad chunk size")))?;
                    let mut b = b0.seipd_v2(
                        crate::engine::rng(seed ^ 0xA2),
                        SymmetricKeyAlgorithm::from(sym),
                        AeadAlgorithm::from(aead),
                        cs,
                    );
                    if !early {
                        common!(b);
                    }
                    esks_v2!(b);
                    finish(b, cfg, out, seed)
                }
            }
        }};
    }
    match cfg.source % 10 {
        0 => {
            let bytes = bytes_for_mode0.expect("bytes for from_bytes");
            with_builder!(MessageBuilder::from_bytes(FILE_NAME, bytes))
        }
        2 => {
            let bytes = bytes_for_mode0.expect("bytes for from_file");
            let dir = std::env::temp_dir().join(format!(
                "rpgp-mc-{}-{:?}",
                std::process::id(),
                std::thread::current().id()
            ));
            std::fs::create_dir_all(&dir)?;
            let path = dir.join(FILE_NAME);
            std::fs::write(&path, &bytes)?;
            let r = with_builder!(MessageBuilder::from_file(&path));
            let _ = std::fs::remove_file(&path);
            let _ = std::fs::remove_dir(&dir);
            r
        }
        _ => with_builder!(MessageBuilder::from_reader(FILE_NAME, source)),
    }
}

pub fn build_vec(cfg: &MsgCfg, payload: &[u8], seed: u64) -> pgp::errors::Result<Vec<u8>> {
    let mut out = Vec::new();
    build(cfg, payload, Some(payload.to_vec()), &mut out, seed)?;
    Ok(out)
}

/// The session key the builder derives for `cfg` and `seed` (same rng stream as `build`).
pub fn session_key(cfg: &MsgCfg, seed: u64) -> Option<PlainSessionKey> {
    match cfg.enc {
        Enc::None => None,
        Enc::V1(sym) => {
            let alg = SymmetricKeyAlgorithm::from(sym);
            let key = alg.new_session_key(crate::engine::rng(seed ^ 0xA1));
            Some(PlainSessionKey::V3_4 { sym_alg: alg, key })
        }
        Enc::V2(sym, _, _) => {
            let alg = SymmetricKeyAlgorithm::from(sym);
            let key = alg.new_session_key(crate::engine::rng(seed ^ 0xA2));
            Some(PlainSessionKey::V6 { key })
        }
    }
}

#[derive(Debug, Clone, PartialEq, Eq)]
pub struct ReadBack {
    pub data: Vec<u8>,
    pub file_name: Vec<u8>,
    pub is_binary_mode: bool,
    pub created: u32,
    pub sig_valid: Vec<bool>,
    /// signature type octet of every verifying signature
    pub sig_types: Vec<u8>,
}

/// How the reading side pulls the payload.
#[derive(Clone, Copy, Debug, Hash, PartialEq, Eq, Serialize, Deserialize)]
pub enum Pull {
    ToEnd,
    Fixed(usize),
    BufRead,
    /// the convenience readers `as_data_vec` / (for valid UTF-8) `as_data_string`
    Convenience,
    /// `verify_read` for signed messages (drains, then verifies), `read_to_end` otherwise
    Drain,
}

pub fn pull(msg: &mut Message<'_>, how: Pull) -> std::io::Result<Vec<u8>> {
    use std::io::BufRead;
    let mut out = Vec::new();
    match how {
        Pull::ToEnd => {
            msg.read_to_end(&mut out)?;
        }
        Pull::Fixed(n) => {
            let mut buf = vec![0u8; n];
            loop {
                let k = msg.read(&mut buf)?;
                if k == 0 {
                    break;
                }
                out.extend_from_slice(&buf[..k]);
            }
        }
        Pull::Convenience => {
            out = msg.as_data_vec()?;
        }
        Pull::Drain => {
            // what is discarded cannot be compared: only the verdicts are observed on this path
            let mut sink = [0u8; 4096];
            loop {
                let k = msg.read(&mut sink)?;
                if k == 0 {
                    break;
                }
                out.extend_from_slice(&sink[..k]);
            }
        }
        Pull::BufRead => loop {
            let b = msg.fill_buf()?;
            if b.is_empty() {
                break;
            }
            let k = b.len().div_ceil(2);
            out.extend_from_slice(&b[..k]);
            msg.consume(k);
        },
    }
    Ok(out)
}

/// Open (decrypt with the first ESK's secret or the session key, decompress) a message.
pub fn open<'a>(
    cfg: &MsgCfg,
    msg: Message<'a>,
    seed: u64,
    use_session_key: bool,
) -> pgp::errors::Result<Message<'a>> {
    open_mode(cfg, msg, seed, use_session_key, false)
}

/// `open` with the SEIPDv1 read mode chosen: `v1_streaming` = `Seipdv1ReadMode::Streaming`
/// (through `decrypt_the_ring`, the only entry point that takes options).
pub fn open_mode<'a>(
    cfg: &MsgCfg,
    msg: Message<'a>,
    seed: u64,
    use_session_key: bool,
    v1_streaming: bool,
) -> pgp::errors::Result<Message<'a>> {
    let mut msg = msg;
    if cfg.enc != Enc::None && v1_streaming {
        let opts = pgp::composed::DecryptionOptions::new().set_seipdv1_read_mode(pgp::types::Seipdv1ReadMode::Streaming);
        let pw = Password::from(PASSWORDS[0]);
        let c = match cfg.esks.first() {
            Some(EskSpec::Key(k, _)) => Some(cert(*k, 3)),
            _ => None,
        };
        let key_pw = Password::empty();
        let mut ring = pgp::composed::TheRing { decrypt_options: opts, ..Default::default() };
        if use_session_key || cfg.esks.is_empty() {
            ring.session_keys = vec![session_key(cfg, seed).expect("session key")];
        } else if let Some(c) = &c {
            ring.secret_keys = vec![&**c];
            ring.key_passwords = vec![&key_pw];
        } else {
            ring.message_password = vec![&pw];
        }
        msg = msg.decrypt_the_ring(ring, true)?.0;
    } else if cfg.enc != Enc::None {
        msg = if use_session_key || cfg.esks.is_empty() {
            msg.decrypt_with_session_key(session_key(cfg, seed).expect("session key"))?
        } else {
            match cfg.esks[0] {
                EskSpec::Password(_) => msg.decrypt_with_password(&Password::from(PASSWORDS[0]))?,
                EskSpec::Key(k, _) => {
                    let c = cert(k, 3);
                    msg.decrypt(&Password::empty(), &c)?
                }
            }
        };
    }
    if msg.is_compressed() {
        msg = msg.decompress()?;
    }
    // signed messages: decompression of the inner message
    if cfg.compression != 0 && msg.is_signed() {
        msg = msg.decompress()?;
    }
    Ok(msg)
}

/// Open a message with the secret of recipient number `idx` alone (its password, or its key).
pub fn open_recipient<'a>(cfg: &MsgCfg, msg: Message<'a>, idx: usize) -> pgp::errors::Result<Message<'a>> {
    let mut msg = match cfg.esks[idx] {
        EskSpec::Password(_) => msg.decrypt_with_password(&Password::from(PASSWORDS[idx % 3]))?,
        EskSpec::Key(k, _) => {
            let c = cert(k, 3);
            msg.decrypt(&Password::empty(), &c)?
        }
    };
    if msg.is_compressed() {
        msg = msg.decompress()?;
    }
    if cfg.compression != 0 && msg.is_signed() {
        msg = msg.decompress()?;
    }
    Ok(msg)
}

/// Full reader pipeline on `bytes`.
pub fn read_back(
    cfg: &MsgCfg,
    bytes: &[u8],
    seed: u64,
    how: Pull,
    use_session_key: bool,
) -> Result<ReadBack, String> {
    read_back_mode(cfg, bytes, seed, how, use_session_key, false)
}

pub fn read_back_mode(
    cfg: &MsgCfg,
    bytes: &[u8],
    seed: u64,
    how: Pull,
    use_session_key: bool,
    v1_streaming: bool,
) -> Result<ReadBack, String> {
    let msg = if cfg.armor {
        Message::from_armor(bytes).map_err(|e| format!("from_armor: {e}"))?.0
    } else {
        Message::from_bytes(bytes).map_err(|e| format!("from_bytes: {e}"))?
    };
    let mut msg = open_mode(cfg, msg, seed, use_session_key, v1_streaming).map_err(|e| format!("open: {e}"))?;
    let data = pull(&mut msg, how).map_err(|e| format!("read: {e}"))?;
    let hdr = msg
        .literal_data_header()
        .ok_or_else(|| "no literal header".to_string())?;
    let file_name = hdr.file_name().to_vec();
    let is_binary_mode = hdr.mode() == DataMode::Binary;
    let created = hdr.created().as_secs();
    let certs: Vec<_> = cfg.signers.iter().map(|(k, _)| cert(*k, 1)).collect();
    let pubs: Vec<_> = certs.iter().map(|c| c.primary_key.public_key()).collect();
    let keys: Vec<&dyn VerifyingKey> = pubs.iter().map(|p| p as &dyn VerifyingKey).collect();
    let (sig_valid, sig_types): (Vec<bool>, Vec<u8>) = if keys.is_empty() {
        (vec![], vec![])
    } else {
        let rs = msg.verify_nested(&keys).map_err(|e| format!("verify_nested: {e}"))?;
        (
            rs.iter().map(|r| matches!(r, VerificationResult::Valid(_))).collect(),
            rs.iter()
                .filter_map(|r| match r {
                    VerificationResult::Valid(sig) => sig.typ().map(u8::from),
                    _ => None,
                })
                .collect(),
        )
    };
    Ok(ReadBack {
        data,
        file_name,
        is_binary_mode,
        created,
        sig_valid,
        sig_types,
    })
}
