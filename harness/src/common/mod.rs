//! Shared drivers: deterministic keys, recording key wrappers, small enumerators.

pub mod msg;
pub mod sigs;

use std::sync::{Arc, Mutex, OnceLock};

use pgp::{
    composed::{
        EncryptionCaps, KeyType, SecretKeyParamsBuilder, SignedSecretKey, SubkeyParamsBuilder,
    },
    crypto::{ecc_curve::ECCCurve, hash::HashAlgorithm, public_key::PublicKeyAlgorithm},
    types::{
        Fingerprint, KeyDetails, KeyId, KeyVersion, Password, PublicParams, SignatureBytes,
        SigningKey, Timestamp, VerifyingKey,
    },
};

/// The pinned clock (hook H1): 2023-11-14T22:13:20Z.
pub const NOW: u32 = 1_700_000_000;

/// Key creation time used for generated keys (before NOW).
pub const KEY_CREATED: u32 = 1_600_000_000;

#[derive(Clone, Copy, Debug, PartialEq, Eq, Hash, serde::Serialize, serde::Deserialize)]
pub enum KeyKind {
    Ed25519V4,
    Ed25519V6,
    Ed25519LegacyV4,
    Ed448V6,
    EcdsaP256V4,
    EcdsaP256V6,
    EcdsaP384V4,
    EcdsaP521V4,
    EcdsaK256V4,
    Rsa2048V4,
    Rsa2048V6,
}

impl KeyKind {
    pub fn version(self) -> KeyVersion {
        match self {
            KeyKind::Ed25519V6 | KeyKind::Ed448V6 | KeyKind::EcdsaP256V6 | KeyKind::Rsa2048V6 => KeyVersion::V6,
            _ => KeyVersion::V4,
        }
    }
    pub fn is_v6(self) -> bool {
        self.version() == KeyVersion::V6
    }
}

/// Generate a certificate: signing-capable primary of the given kind plus an encryption subkey
/// (X25519 for the modern kinds, ECDH Cv25519 for legacy, RSA for RSA).
pub fn gen_cert(kind: KeyKind, seed: u64) -> SignedSecretKey {
    let mut rng = crate::engine::rng(seed ^ 0x5eed_0000);
    let version = kind.version();
    let (kt, sub) = match kind {
        KeyKind::Ed25519V4 | KeyKind::Ed25519V6 => (KeyType::Ed25519, KeyType::X25519),
        KeyKind::Ed25519LegacyV4 => (KeyType::Ed25519Legacy, KeyType::ECDH(ECCCurve::Curve25519Legacy)),
        KeyKind::Ed448V6 => (KeyType::Ed448, KeyType::X448),
        KeyKind::EcdsaP256V4 | KeyKind::EcdsaP256V6 => {
            (KeyType::ECDSA(ECCCurve::P256), KeyType::ECDH(ECCCurve::P256))
        }
        KeyKind::EcdsaP384V4 => (KeyType::ECDSA(ECCCurve::P384), KeyType::ECDH(ECCCurve::P384)),
        KeyKind::EcdsaP521V4 => (KeyType::ECDSA(ECCCurve::P521), KeyType::ECDH(ECCCurve::P521)),
        KeyKind::EcdsaK256V4 => (
            KeyType::ECDSA(ECCCurve::Secp256k1),
            KeyType::ECDH(ECCCurve::P256),
        ),
        KeyKind::Rsa2048V4 | KeyKind::Rsa2048V6 => (KeyType::Rsa(2048), KeyType::Rsa(2048)),
    };
    let mut b = SecretKeyParamsBuilder::default();
    b.version(version)
        .key_type(kt)
        .can_certify(true)
        .can_sign(true)
        .created_at(Timestamp::from_secs(KEY_CREATED))
        .primary_user_id(format!("verif {kind:?} {seed} <v{seed}@example.org>"))
        .passphrase(None)
        .subkey(
            SubkeyParamsBuilder::default()
                .version(version)
                .key_type(sub)
                .can_encrypt(EncryptionCaps::All)
                .created_at(Timestamp::from_secs(KEY_CREATED))
                .passphrase(None)
                .build()
                .expect("subkey params"),
        );
    b.build()
        .expect("key params")
        .generate(&mut rng)
        .expect("key generation")
}

type Ring = Mutex<Vec<((KeyKind, u64), Arc<SignedSecretKey>)>>;
static RING: OnceLock<Ring> = OnceLock::new();

/// Cached deterministic certificates.
pub fn cert(kind: KeyKind, seed: u64) -> Arc<SignedSecretKey> {
    let ring = RING.get_or_init(|| Mutex::new(Vec::new()));
    {
        let g = ring.lock().unwrap();
        if let Some((_, k)) = g.iter().find(|(k, _)| *k == (kind, seed)) {
            return k.clone();
        }
    }
    let k = Arc::new(gen_cert(kind, seed));
    let mut g = ring.lock().unwrap();
    if let Some((_, k)) = g.iter().find(|(k, _)| *k == (kind, seed)) {
        return k.clone();
    }
    g.push(((kind, seed), k.clone()));
    k
}

/// What a recording key saw.
#[derive(Clone, Debug, Default)]
pub struct Seen {
    pub digests: Vec<(HashAlgorithm, Vec<u8>)>,
}

/// A `SigningKey` that records every digest it is asked to sign and delegates to a real key.
#[derive(Debug)]
pub struct RecSigner<'a, K: SigningKey> {
    pub inner: &'a K,
    pub seen: Arc<Mutex<Seen>>,
    pub lie_version: Option<KeyVersion>,
}

impl<'a, K: SigningKey> RecSigner<'a, K> {
    pub fn new(inner: &'a K) -> Self {
        RecSigner {
            inner,
            seen: Default::default(),
            lie_version: None,
        }
    }
    pub fn last(&self) -> Option<Vec<u8>> {
        self.seen.lock().unwrap().digests.last().map(|d| d.1.clone())
    }
}

impl<K: SigningKey> KeyDetails for RecSigner<'_, K> {
    fn version(&self) -> KeyVersion {
        self.lie_version.unwrap_or_else(|| self.inner.version())
    }
    fn legacy_key_id(&self) -> KeyId {
        self.inner.legacy_key_id()
    }
    fn fingerprint(&self) -> Fingerprint {
        self.inner.fingerprint()
    }
    fn algorithm(&self) -> PublicKeyAlgorithm {
        self.inner.algorithm()
    }
    fn created_at(&self) -> Timestamp {
        self.inner.created_at()
    }
    fn legacy_v3_expiration_days(&self) -> Option<u16> {
        self.inner.legacy_v3_expiration_days()
    }
    fn public_params(&self) -> &PublicParams {
        self.inner.public_params()
    }
}

impl<K: SigningKey> SigningKey for RecSigner<'_, K> {
    fn sign(
        &self,
        key_pw: &Password,
        hash: HashAlgorithm,
        data: &[u8],
    ) -> pgp::errors::Result<SignatureBytes> {
        self.seen.lock().unwrap().digests.push((hash, data.to_vec()));
        self.inner.sign(key_pw, hash, data)
    }
    fn hash_alg(&self) -> HashAlgorithm {
        self.inner.hash_alg()
    }
}

/// A `VerifyingKey` that records every digest it is asked to verify and delegates to a real key.
#[derive(Debug)]
pub struct RecVerifier<'a, K: VerifyingKey> {
    pub inner: &'a K,
    pub seen: Arc<Mutex<Seen>>,
    pub lie_version: Option<KeyVersion>,
}

impl<'a, K: VerifyingKey> RecVerifier<'a, K> {
    pub fn new(inner: &'a K) -> Self {
        RecVerifier {
            inner,
            seen: Default::default(),
            lie_version: None,
        }
    }
    pub fn last(&self) -> Option<Vec<u8>> {
        self.seen.lock().unwrap().digests.last().map(|d| d.1.clone())
    }
    pub fn count(&self) -> usize {
        self.seen.lock().unwrap().digests.len()
    }
}

impl<K: VerifyingKey> KeyDetails for RecVerifier<'_, K> {
    fn version(&self) -> KeyVersion {
        self.lie_version.unwrap_or_else(|| self.inner.version())
    }
    fn legacy_key_id(&self) -> KeyId {
        self.inner.legacy_key_id()
    }
    fn fingerprint(&self) -> Fingerprint {
        self.inner.fingerprint()
    }
    fn algorithm(&self) -> PublicKeyAlgorithm {
        self.inner.algorithm()
    }
    fn created_at(&self) -> Timestamp {
        self.inner.created_at()
    }
    fn legacy_v3_expiration_days(&self) -> Option<u16> {
        self.inner.legacy_v3_expiration_days()
    }
    fn public_params(&self) -> &PublicParams {
        self.inner.public_params()
    }
}

impl<K: VerifyingKey> VerifyingKey for RecVerifier<'_, K> {
    fn verify(
        &self,
        hash: HashAlgorithm,
        data: &[u8],
        sig: &SignatureBytes,
    ) -> pgp::errors::Result<()> {
        self.seen.lock().unwrap().digests.push((hash, data.to_vec()));
        self.inner.verify(hash, data, sig)
    }
}

/// All strings over `alphabet` of length 0..=max_len, in length-then-lexicographic order.
pub fn all_strings(alphabet: &[&[u8]], max_len: usize) -> Vec<Vec<u8>> {
    let mut out: Vec<Vec<u8>> = vec![vec![]];
    let mut level: Vec<Vec<u8>> = vec![vec![]];
    for _ in 0..max_len {
        let mut next = Vec::with_capacity(level.len() * alphabet.len());
        for s in &level {
            for a in alphabet {
                let mut t = s.clone();
                t.extend_from_slice(a);
                next.push(t);
            }
        }
        out.extend(next.iter().cloned());
        level = next;
    }
    out
}

/// All compositions of `n` (ordered sequences of positive integers summing to n) as bitmasks:
/// bit i set = a cut after byte i (0 <= i < n-1).
pub fn composition(n: usize, mask: u32) -> Vec<usize> {
    let mut parts = Vec::new();
    let mut cur = 0;
    for i in 0..n {
        cur += 1;
        if i + 1 == n || (mask >> i) & 1 == 1 {
            parts.push(cur);
            cur = 0;
        }
    }
    parts
}

pub fn split_by<'a>(data: &'a [u8], parts: &[usize]) -> Vec<&'a [u8]> {
    let mut out = Vec::with_capacity(parts.len());
    let mut pos = 0;
    for &p in parts {
        out.push(&data[pos..pos + p]);
        pos += p;
    }
    out
}

pub fn esc(b: &[u8]) -> String {
    let mut s = String::new();
    for &c in b {
        match c {
            b'\r' => s.push_str("\\r"),
            b'\n' => s.push_str("\\n"),
            b'\t' => s.push_str("\\t"),
            b'\\' => s.push_str("\\\\"),
            0x20..=0x7e => s.push(c as char),
            _ => s.push_str(&format!("\\x{c:02x}")),
        }
    }
    s
}
