//! Signature artefact factory shared by C02 / C11 / C15: creates every kind of signature through
//! the library's signing APIs, verifies through the matching verification API, and computes the
//! RFC 9580 §5.2.4 digest independently from wire bytes.

use std::sync::Arc;

use pgp::{
    composed::SignedSecretKey,
    crypto::hash::HashAlgorithm,
    packet::{
        PacketParser, Signature, SignatureConfig, SignatureType, Subpacket, SubpacketData,
        UserAttribute, UserId,
    },
    ser::Serialize,
    types::{KeyDetails, KeyVersion, Password, SigningKey, Tag, Timestamp, VerifyingKey},
};
use serde::{Deserialize, Serialize as SerdeSerialize};

use super::{cert, KeyKind, NOW};
use crate::reference::{
    canon::canon,
    codec::{self, Summary},
    kdf,
};

#[derive(Clone, Copy, Debug, Hash, PartialEq, Eq, SerdeSerialize, Deserialize)]
pub enum SigKind {
    DocBinary,
    DocText,
    /// certification of a user id: 0x10..0x13
    CertUserId(u8),
    CertUserAttr,
    /// 0x30 over a user id
    CertRevocation,
    SubkeyBinding,
    SubkeyRevocation,
    PrimaryKeyBinding,
    DirectKey,
    KeyRevocation,
    /// 0x13 by another key over this key's user id
    ThirdPartyCert,
}

pub const ALL_KINDS: [SigKind; 14] = [
    SigKind::DocBinary,
    SigKind::DocText,
    SigKind::CertUserId(0x10),
    SigKind::CertUserId(0x11),
    SigKind::CertUserId(0x12),
    SigKind::CertUserId(0x13),
    SigKind::CertUserAttr,
    SigKind::CertRevocation,
    SigKind::SubkeyBinding,
    SigKind::SubkeyRevocation,
    SigKind::PrimaryKeyBinding,
    SigKind::DirectKey,
    SigKind::KeyRevocation,
    SigKind::ThirdPartyCert,
];

impl SigKind {
    pub fn type_octet(self) -> u8 {
        match self {
            SigKind::DocBinary => 0x00,
            SigKind::DocText => 0x01,
            SigKind::CertUserId(t) => t,
            SigKind::CertUserAttr => 0x13,
            SigKind::CertRevocation => 0x30,
            SigKind::SubkeyBinding => 0x18,
            SigKind::SubkeyRevocation => 0x28,
            SigKind::PrimaryKeyBinding => 0x19,
            SigKind::DirectKey => 0x1F,
            SigKind::KeyRevocation => 0x20,
            SigKind::ThirdPartyCert => 0x13,
        }
    }
    pub fn sig_type(self) -> SignatureType {
        match self.type_octet() {
            0x00 => SignatureType::Binary,
            0x01 => SignatureType::Text,
            0x10 => SignatureType::CertGeneric,
            0x11 => SignatureType::CertPersona,
            0x12 => SignatureType::CertCasual,
            0x13 => SignatureType::CertPositive,
            0x30 => SignatureType::CertRevocation,
            0x18 => SignatureType::SubkeyBinding,
            0x28 => SignatureType::SubkeyRevocation,
            0x19 => SignatureType::KeyBinding,
            0x1F => SignatureType::Key,
            _ => SignatureType::KeyRevocation,
        }
    }
}

#[derive(Clone, Debug, Hash, PartialEq, Eq, SerdeSerialize, Deserialize)]
pub struct Spec {
    pub kind: SigKind,
    pub key: KeyKind,
    /// index into msg::HASHES
    pub hash: u8,
    /// the signed object: document bytes / user id bytes / attribute image bytes
    pub object: Vec<u8>,
    /// extra hashed subpackets: size of a notation value appended to the default set (0 = none)
    pub notation_len: usize,
    /// mark the creation-time subpacket critical
    pub critical_time: bool,
}

pub struct Artefact {
    pub spec: Spec,
    pub cert: Arc<SignedSecretKey>,
    /// the other certificate (signer of third-party certifications)
    pub other: Arc<SignedSecretKey>,
    pub sig: Signature,
    /// body of the signature packet
    pub sig_body: Vec<u8>,
    pub user_id: UserId,
    pub user_attr: UserAttribute,
}

fn hashed_subpackets(key: &impl KeyDetails, spec: &Spec) -> pgp::errors::Result<Vec<Subpacket>> {
    let t = SubpacketData::SignatureCreationTime(Timestamp::from_secs(NOW));
    let mut v = vec![
        if spec.critical_time {
            Subpacket::critical(t)?
        } else {
            Subpacket::regular(t)?
        },
        Subpacket::regular(SubpacketData::IssuerFingerprint(key.fingerprint()))?,
    ];
    if spec.notation_len == 150 {
        // text-carrying subpackets with characters of 2, 3 and 4 UTF-8 octets: their length fields
        // (and with them the hashed area that is signed) count octets
        v.push(Subpacket::regular(SubpacketData::PolicyURI("https://example.org/p\u{f6}licy/\u{1f4dc}".into()))?);
        v.push(Subpacket::regular(SubpacketData::PreferredKeyServer("hkps://schl\u{fc}ssel.example.org/\u{9375}".into()))?);
        v.push(Subpacket::regular(SubpacketData::RegularExpression("<[^>]+[@.]b\u{fc}cher\\.example>$".into()))?);
        v.push(Subpacket::regular(SubpacketData::SignersUserID("Zo\u{eb} <zo\u{eb}@example.org>".into()))?);
    }
    if spec.notation_len > 0 {
        v.push(Subpacket::regular(SubpacketData::Notation(pgp::packet::Notation {
            readable: true,
            name: "verif@example.org".into(),
            value: vec![b'v'; spec.notation_len].into(),
        }))?);
    }
    Ok(v)
}

fn config_for<K: KeyDetails>(key: &K, spec: &Spec, seed: u64) -> pgp::errors::Result<SignatureConfig> {
    let hash = super::msg::HASHES[spec.hash as usize];
    let mut cfg = match key.version() {
        KeyVersion::V6 => SignatureConfig::v6(crate::engine::rng(seed), spec.kind.sig_type(), key.algorithm(), hash)?,
        _ => SignatureConfig::v4(spec.kind.sig_type(), key.algorithm(), hash),
    };
    cfg.hashed_subpackets = hashed_subpackets(key, spec)?;
    Ok(cfg)
}

pub fn user_attr(bytes: &[u8]) -> UserAttribute {
    // an image attribute: the library frames `bytes` as a JPEG image body
    UserAttribute::new_image(bytes.to_vec().into()).expect("user attribute")
}

pub fn other_cert(spec: &Spec) -> Arc<SignedSecretKey> {
    cert(spec.key, 2)
}

pub fn make(spec: &Spec) -> pgp::errors::Result<Artefact> {
    make_inner(spec, None).map(|x| x.0)
}

/// Like `make`, also returning the digest the signing key was asked to sign.
pub fn make_recorded(spec: &Spec) -> pgp::errors::Result<(Artefact, Vec<u8>)> {
    let rec = std::sync::Arc::new(std::sync::Mutex::new(super::Seen::default()));
    let (a, _) = make_inner(spec, Some(rec.clone()))?;
    let d = rec.lock().unwrap().digests.last().map(|d| d.1.clone()).unwrap_or_default();
    Ok((a, d))
}

fn make_inner(
    spec: &Spec,
    rec: Option<std::sync::Arc<std::sync::Mutex<super::Seen>>>,
) -> pgp::errors::Result<(Artefact, ())> {
    let c = cert(spec.key, 1);
    let other = other_cert(spec);
    let pw = Password::empty();
    let uid = UserId::from_str(Default::default(), String::from_utf8_lossy(&spec.object)).or_else(|_| UserId::from_str(Default::default(), "x"))?;
    // user ids with arbitrary bytes: parse from wire to bypass the &str constructor
    let uid = uid_from_bytes(&spec.object).unwrap_or(uid);
    let ua = user_attr(&spec.object);
    let primary = &c.primary_key;
    let sub = &c.secret_subkeys[0].key;
    macro_rules! signer {
        ($k:expr) => {{
            let mut r = super::RecSigner::new($k);
            if let Some(s) = &rec {
                r.seen = s.clone();
            }
            r
        }};
    }
    let seed = 77;
    let sig = match spec.kind {
        SigKind::DocBinary | SigKind::DocText => {
            let cfg = config_for(primary, spec, seed)?;
            cfg.sign(&signer!(primary), &pw, &spec.object[..])?
        }
        SigKind::CertUserId(_) | SigKind::CertRevocation => {
            let cfg = config_for(primary, spec, seed)?;
            cfg.sign_certification(&signer!(primary), primary.public_key(), &pw, Tag::UserId, &uid)?
        }
        SigKind::CertUserAttr => {
            let cfg = config_for(primary, spec, seed)?;
            cfg.sign_certification(&signer!(primary), primary.public_key(), &pw, Tag::UserAttribute, &ua)?
        }
        SigKind::ThirdPartyCert => {
            let cfg = config_for(&other.primary_key, spec, seed)?;
            cfg.sign_certification_third_party(&signer!(&other.primary_key), &pw, primary.public_key(), Tag::UserId, &uid)?
        }
        SigKind::SubkeyBinding | SigKind::SubkeyRevocation => {
            let cfg = config_for(primary, spec, seed)?;
            cfg.sign_subkey_binding(&signer!(primary), primary.public_key(), &pw, sub.public_key())?
        }
        SigKind::PrimaryKeyBinding => {
            // the subkey signs; for the standard certs the subkey is an encryption key, so use the
            // other certificate's PRIMARY as the "subkey" material: any signing-capable key works
            let signing_sub = &other.primary_key;
            let cfg = config_for(signing_sub, spec, seed)?;
            cfg.sign_primary_key_binding(&signer!(signing_sub), signing_sub.public_key(), &pw, primary.public_key())?
        }
        SigKind::DirectKey | SigKind::KeyRevocation => {
            let cfg = config_for(primary, spec, seed)?;
            cfg.sign_key(&signer!(primary), &pw, primary.public_key())?
        }
    };
    let sig_body = sig.to_bytes()?;
    Ok((
        Artefact {
            spec: spec.clone(),
            cert: c,
            other,
            sig,
            sig_body,
            user_id: uid,
            user_attr: ua,
        },
        (),
    ))
}

pub fn uid_from_bytes(b: &[u8]) -> Option<UserId> {
    let framed = crate::reference::frame::frame_min(13, b);
    match PacketParser::new(&framed[..]).next()? {
        Ok(pgp::packet::Packet::UserId(u)) => Some(u),
        _ => None,
    }
}

pub fn sig_from_body(body: &[u8]) -> Result<Signature, String> {
    let framed = crate::reference::frame::frame_min(2, body);
    match PacketParser::new(&framed[..]).next() {
        Some(Ok(pgp::packet::Packet::Signature(s))) => Ok(s),
        Some(Ok(_)) => Err("not a signature packet".into()),
        Some(Err(e)) => Err(e.to_string()),
        None => Err("no packet".into()),
    }
}

/// Verify `sig` (possibly re-parsed / tampered) in the context of the artefact, over `object`
/// (document bytes, user id bytes or attribute bytes), with the given verifying keys: `vkey` plays
/// the signer (and, where the API takes it, `target` the key signed over).
pub fn verify_with<V, K, K2>(a: &Artefact, sig: &Signature, object: &[u8], vkey: &V, target: &K, subkey: &K2) -> pgp::errors::Result<()>
where
    V: VerifyingKey + Serialize,
    K: KeyDetails + Serialize,
    K2: KeyDetails + Serialize,
{
    match a.spec.kind {
        SigKind::DocBinary | SigKind::DocText => sig.verify(vkey, object),
        SigKind::CertUserId(_) | SigKind::CertRevocation | SigKind::ThirdPartyCert => {
            let uid = uid_from_bytes(object).ok_or_else(|| pgp::errors::Error::from(std::io::Error::other("uid")))?;
            sig.verify_third_party_certification(target, vkey, Tag::UserId, &uid)
        }
        SigKind::CertUserAttr => {
            let ua = user_attr(object);
            sig.verify_third_party_certification(target, vkey, Tag::UserAttribute, &ua)
        }
        SigKind::SubkeyBinding | SigKind::SubkeyRevocation => sig.verify_subkey_binding(vkey, subkey),
        SigKind::PrimaryKeyBinding => sig.verify_primary_key_binding(vkey, target),
        SigKind::DirectKey | SigKind::KeyRevocation => sig.verify_key_third_party(target, vkey),
    }
}

/// The default verification of an artefact: right keys, right object.
pub fn verify_default(a: &Artefact, sig: &Signature, object: &[u8]) -> pgp::errors::Result<()> {
    let primary = a.cert.primary_key.public_key();
    let sub_pk = a.cert.secret_subkeys[0].key.public_key();
    match a.spec.kind {
        SigKind::ThirdPartyCert => {
            let uid = uid_from_bytes(object).ok_or_else(|| pgp::errors::Error::from(std::io::Error::other("uid")))?;
            sig.verify_third_party_certification(primary, a.other.primary_key.public_key(), Tag::UserId, &uid)
        }
        SigKind::PrimaryKeyBinding => sig.verify_primary_key_binding(a.other.primary_key.public_key(), primary),
        SigKind::SubkeyBinding | SigKind::SubkeyRevocation => sig.verify_subkey_binding(primary, sub_pk),
        SigKind::DocBinary | SigKind::DocText => sig.verify(primary, object),
        SigKind::CertUserId(_) | SigKind::CertRevocation => {
            let uid = uid_from_bytes(object).ok_or_else(|| pgp::errors::Error::from(std::io::Error::other("uid")))?;
            sig.verify_certification(primary, Tag::UserId, &uid)
        }
        SigKind::CertUserAttr => sig.verify_certification(primary, Tag::UserAttribute, &user_attr(object)),
        SigKind::DirectKey | SigKind::KeyRevocation => sig.verify_key(primary),
    }
}

/// 0x99/0x9B framing of a key for hashing, from the key's public packet body.
pub fn key_frame(public_body: &[u8]) -> Vec<u8> {
    let mut out = Vec::with_capacity(public_body.len() + 5);
    if public_body.first() == Some(&6) {
        out.push(0x9B);
        out.extend_from_slice(&(public_body.len() as u32).to_be_bytes());
    } else {
        out.push(0x99);
        out.extend_from_slice(&(public_body.len() as u16).to_be_bytes());
    }
    out.extend_from_slice(public_body);
    out
}

/// RFC 9580 §5.2.4 digest of a signature, computed from the signature packet body (decoded by the
/// independent codec) and the wire bytes of the objects signed.
pub fn reference_digest(
    sig_body: &[u8],
    kind: SigKind,
    object: &[u8],
    primary_public_body: &[u8],
    second_key_public_body: &[u8],
    attr_body: &[u8],
) -> Result<Vec<u8>, String> {
    let d = codec::decode_packet(2, sig_body).map_err(|e| e.to_string())?;
    let Summary::Signature(s) = &d.summary else {
        return Err("not a signature".into());
    };
    let mut parts: Vec<Vec<u8>> = Vec::new();
    if let Some((a, b)) = s.salt {
        parts.push(sig_body[a..b].to_vec());
    }
    let with_prefix = s.version >= 4;
    match kind {
        SigKind::DocBinary => parts.push(object.to_vec()),
        SigKind::DocText => parts.push(canon(object)),
        SigKind::CertUserId(_) | SigKind::CertRevocation | SigKind::ThirdPartyCert => {
            parts.push(key_frame(primary_public_body));
            if with_prefix {
                let mut p = vec![0xB4];
                p.extend_from_slice(&(object.len() as u32).to_be_bytes());
                parts.push(p);
            }
            parts.push(object.to_vec());
        }
        SigKind::CertUserAttr => {
            parts.push(key_frame(primary_public_body));
            if with_prefix {
                let mut p = vec![0xD1];
                p.extend_from_slice(&(attr_body.len() as u32).to_be_bytes());
                parts.push(p);
            }
            parts.push(attr_body.to_vec());
        }
        SigKind::SubkeyBinding | SigKind::SubkeyRevocation | SigKind::PrimaryKeyBinding => {
            parts.push(key_frame(primary_public_body));
            parts.push(key_frame(second_key_public_body));
        }
        SigKind::DirectKey | SigKind::KeyRevocation => parts.push(key_frame(primary_public_body)),
    }
    match s.version {
        2 | 3 => {
            // type and creation time
            parts.push(sig_body[s.hashed.0..s.hashed.1].to_vec());
        }
        4 | 6 => {
            // version, type, pk alg, hash alg, hashed area length, hashed area
            let fields = sig_body[0..s.hashed.1].to_vec();
            let mut trailer = vec![s.version, 0xFF];
            trailer.extend_from_slice(&(fields.len() as u32).to_be_bytes());
            parts.push(fields);
            parts.push(trailer);
        }
        v => return Err(format!("signature version {v}")),
    }
    let refs: Vec<&[u8]> = parts.iter().map(|p| &p[..]).collect();
    if kdf::hasher(s.hash_alg).is_none() {
        return Err(format!("hash {}", s.hash_alg));
    }
    Ok(kdf::hash(s.hash_alg, &refs))
}

/// Reference digest of an artefact's (possibly modified) signature body over `object`.
pub fn artefact_digest(a: &Artefact, sig_body: &[u8], object: &[u8]) -> Result<Vec<u8>, String> {
    let primary = a.cert.primary_key.public_key().to_bytes().map_err(|e| e.to_string())?;
    let second = match a.spec.kind {
        SigKind::PrimaryKeyBinding => a.other.primary_key.public_key().to_bytes(),
        _ => a.cert.secret_subkeys[0].key.public_key().to_bytes(),
    }
    .map_err(|e| e.to_string())?;
    let attr = user_attr(object).to_bytes().map_err(|e| e.to_string())?;
    reference_digest(sig_body, a.spec.kind, object, &primary, &second, &attr)
}

pub fn hash_id(h: HashAlgorithm) -> u8 {
    u8::from(h)
}


fn mpi_bytes(v: &[u8]) -> Vec<u8> {
    let mut v = v;
    while v.first() == Some(&0) {
        v = &v[1..];
    }
    let bits = if v.is_empty() { 0 } else { v.len() * 8 - v[0].leading_zeros() as usize };
    let mut out = (bits as u16).to_be_bytes().to_vec();
    out.extend_from_slice(v);
    out
}

/// Assemble a v4 / v6 signature packet body with arbitrary hashed / unhashed areas: the digest is
/// computed by the reference (RFC 9580 5.2.4) over `content` and signed with the key's raw signer.
#[allow(clippy::too_many_arguments)]
pub fn craft_signature<S: SigningKey>(
    key: &S,
    version: u8,
    typ: u8,
    hash: HashAlgorithm,
    hashed: &[u8],
    unhashed: &[u8],
    salt: &[u8],
    content: &[&[u8]],
) -> Result<Vec<u8>, String> {
    let hash_id = u8::from(hash);
    let mut fields = vec![version, typ, u8::from(key.algorithm()), hash_id];
    if version == 6 {
        fields.extend_from_slice(&(hashed.len() as u32).to_be_bytes());
    } else {
        fields.extend_from_slice(&(hashed.len() as u16).to_be_bytes());
    }
    fields.extend_from_slice(hashed);
    let mut trailer = vec![version, 0xFF];
    trailer.extend_from_slice(&(fields.len() as u32).to_be_bytes());
    let mut parts: Vec<&[u8]> = Vec::new();
    if version == 6 {
        parts.push(salt);
    }
    parts.extend_from_slice(content);
    parts.push(&fields);
    parts.push(&trailer);
    let digest = kdf::hash(hash_id, &parts);
    let raw = key.sign(&Password::empty(), hash, &digest).map_err(|e| e.to_string())?;
    let mut body = fields.clone();
    if version == 6 {
        body.extend_from_slice(&(unhashed.len() as u32).to_be_bytes());
    } else {
        body.extend_from_slice(&(unhashed.len() as u16).to_be_bytes());
    }
    body.extend_from_slice(unhashed);
    body.extend_from_slice(&digest[..2]);
    if version == 6 {
        body.push(salt.len() as u8);
        body.extend_from_slice(salt);
    }
    match &raw {
        pgp::types::SignatureBytes::Mpis(ms) => {
            for m in ms {
                body.extend_from_slice(&mpi_bytes(m.as_ref()));
            }
        }
        pgp::types::SignatureBytes::Native(b) => body.extend_from_slice(b),
    }
    Ok(body)
}

/// One raw subpacket: length (1 or 2 or 5 octets, minimal), type octet (with critical bit), body.
pub fn raw_subpacket(typ: u8, critical: bool, body: &[u8]) -> Vec<u8> {
    let n = body.len() + 1;
    let mut out = Vec::new();
    if n < 192 {
        out.push(n as u8);
    } else if n < 16320 {
        let m = n - 192;
        out.push((m >> 8) as u8 + 192);
        out.push(m as u8);
    } else {
        out.push(255);
        out.extend_from_slice(&(n as u32).to_be_bytes());
    }
    out.push(typ | if critical { 0x80 } else { 0 });
    out.extend_from_slice(body);
    out
}
