//! C07 — generated keys are valid, self-consistent and usable for every seed and shape.

use pgp::{
    composed::{
        Deserializable, EncryptionCaps, KeyType, SecretKeyParamsBuilder, SignedSecretKey,
        SubkeyParamsBuilder,
    },
    crypto::{
        aead::AeadAlgorithm, ecc_curve::ECCCurve, hash::HashAlgorithm, sym::SymmetricKeyAlgorithm,
    },
    packet::{SignatureConfig, SignatureType},
    ser::Serialize as _,
    types::{
        CompressionAlgorithm, DecryptionKey, EncryptionKey, EskType, KeyVersion,
        Password, S2kParams, SignatureBytes, SigningKey, StringToKey, Timestamp,
        VerifyingKey,
    },
};
use pgp::composed::PlainSessionKey;
use pgp::packet::PublicKeyEncryptedSessionKey;
use rand::{CryptoRng, RngCore};
use rayon::prelude::*;
use serde::{Deserialize, Serialize};
use serde_json::Value;

use crate::{
    common::KEY_CREATED,
    engine::{replay_as, Ctx, Outcome, Tier},
};

/// ChaCha stream whose draw number `force_draw` gets some octets forced.
pub struct ScriptedRng {
    inner: rand_chacha::ChaCha20Rng,
    pub draws: u32,
    force_draw: Option<u32>,
    /// 0: first two octets 00; 1: first octet 00; 2: first two octets FF; 3: last octet 00;
    /// 4: first octet 00 and last octet 00
    mode: u8,
}

impl ScriptedRng {
    pub fn new(seed: u64, force_draw: Option<u32>, mode: u8) -> Self {
        ScriptedRng {
            inner: crate::engine::rng(seed),
            draws: 0,
            force_draw,
            mode,
        }
    }
    fn force(&self, buf: &mut [u8]) {
        if buf.is_empty() {
            return;
        }
        let n = buf.len();
        match self.mode {
            0 => {
                buf[0] = 0;
                if n > 1 {
                    buf[1] = 0;
                }
            }
            1 => buf[0] = 0,
            2 => {
                buf[0] = 0xFF;
                if n > 1 {
                    buf[1] = 0xFF;
                }
            }
            3 => buf[n - 1] = 0,
            _ => {
                buf[0] = 0;
                buf[n - 1] = 0;
            }
        }
    }
}

impl RngCore for ScriptedRng {
    fn next_u32(&mut self) -> u32 {
        let mut b = [0u8; 4];
        self.fill_bytes(&mut b);
        u32::from_le_bytes(b)
    }
    fn next_u64(&mut self) -> u64 {
        let mut b = [0u8; 8];
        self.fill_bytes(&mut b);
        u64::from_le_bytes(b)
    }
    fn fill_bytes(&mut self, dest: &mut [u8]) {
        self.inner.fill_bytes(dest);
        if self.force_draw == Some(self.draws) {
            self.force(dest);
        }
        self.draws += 1;
    }
    fn try_fill_bytes(&mut self, dest: &mut [u8]) -> Result<(), rand::Error> {
        self.fill_bytes(dest);
        Ok(())
    }
}
impl CryptoRng for ScriptedRng {}

#[derive(Clone, Copy, Debug, Hash, PartialEq, Eq, Serialize, Deserialize)]
pub enum Alg {
    Ed25519Legacy,
    Ed25519,
    Ed448,
    EcdsaP256,
    EcdsaP384,
    EcdsaP521,
    EcdsaK256,
    Rsa2048,
    Dsa2048,
    EcdhP256,
    EcdhP384,
    EcdhP521,
    EcdhCv25519,
    X25519,
    X448,
}

impl Alg {
    fn key_type(self) -> KeyType {
        match self {
            Alg::Ed25519Legacy => KeyType::Ed25519Legacy,
            Alg::Ed25519 => KeyType::Ed25519,
            Alg::Ed448 => KeyType::Ed448,
            Alg::EcdsaP256 => KeyType::ECDSA(ECCCurve::P256),
            Alg::EcdsaP384 => KeyType::ECDSA(ECCCurve::P384),
            Alg::EcdsaP521 => KeyType::ECDSA(ECCCurve::P521),
            Alg::EcdsaK256 => KeyType::ECDSA(ECCCurve::Secp256k1),
            Alg::Rsa2048 => KeyType::Rsa(2048),
            Alg::Dsa2048 => KeyType::Dsa(pgp::composed::DsaKeySize::B2048),
            Alg::EcdhP256 => KeyType::ECDH(ECCCurve::P256),
            Alg::EcdhP384 => KeyType::ECDH(ECCCurve::P384),
            Alg::EcdhP521 => KeyType::ECDH(ECCCurve::P521),
            Alg::EcdhCv25519 => KeyType::ECDH(ECCCurve::Curve25519Legacy),
            Alg::X25519 => KeyType::X25519,
            Alg::X448 => KeyType::X448,
        }
    }
    fn can_sign(self) -> bool {
        !matches!(
            self,
            Alg::EcdhP256 | Alg::EcdhP384 | Alg::EcdhP521 | Alg::EcdhCv25519 | Alg::X25519 | Alg::X448
        )
    }
    fn can_encrypt(self) -> bool {
        !self.can_sign() || self == Alg::Rsa2048
    }
    /// legal for a v6 key? (the legacy 25519 formats are not)
    fn legal_in_v6(self) -> bool {
        !matches!(self, Alg::Ed25519Legacy | Alg::EcdhCv25519)
    }
    fn sign_hash(self) -> HashAlgorithm {
        match self {
            Alg::Ed448 | Alg::EcdsaP521 => HashAlgorithm::Sha512,
            Alg::EcdsaP384 => HashAlgorithm::Sha384,
            _ => HashAlgorithm::Sha256,
        }
    }
}

#[derive(Clone, Copy, Debug, Hash, PartialEq, Eq, Serialize, Deserialize)]
pub struct Sub {
    pub alg: Alg,
    pub sign: bool,
    pub encrypt: bool,
    /// 0 unlocked, 1 locked with the primary's password, 2 locked with its own password
    pub lock: u8,
    /// encryption capability requested for an encryption subkey: 0 both (`All`), 1 storage
    /// only, 2 communication only
    #[serde(default)]
    pub caps: u8,
}

#[derive(Clone, Debug, Hash, PartialEq, Eq, Serialize, Deserialize)]
pub struct Shape {
    pub v6: bool,
    pub primary: Alg,
    pub subs: Vec<Sub>,
    /// 0 unlocked, 1 locked iterated+CFB (usage 254), 2 locked AEAD (usage 253, small Argon2)
    pub lock: u8,
    /// number of user ids (the first is the primary user id)
    pub uids: u8,
    pub prefs: bool,
    pub subkey_v6: Option<bool>,
}

#[derive(Clone, Debug, Hash, Serialize, Deserialize)]
pub struct Case {
    pub shape: Shape,
    pub seed: u64,
    pub force_draw: Option<u32>,
    pub mode: u8,
}

const PW: &str = "primary-pass";
const SUBPW: &str = "subkey-pass";

fn s2k_for(lock: u8, v6: bool, seed: u64) -> Option<S2kParams> {
    use rand::Rng;
    let mut rng = crate::engine::rng(seed ^ 0x52);
    match lock {
        1 => {
            let sym_alg = SymmetricKeyAlgorithm::AES128;
            let mut iv = vec![0u8; 16];
            rng.fill(&mut iv[..]);
            Some(S2kParams::Cfb {
                sym_alg,
                s2k: StringToKey::new_iterated(&mut rng, HashAlgorithm::Sha256, 0),
                iv: iv.into(),
            })
        }
        2 => {
            let aead_mode = AeadAlgorithm::Ocb;
            let mut nonce = vec![0u8; 15];
            rng.fill(&mut nonce[..]);
            let _ = v6;
            Some(S2kParams::Aead {
                sym_alg: SymmetricKeyAlgorithm::AES128,
                aead_mode,
                s2k: StringToKey::new_argon2(&mut rng, 1, 1, 4),
                nonce: nonce.into(),
            })
        }
        _ => None,
    }
}

fn expected_legal(s: &Shape) -> bool {
    let v6 = s.v6;
    if !v6 && s.uids == 0 {
        return false;
    }
    if v6 && !s.primary.legal_in_v6() {
        // the builder does not reject it; generation does (legacy formats are illegal in v6)
        return false;
    }
    if !s.primary.can_sign() {
        return false;
    }
    for sub in &s.subs {
        let sv6 = s.subkey_v6.unwrap_or(v6);
        if sv6 != v6 {
            return false;
        }
        if sv6 && !sub.alg.legal_in_v6() {
            return false;
        }
        if sub.sign && !sub.alg.can_sign() {
            return false;
        }
        if sub.encrypt && !sub.alg.can_encrypt() {
            return false;
        }
    }
    true
}

pub fn build(c: &Case) -> Result<pgp::errors::Result<SignedSecretKey>, String> {
    let s = &c.shape;
    let version = if s.v6 { KeyVersion::V6 } else { KeyVersion::V4 };
    let mut b = SecretKeyParamsBuilder::default();
    b.version(version)
        .key_type(s.primary.key_type())
        .can_certify(true)
        .can_sign(true)
        .created_at(Timestamp::from_secs(KEY_CREATED))
        .feature_seipd_v2(s.v6);
    if s.primary == Alg::Rsa2048 {
        b.can_encrypt(EncryptionCaps::All);
    }
    // user ids with characters of 2, 3 and 4 UTF-8 octets among them (lengths are in octets)
    if s.uids >= 1 {
        b.primary_user_id(if s.uids == 3 { "Zo\u{eb} M\u{fc}ller <zoe@example.org>".into() } else { "Primary <primary@example.org>".into() });
    }
    for i in 1..s.uids {
        b.user_id(match i {
            1 => "\u{9375} \u{1f511} <key@example.org>".to_string(),
            _ => format!("Other {i} <other{i}@example.org>"),
        });
    }
    if s.prefs {
        b.preferred_symmetric_algorithms(
            [SymmetricKeyAlgorithm::AES256, SymmetricKeyAlgorithm::AES128][..].into(),
        )
        .preferred_hash_algorithms([HashAlgorithm::Sha512, HashAlgorithm::Sha256][..].into())
        .preferred_compression_algorithms(
            [CompressionAlgorithm::ZLIB, CompressionAlgorithm::Uncompressed][..].into(),
        )
        .preferred_aead_algorithms(
            [(SymmetricKeyAlgorithm::AES256, AeadAlgorithm::Ocb)][..].into(),
        );
    }
    if s.lock != 0 {
        b.passphrase(Some(PW.into()));
        b.s2k(s2k_for(s.lock, s.v6, c.seed));
    } else {
        b.passphrase(None);
    }
    for (i, sub) in s.subs.iter().enumerate() {
        let sv = if s.subkey_v6.unwrap_or(s.v6) {
            KeyVersion::V6
        } else {
            KeyVersion::V4
        };
        let mut sb = SubkeyParamsBuilder::default();
        sb.version(sv)
            .key_type(sub.alg.key_type())
            .can_sign(sub.sign)
            .can_encrypt(match (sub.encrypt, sub.caps) {
                (false, _) => EncryptionCaps::None,
                (true, 1) => EncryptionCaps::Storage,
                (true, 2) => EncryptionCaps::Communication,
                (true, _) => EncryptionCaps::All,
            })
            .created_at(Timestamp::from_secs(KEY_CREATED + 1 + i as u32));
        match sub.lock {
            0 => {
                sb.passphrase(None);
            }
            1 => {
                sb.passphrase(Some(PW.into()));
                sb.s2k(s2k_for(1, s.v6, c.seed + 7 + i as u64));
            }
            _ => {
                sb.passphrase(Some(SUBPW.into()));
                sb.s2k(s2k_for(if s.lock == 2 { 2 } else { 1 }, s.v6, c.seed + 7 + i as u64));
            }
        }
        match sb.build() {
            Ok(p) => {
                b.subkey(p);
            }
            Err(e) => return Err(format!("subkey params: {e}")),
        }
    }
    let params = b.build().map_err(|e| format!("validate: {e}"))?;
    let rng = ScriptedRng::new(c.seed, c.force_draw, c.mode);
    Ok(params.generate(rng))
}

fn sub_pw(s: &Shape, sub: &Sub) -> Password {
    match sub.lock {
        0 => Password::empty(),
        1 => Password::from(PW),
        _ => Password::from(SUBPW),
    }
    .into_if(s)
}

trait IntoIf {
    fn into_if(self, s: &Shape) -> Password;
}
impl IntoIf for Password {
    fn into_if(self, _s: &Shape) -> Password {
        self
    }
}

fn sign_verify<S: SigningKey, V: VerifyingKey>(
    signer: &S,
    verifier: &V,
    pw: &Password,
    hash: HashAlgorithm,
    seed: u64,
) -> Result<(), String> {
    for (typ, data) in [
        (SignatureType::Binary, &b"binary \x00\xff data"[..]),
        (SignatureType::Text, &b"text\ndata\r\n"[..]),
    ] {
        let mut cfg = SignatureConfig::from_key(crate::engine::rng(seed), signer, typ)
            .map_err(|e| format!("config: {e}"))?;
        if signer.version() != KeyVersion::V6 {
            cfg.hash_alg = hash;
        }
        let sig = cfg.sign(signer, pw, data).map_err(|e| format!("sign: {e}"))?;
        sig.verify(verifier, data).map_err(|e| format!("verify: {e}"))?;
        let mut other = data.to_vec();
        other[0] ^= 1;
        if sig.verify(verifier, &other[..]).is_ok() {
            return Err("signature verifies over different data".into());
        }
    }
    Ok(())
}

fn enc_roundtrip<E: EncryptionKey, D: DecryptionKey>(
    ek: &E,
    dk: &D,
    pw: &Password,
    v6: bool,
    seed: u64,
) -> Result<(), String> {
    let sk: Vec<u8> = (0..16u8).map(|i| i.wrapping_mul(11).wrapping_add(seed as u8)).collect();
    let raw: pgp::composed::RawSessionKey = sk.clone().into();
    // v3 PKESK for every key; v6 PKESK for v6 keys
    let mut forms = vec![false];
    if v6 {
        forms.push(true);
    }
    for v6form in forms {
        let (pkesk, typ) = if v6form {
            (
                PublicKeyEncryptedSessionKey::from_session_key_v6(crate::engine::rng(seed + 1), &raw, ek)
                    .map_err(|e| format!("pkesk v6: {e}"))?,
                EskType::V6,
            )
        } else {
            (
                PublicKeyEncryptedSessionKey::from_session_key_v3(
                    crate::engine::rng(seed + 1),
                    &raw,
                    SymmetricKeyAlgorithm::AES128,
                    ek,
                )
                .map_err(|e| format!("pkesk v3: {e}"))?,
                EskType::V3_4,
            )
        };
        if !pkesk.match_identity(ek) {
            return Err("PKESK does not name the recipient key".into());
        }
        let values = pkesk.values().map_err(|e| format!("values: {e}"))?;
        let got = dk
            .decrypt(pw, values, typ)
            .map_err(|e| format!("decrypt(outer) v6={v6form}: {e}"))?
            .map_err(|e| format!("decrypt v6={v6form}: {e}"))?;
        let key: Vec<u8> = match &got {
            PlainSessionKey::V3_4 { key, sym_alg } => {
                if *sym_alg != SymmetricKeyAlgorithm::AES128 {
                    return Err(format!("cipher differs after round trip: {sym_alg:?}"));
                }
                key.as_ref().to_vec()
            }
            PlainSessionKey::V6 { key } => key.as_ref().to_vec(),
            PlainSessionKey::V5 { key } => key.as_ref().to_vec(),
        };
        if key != sk {
            return Err(format!("session key differs after PKESK v6={v6form} round trip"));
        }
    }
    Ok(())
}

fn leading_zero_classes(key: &SignedSecretKey, classes: &mut Vec<&'static str>) {
    // output classes that cannot be forced: short MPIs in signatures
    let mut sigs: Vec<&pgp::packet::Signature> = Vec::new();
    sigs.extend(key.details.direct_signatures.iter());
    for u in &key.details.users {
        sigs.extend(u.signatures.iter());
    }
    for s in &key.secret_subkeys {
        sigs.extend(s.signatures.iter());
    }
    for s in sigs {
        if let Some(SignatureBytes::Mpis(m)) = s.signature() {
            let lens: Vec<usize> = m.iter().map(|x| x.as_ref().len()).collect();
            if lens.len() == 2 && lens[0] != lens[1] {
                classes.push("signature-with-short-r-or-s");
            }
        }
    }
}

pub fn run(c: &Case) -> Outcome {
    let s = &c.shape;
    let legal = expected_legal(s);
    let key = match build(c) {
        Err(e) => {
            return if legal {
                Outcome::bad(
                    "C07:legal-shape-rejected-by-builder",
                    format!("{s:?}: {e}"),
                )
            } else {
                Outcome::ok("illegal-shape:rejected@validate")
            }
        }
        Ok(Err(e)) => {
            return if legal {
                Outcome::bad("C07:generate-fails", format!("{s:?} seed {}: {e}", c.seed))
            } else {
                Outcome::ok("illegal-shape:rejected@generate")
            }
        }
        Ok(Ok(k)) => k,
    };
    if !legal {
        return Outcome::bad(
            "C07:illegal-shape-accepted",
            format!("{s:?}: key generation succeeded for a shape RFC 9580 forbids"),
        );
    }
    let mut o = Outcome::ok("valid");
    let ctx = format!(
        "{s:?} seed {} force {:?}/{}",
        c.seed, c.force_draw, c.mode
    );
    let fail = |o: &mut Outcome, sig: &str, e: String| {
        o.push(format!("C07:{sig}"), format!("{ctx}: {e}"));
    };
    let mut classes: Vec<&'static str> = Vec::new();
    leading_zero_classes(&key, &mut classes);
    if let Some(cl) = classes.first() {
        o.class = format!("valid:{cl}");
    }

    if let Err(e) = key.verify_bindings() {
        fail(&mut o, "secret-key-bindings-do-not-verify", e.to_string());
    }
    let public = key.to_public_key();
    if let Err(e) = public.verify_bindings() {
        fail(&mut o, "public-key-bindings-do-not-verify", e.to_string());
    }
    // every signing subkey carries a verifying embedded back signature
    for (sub, sk) in s.subs.iter().zip(key.secret_subkeys.iter()) {
        if sub.sign {
            let ok = sk.signatures.iter().any(|sig| {
                sig.embedded_signature()
                    .map(|b| {
                        b.verify_primary_key_binding(sk.key.public_key(), key.primary_key.public_key())
                            .is_ok()
                    })
                    .unwrap_or(false)
            });
            if !ok {
                fail(&mut o, "signing-subkey-without-valid-back-signature", format!("{:?}", sub.alg));
            }
        }
    }
    if key.secret_subkeys.len() != s.subs.len() {
        fail(&mut o, "subkey-count", format!("{} != {}", key.secret_subkeys.len(), s.subs.len()));
    }
    if key.details.users.len() != s.uids as usize {
        fail(&mut o, "user-id-count", format!("{} != {}", key.details.users.len(), s.uids));
    }
    // export / import
    match key.to_bytes() {
        Ok(bytes) => match SignedSecretKey::from_bytes(&bytes[..]) {
            Ok(k2) => {
                if k2 != key {
                    let (a, b) = (format!("{key:#?}"), format!("{k2:#?}"));
                    let d = a
                        .lines()
                        .zip(b.lines())
                        .find(|(x, y)| x != y)
                        .map(|(x, y)| format!("generated `{}` vs re-imported `{}`", x.trim(), y.trim()))
                        .unwrap_or_default();
                    fail(&mut o, "binary-reimport-differs", d);
                }
                match k2.to_bytes() {
                    Ok(b2) if b2 == bytes => {}
                    _ => fail(&mut o, "reserialisation-not-identical", String::new()),
                }
                if key.write_len() != bytes.len() {
                    fail(&mut o, "write_len-differs", format!("{} vs {}", key.write_len(), bytes.len()));
                }
            }
            Err(e) => fail(&mut o, "binary-reimport-fails", e.to_string()),
        },
        Err(e) => fail(&mut o, "to_bytes-fails", e.to_string()),
    }
    match key.to_armored_string(None.into()) {
        Ok(a) => match SignedSecretKey::from_string(&a) {
            Ok((k2, _)) => {
                if k2 != key {
                    fail(&mut o, "armored-reimport-differs", String::new());
                }
            }
            Err(e) => fail(&mut o, "armored-reimport-fails", e.to_string()),
        },
        Err(e) => fail(&mut o, "to_armored_string-fails", e.to_string()),
    }
    match public.to_bytes() {
        Ok(bytes) => match pgp::composed::SignedPublicKey::from_bytes(&bytes[..]) {
            Ok(p2) => {
                if p2 != public {
                    fail(&mut o, "public-reimport-differs", String::new());
                }
                if public.write_len() != bytes.len() {
                    fail(&mut o, "public-write_len-differs", format!("{} vs {}", public.write_len(), bytes.len()));
                }
            }
            Err(e) => fail(&mut o, "public-reimport-fails", e.to_string()),
        },
        Err(e) => fail(&mut o, "public-to_bytes-fails", e.to_string()),
    }
    // flags / preferences as requested
    let pref_sig = if s.v6 {
        key.details.direct_signatures.first()
    } else {
        key.details.users.first().and_then(|u| u.signatures.first())
    };
    match pref_sig {
        Some(sig) => {
            let f = sig.key_flags();
            if !f.certify() || !f.sign() || f.encrypt_comms() != (s.primary == Alg::Rsa2048) {
                fail(&mut o, "primary-key-flags-differ", format!("{f:?}"));
            }
            if s.prefs {
                if sig.preferred_symmetric_algs() != [SymmetricKeyAlgorithm::AES256, SymmetricKeyAlgorithm::AES128]
                    || sig.preferred_hash_algs() != [HashAlgorithm::Sha512, HashAlgorithm::Sha256]
                    || sig.preferred_compression_algs() != [CompressionAlgorithm::ZLIB, CompressionAlgorithm::Uncompressed]
                    || sig.preferred_aead_algs() != [(SymmetricKeyAlgorithm::AES256, AeadAlgorithm::Ocb)]
                {
                    fail(&mut o, "preferences-differ", String::new());
                }
            } else if !sig.preferred_symmetric_algs().is_empty() || !sig.preferred_hash_algs().is_empty() {
                fail(&mut o, "preferences-not-empty", String::new());
            }
            match sig.features() {
                Some(ft) => {
                    if !ft.seipd_v1() || ft.seipd_v2() != s.v6 {
                        fail(&mut o, "features-differ", format!("{ft:?}"));
                    }
                }
                None => fail(&mut o, "features-missing", String::new()),
            }
        }
        None => fail(&mut o, "no-self-signature-with-preferences", String::new()),
    }
    for (sub, sk) in s.subs.iter().zip(key.secret_subkeys.iter()) {
        if let Some(sig) = sk.signatures.first() {
            let f = sig.key_flags();
            if f.sign() != sub.sign || f.encrypt_comms() != (sub.encrypt && sub.caps != 1) || f.encrypt_storage() != (sub.encrypt && sub.caps != 2) {
                fail(&mut o, "subkey-flags-differ", format!("{:?}: {f:?}", sub.alg));
            }
        }
    }
    // the keys actually work
    let ppw = if s.lock != 0 { Password::from(PW) } else { Password::empty() };
    if let Err(e) = sign_verify(&key.primary_key, key.primary_key.public_key(), &ppw, s.primary.sign_hash(), c.seed) {
        fail(&mut o, "primary-cannot-sign-and-verify", e);
    }
    if s.lock != 0 {
        // a wrong password must not work
        let cfg = SignatureConfig::from_key(crate::engine::rng(1), &key.primary_key, SignatureType::Binary);
        if let Ok(cfg) = cfg {
            if cfg.sign(&key.primary_key, &Password::from("wrong"), &b"x"[..]).is_ok() {
                fail(&mut o, "locked-primary-usable-with-wrong-password", String::new());
            }
        }
        if key.primary_key.unlock(&Password::from("wrong"), |_, _| Ok(())).map(|r| r.is_ok()).unwrap_or(false) {
            fail(&mut o, "locked-primary-unlocks-with-wrong-password", String::new());
        }
        if !key.primary_key.unlock(&ppw, |_, _| Ok(())).map(|r| r.is_ok()).unwrap_or(false) {
            fail(&mut o, "locked-primary-does-not-unlock", String::new());
        }
    }
    if s.primary == Alg::Rsa2048 {
        if let Err(e) = enc_roundtrip(key.primary_key.public_key(), &key.primary_key, &ppw, s.v6, c.seed) {
            fail(&mut o, "primary-cannot-encrypt-and-decrypt", e);
        }
    }
    for (sub, sk) in s.subs.iter().zip(key.secret_subkeys.iter()) {
        let pw = sub_pw(s, sub);
        if sub.sign {
            if let Err(e) = sign_verify(&sk.key, sk.key.public_key(), &pw, sub.alg.sign_hash(), c.seed + 3) {
                fail(&mut o, "subkey-cannot-sign-and-verify", format!("{:?}: {e}", sub.alg));
            }
        }
        if sub.encrypt {
            if let Err(e) = enc_roundtrip(sk.key.public_key(), &sk.key, &pw, s.v6, c.seed + 5) {
                fail(&mut o, "subkey-cannot-encrypt-and-decrypt", format!("{:?}: {e}", sub.alg));
            }
        }
        if sub.lock != 0 {
            let wrong = if sub.lock == 1 { Password::from(SUBPW) } else { Password::from(PW) };
            if sk.key.unlock(&wrong, |_, _| Ok(())).map(|r| r.is_ok()).unwrap_or(false) {
                fail(&mut o, "locked-subkey-unlocks-with-another-password", format!("{:?} lock {}", sub.alg, sub.lock));
            }
            if !sk.key.unlock(&pw, |_, _| Ok(())).map(|r| r.is_ok()).unwrap_or(false) {
                fail(&mut o, "locked-subkey-does-not-unlock-with-its-password", format!("{:?} lock {}", sub.alg, sub.lock));
            }
        } else if s.lock != 0 {
            // an unlocked subkey of a locked primary is usable without password
            if !sk.key.unlock(&Password::empty(), |_, _| Ok(())).map(|r| r.is_ok()).unwrap_or(false) {
                fail(&mut o, "unlocked-subkey-needs-a-password", format!("{:?}", sub.alg));
            }
        }
    }
    // the passwords removed in place (primary and every locked subkey): still one certificate,
    // equal to itself after export and re-import, usable without a password
    if s.lock != 0 || s.subs.iter().any(|x| x.lock != 0) {
        let mut un = key.clone();
        let mut ok = true;
        if s.lock != 0 {
            if let Err(e) = un.primary_key.remove_password(&ppw) {
                fail(&mut o, "remove_password-fails-on-primary", e.to_string());
                ok = false;
            }
        }
        for (sub, sk) in s.subs.iter().zip(un.secret_subkeys.iter_mut()) {
            if sub.lock != 0 {
                if let Err(e) = sk.key.remove_password(&sub_pw(s, sub)) {
                    fail(&mut o, "remove_password-fails-on-subkey", format!("{:?} lock {}: {e}", sub.alg, sub.lock));
                    ok = false;
                }
            }
        }
        if ok {
            match un.to_bytes() {
                Ok(bytes) => {
                    if un.write_len() != bytes.len() {
                        fail(&mut o, "after-remove_password:write_len-differs", format!("{} vs {}", un.write_len(), bytes.len()));
                    }
                    match SignedSecretKey::from_bytes(&bytes[..]) {
                        Ok(k2) => {
                            if k2 != un {
                                let (a, b) = (format!("{un:#?}"), format!("{k2:#?}"));
                                let d = a.lines().zip(b.lines()).find(|(x, y)| x != y).map(|(x, y)| format!("in memory `{}` vs re-imported `{}`", x.trim(), y.trim())).unwrap_or_default();
                                fail(&mut o, "after-remove_password:binary-reimport-differs", d);
                            }
                        }
                        Err(e) => fail(&mut o, "after-remove_password:binary-reimport-fails", e.to_string()),
                    }
                }
                Err(e) => fail(&mut o, "after-remove_password:to_bytes-fails", e.to_string()),
            }
            if let Err(e) = un.verify_bindings() {
                fail(&mut o, "after-remove_password:bindings-do-not-verify", e.to_string());
            }
            if !un.primary_key.unlock(&Password::empty(), |_, _| Ok(())).map(|r| r.is_ok()).unwrap_or(false)
                || un.secret_subkeys.iter().any(|sk| !sk.key.unlock(&Password::empty(), |_, _| Ok(())).map(|r| r.is_ok()).unwrap_or(false))
            {
                fail(&mut o, "after-remove_password:still-needs-a-password", String::new());
            }
        }
    }
    o
}

fn shapes(quick: bool) -> Vec<Shape> {
    let primaries_v4 = [
        Alg::Ed25519Legacy,
        Alg::Ed25519,
        Alg::EcdsaP256,
        Alg::EcdsaP384,
        Alg::EcdsaP521,
        Alg::EcdsaK256,
    ];
    let primaries_v6 = [Alg::Ed25519, Alg::Ed448, Alg::EcdsaP256, Alg::EcdsaP384, Alg::EcdsaP521, Alg::EcdsaK256];
    let enc_subs_v4 = [Alg::EcdhP256, Alg::EcdhP384, Alg::EcdhP521, Alg::EcdhCv25519, Alg::X25519, Alg::X448];
    let enc_subs_v6 = [Alg::EcdhP256, Alg::EcdhP384, Alg::EcdhP521, Alg::X25519, Alg::X448];
    let mut v = Vec::new();
    for v6 in [false, true] {
        let prim: &[Alg] = if v6 { &primaries_v6 } else { &primaries_v4 };
        let encs: &[Alg] = if v6 { &enc_subs_v6 } else { &enc_subs_v4 };
        for &primary in prim {
            let mut subsets: Vec<Vec<Sub>> = vec![vec![]];
            for &e in encs {
                subsets.push(vec![Sub { alg: e, sign: false, encrypt: true, lock: 0, caps: 0 }]);
            }
            // the narrower encryption capabilities
            for caps in [1u8, 2] {
                subsets.push(vec![Sub { alg: encs[encs.len() - 2], sign: false, encrypt: true, lock: 0, caps }]);
                subsets.push(vec![Sub { alg: encs[0], sign: false, encrypt: true, lock: 0, caps }]);
            }
            for sa in [Alg::Ed25519, Alg::EcdsaP256] {
                subsets.push(vec![Sub { alg: sa, sign: true, encrypt: false, lock: 0, caps: 0 }]);
                subsets.push(vec![
                    Sub { alg: encs[0], sign: false, encrypt: true, lock: 0, caps: 0 },
                    Sub { alg: sa, sign: true, encrypt: false, lock: 0, caps: 0 },
                ]);
            }
            for subs in subsets {
                for lock in 0..3u8 {
                    for uids in 0..4u8 {
                        for prefs in [false, true] {
                            // thin out the product in the quick tier: keep all pairs (lock,uids,prefs) for
                            // the first subkey set, and a diagonal for the others
                            if quick && !subs.is_empty() && (uids + lock + prefs as u8) % 3 != 0 {
                                continue;
                            }
                            let mut subs2 = subs.clone();
                            for (i, s) in subs2.iter_mut().enumerate() {
                                s.lock = if lock == 0 { if uids == 3 && i == 0 { 2 } else { 0 } } else { ((uids as usize + i) % 3) as u8 };
                            }
                            v.push(Shape {
                                v6,
                                primary,
                                subs: subs2,
                                lock,
                                uids,
                                prefs,
                                subkey_v6: None,
                            });
                        }
                    }
                }
            }
        }
    }
    // illegal mixes: must be rejected
    for v6 in [false, true] {
        v.push(Shape {
            v6,
            primary: Alg::Ed25519,
            subs: vec![Sub { alg: Alg::X25519, sign: false, encrypt: true, lock: 0, caps: 0 }],
            lock: 0,
            uids: 1,
            prefs: false,
            subkey_v6: Some(!v6),
        });
        v.push(Shape {
            v6,
            primary: Alg::X25519,
            subs: vec![],
            lock: 0,
            uids: 1,
            prefs: false,
            subkey_v6: None,
        });
        v.push(Shape {
            v6,
            primary: Alg::Ed25519,
            subs: vec![Sub { alg: Alg::X25519, sign: true, encrypt: false, lock: 0, caps: 0 }],
            lock: 0,
            uids: 1,
            prefs: false,
            subkey_v6: None,
        });
        v.push(Shape {
            v6,
            primary: Alg::Ed25519,
            subs: vec![Sub { alg: Alg::Ed25519, sign: false, encrypt: true, lock: 0, caps: 0 }],
            lock: 0,
            uids: 1,
            prefs: false,
            subkey_v6: None,
        });
    }
    v.push(Shape {
        v6: true,
        primary: Alg::Ed25519Legacy,
        subs: vec![],
        lock: 0,
        uids: 1,
        prefs: false,
        subkey_v6: None,
    });
    v.push(Shape {
        v6: true,
        primary: Alg::Ed25519,
        subs: vec![Sub { alg: Alg::EcdhCv25519, sign: false, encrypt: true, lock: 0, caps: 0 }],
        lock: 0,
        uids: 1,
        prefs: false,
        subkey_v6: None,
    });
    v
}

fn base_shape(v6: bool, primary: Alg, sub: Option<Sub>) -> Shape {
    Shape {
        v6,
        primary,
        subs: sub.into_iter().collect(),
        lock: 0,
        uids: 1,
        prefs: false,
        subkey_v6: None,
    }
}

pub fn check(ctx: &Ctx) {
    let quick = ctx.tier == Tier::Quick;
    // the full shape product takes seconds: no thinning in the quick tier any more
    let sh = shapes(false);
    ctx.run_space(
        "configuration_matrix",
        true,
        "{v4,v6} x primary {Ed25519Legacy(v4), Ed25519, Ed448(v6), ECDSA P-256/P-384/P-521/secp256k1} x subkey sets {none, each of ECDH P-256/P-384/P-521/Cv25519(v4), X25519, X448 (encryption capability both / storage only / communication only), a signing subkey (Ed25519 / ECDSA P-256), encryption+signing} x {unlocked, CFB-locked, AEAD-locked} x user ids 0..3 x preferences {none, set} (+ subkey lock variants; quick tier thins the last three dimensions to a covering diagonal for non-empty subkey sets), plus illegal mixes that must be rejected (v4/v6 subkey mixes, encryption-only primary, wrong capabilities, legacy 25519 in v6, v4 without user id); default rng stream",
        sh.par_iter().map(|s| Case {
            shape: s.clone(),
            seed: 1,
            force_draw: None,
            mode: 0,
        }),
        run,
    );

    // forced draws on a base shape per algorithm
    let mut forced = Vec::new();
    let mut bases = Vec::new();
    for v6 in [false, true] {
        let prim: Vec<Alg> = if v6 {
            vec![Alg::Ed25519, Alg::Ed448, Alg::EcdsaP256, Alg::EcdsaP384, Alg::EcdsaP521, Alg::EcdsaK256]
        } else {
            vec![Alg::Ed25519Legacy, Alg::Ed25519, Alg::EcdsaP256, Alg::EcdsaP384, Alg::EcdsaP521, Alg::EcdsaK256]
        };
        for p in prim {
            bases.push(base_shape(v6, p, None));
        }
        let subs: Vec<Alg> = if v6 {
            vec![Alg::EcdhP256, Alg::EcdhP384, Alg::EcdhP521, Alg::X25519, Alg::X448]
        } else {
            vec![Alg::EcdhP256, Alg::EcdhP384, Alg::EcdhP521, Alg::EcdhCv25519, Alg::X25519, Alg::X448]
        };
        for sa in subs {
            bases.push(base_shape(v6, Alg::Ed25519, Some(Sub { alg: sa, sign: false, encrypt: true, lock: 0, caps: 0 })));
        }
        bases.push(base_shape(v6, Alg::Ed25519, Some(Sub { alg: Alg::EcdsaP256, sign: true, encrypt: false, lock: 0, caps: 0 })));
    }
    for b in &bases {
        // how many draws does the default generation consume?
        let probe = Case {
            shape: b.clone(),
            seed: 2,
            force_draw: None,
            mode: 0,
        };
        let draws = count_draws(&probe);
        for d in 0..draws.min(if quick { 64 } else { 160 }) {
            for mode in 0..5u8 {
                forced.push(Case {
                    shape: b.clone(),
                    seed: 2,
                    force_draw: Some(d),
                    mode,
                });
            }
        }
    }
    ctx.run_space(
        "forced_rng_draws",
        true,
        "for one base shape per primary / subkey algorithm and version: the default ChaCha stream with ONE draw forced - for every draw index the generation consumes (up to 24 / 64) x {first two octets 00, first octet 00, first two octets FF, last octet 00, first and last 00}: reaches secret scalars / seeds / salts with leading and trailing zero octets deterministically",
        forced.into_par_iter(),
        run,
    );

    // seed sweep with measured class coverage
    let nseeds = if quick { 800u64 } else { 8000 };
    let mut sweep = Vec::new();
    for b in bases.iter().filter(|b| {
        matches!(
            b.primary,
            Alg::EcdsaP256 | Alg::EcdsaP384 | Alg::EcdsaP521 | Alg::EcdsaK256 | Alg::Ed25519Legacy
        ) || b.subs.iter().any(|s| matches!(s.alg, Alg::EcdhP256 | Alg::EcdhP384 | Alg::EcdhCv25519 | Alg::EcdsaP256))
    }) {
        let mut b = b.clone();
        b.uids = 3;
        for seed in 100..100 + nseeds {
            sweep.push(Case {
                shape: b.clone(),
                seed,
                force_draw: None,
                mode: 0,
            });
        }
    }
    ctx.run_space(
        "seed_sweep",
        true,
        &format!("every seed in 100..{} for the MPI-carrying shapes (ECDSA primaries, EdDSA-legacy, ECDH subkeys, ECDSA signing subkey; 3 user ids => 3-5 self-signatures each): covers output classes that cannot be forced (short r / s in binding signatures, short public point coordinates); the class histogram in the evidence shows how many seeds hit them", 100 + nseeds),
        sweep.into_par_iter(),
        run,
    );

    // RSA (and DSA in the thorough tier): default stream only (forcing prime candidates does not terminate)
    let mut slow = Vec::new();
    for seed in 0..if quick { 6u64 } else { 24 } {
        for v6 in [false, true] {
            slow.push(Case {
                shape: Shape {
                    v6,
                    primary: Alg::Rsa2048,
                    subs: vec![Sub { alg: Alg::Rsa2048, sign: false, encrypt: true, lock: (seed % 3) as u8, caps: 0 }],
                    lock: (seed % 3) as u8,
                    uids: 1 + (seed % 3) as u8,
                    prefs: seed % 2 == 0,
                    subkey_v6: None,
                },
                seed,
                force_draw: None,
                mode: 0,
            });
        }
        if !quick && seed < 4 {
            slow.push(Case {
                shape: base_shape(false, Alg::Dsa2048, None),
                seed,
                force_draw: None,
                mode: 0,
            });
        }
    }
    ctx.run_space(
        "rsa_dsa",
        true,
        "RSA-2048 primary + RSA-2048 encryption subkey, v4 and v6, lock/uid/preference variants, seeds 0..3 (thorough 0..24); DSA-2048 in the thorough tier",
        slow.into_par_iter(),
        run,
    );
    ctx.assume("'for every seed' is decided for the enumerated seeds and forced draws only");
}

fn count_draws(c: &Case) -> u32 {
    // run the generation once with a counting rng
    struct Counting(ScriptedRng, std::sync::Arc<std::sync::atomic::AtomicU32>);
    impl RngCore for Counting {
        fn next_u32(&mut self) -> u32 {
            self.0.next_u32()
        }
        fn next_u64(&mut self) -> u64 {
            self.0.next_u64()
        }
        fn fill_bytes(&mut self, d: &mut [u8]) {
            self.0.fill_bytes(d);
            self.1.store(self.0.draws, std::sync::atomic::Ordering::SeqCst);
        }
        fn try_fill_bytes(&mut self, d: &mut [u8]) -> Result<(), rand::Error> {
            self.fill_bytes(d);
            Ok(())
        }
    }
    impl CryptoRng for Counting {}
    // simplest: generate through the same path as `build`, but we cannot observe the rng after it
    // has been moved; so rebuild the parameters here with a shared counter
    let counter = std::sync::Arc::new(std::sync::atomic::AtomicU32::new(0));
    let s = &c.shape;
    let version = if s.v6 { KeyVersion::V6 } else { KeyVersion::V4 };
    let mut b = SecretKeyParamsBuilder::default();
    b.version(version)
        .key_type(s.primary.key_type())
        .can_certify(true)
        .can_sign(true)
        .created_at(Timestamp::from_secs(KEY_CREATED))
        .passphrase(None)
        .primary_user_id("Primary <primary@example.org>".into());
    for (i, sub) in s.subs.iter().enumerate() {
        let mut sb = SubkeyParamsBuilder::default();
        sb.version(version)
            .key_type(sub.alg.key_type())
            .can_sign(sub.sign)
            .can_encrypt(if sub.encrypt { EncryptionCaps::All } else { EncryptionCaps::None })
            .created_at(Timestamp::from_secs(KEY_CREATED + 1 + i as u32))
            .passphrase(None);
        if let Ok(p) = sb.build() {
            b.subkey(p);
        }
    }
    if let Ok(p) = b.build() {
        let _ = p.generate(Counting(ScriptedRng::new(c.seed, None, 0), counter.clone()));
    }
    counter.load(std::sync::atomic::Ordering::SeqCst)
}

pub fn replay(space: &str, case: &Value) -> Option<Outcome> {
    match space {
        "configuration_matrix" | "forced_rng_draws" | "seed_sweep" | "rsa_dsa" => replay_as(case, run),
        _ => None,
    }
}
