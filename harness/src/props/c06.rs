//! C06 — signature completeness: what any signing API signs, every verify API accepts.
//!
//! Small-scope exhaustive payloads x sign interface x verify interface x key x hash.

use std::io::Read;

use pgp::{
    composed::{
        CleartextSignedMessage, Deserializable, DetachedSignature, Message, MessageBuilder,
        VerificationResult,
    },
    crypto::hash::HashAlgorithm,
    packet::{
        DataMode, LiteralData, Packet, PacketParser, PacketTrait, Signature, SignatureConfig,
        SignatureType,
    },
    ser::Serialize as _,
    types::{Password, VerifyingKey},
};
use rayon::prelude::*;
use serde::{Deserialize, Serialize};
use serde_json::Value;

use crate::{
    common::{self, esc, KeyKind},
    engine::{replay_as, Ctx, Outcome, Tier},
};

pub const SIGMA8: [&[u8]; 8] = [b"\r", b"\n", b"\t", b" ", b"-", b"a", "\u{e9}".as_bytes(), b"\0"];
pub const ABC: [&[u8]; 3] = [b"\r", b"\n", b"x"];

#[derive(Clone, Debug, Hash, Serialize, Deserialize)]
pub struct Case {
    pub p: Vec<u8>,
    pub key: KeyKind,
    /// 0 SHA-256, 1 SHA-512, 2 SHA-384, 3 SHA3-256, 4 SHA3-512, 5 SHA-224, 6 SHA-1, 7 RIPEMD-160, 8 MD5
    pub hash: u8,
    /// the library may refuse to sign with this key / hash combination (that is its policy, not
    /// this property); whatever it does sign must verify everywhere
    #[serde(default)]
    pub may_refuse: bool,
}

fn hash_of(h: u8) -> HashAlgorithm {
    match h {
        0 => HashAlgorithm::Sha256,
        1 => HashAlgorithm::Sha512,
        2 => HashAlgorithm::Sha384,
        3 => HashAlgorithm::Sha3_256,
        4 => HashAlgorithm::Sha3_512,
        5 => HashAlgorithm::Sha224,
        6 => HashAlgorithm::Sha1,
        7 => HashAlgorithm::Ripemd160,
        _ => HashAlgorithm::Md5,
    }
}

/// Third-party certifications across key kinds and versions.
#[derive(Clone, Debug, Hash, Serialize, Deserialize)]
pub struct CertCase {
    pub signer: KeyKind,
    pub signee: KeyKind,
    pub attribute: bool,
}

fn run_third_party(c: &CertCase) -> Outcome {
    use pgp::packet::{SignatureConfig, SignatureType};
    use pgp::types::{KeyDetails, KeyVersion, Tag};
    let signer = common::cert(c.signer, 1);
    let signee = common::cert(c.signee, 2);
    let sk = &signer.primary_key;
    // strong enough for every key kind (P-384 / P-521 / Ed448 refuse shorter digests)
    let hash = HashAlgorithm::Sha512;
    let cfg = match sk.version() {
        KeyVersion::V6 => SignatureConfig::v6(crate::engine::rng(4), SignatureType::CertPositive, sk.algorithm(), hash),
        _ => Ok(SignatureConfig::v4(SignatureType::CertPositive, sk.algorithm(), hash)),
    };
    let what = format!("{:?} certifies a user {} of {:?}", c.signer, if c.attribute { "attribute" } else { "id" }, c.signee);
    let Ok(cfg) = cfg else { return Outcome::bad("C06:third-party:config-error", what) };
    let uid = crate::common::sigs::uid_from_bytes(b"Carol <carol@example.org>").expect("uid");
    let ua = crate::common::sigs::user_attr(b"jpeg-octets");
    let pw = Password::empty();
    let signee_pub = signee.primary_key.public_key();
    let sig = if c.attribute {
        cfg.sign_certification_third_party(sk, &pw, signee_pub, Tag::UserAttribute, &ua)
    } else {
        cfg.sign_certification_third_party(sk, &pw, signee_pub, Tag::UserId, &uid)
    };
    let sig = match sig {
        Ok(s) => s,
        Err(e) => return Outcome::bad("C06:third-party:sign-error", format!("{what}: {e}")),
    };
    let mut o = Outcome::ok("verifies");
    let mut check = |iface: &str, r: Result<(), String>| {
        if let Err(e) = r {
            o.push(format!("C06:third-party->{iface}"), format!("{what}: {e}"));
        }
    };
    let signer_pub = sk.public_key();
    check(
        "Signature::verify_third_party_certification",
        es(if c.attribute {
            sig.verify_third_party_certification(signee_pub, signer_pub, Tag::UserAttribute, &ua)
        } else {
            sig.verify_third_party_certification(signee_pub, signer_pub, Tag::UserId, &uid)
        }),
    );
    // after a trip over the wire
    let reparsed = es(sig.to_bytes()).and_then(|b| crate::common::sigs::sig_from_body(&b));
    check(
        "to_bytes->parse->verify_third_party_certification",
        reparsed.and_then(|s2| {
            es(if c.attribute {
                s2.verify_third_party_certification(signee_pub, signer_pub, Tag::UserAttribute, &ua)
            } else {
                s2.verify_third_party_certification(signee_pub, signer_pub, Tag::UserId, &uid)
            })
        }),
    );
    if !c.attribute {
        // as part of the signee's certificate: SignedUser::verify_third_party
        let su = pgp::types::SignedUser::new(uid.clone(), vec![sig.clone()]);
        check("SignedUser::verify_third_party", es(su.verify_third_party(signee_pub, signer_pub)));
    } else {
        let su = pgp::types::SignedUserAttribute::new(ua.clone(), vec![sig.clone()]);
        check("SignedUserAttribute::verify_third_party", es(su.verify_third_party(signee_pub, signer_pub)));
    }
    o.evals = 3;
    o
}

struct Acc {
    o: Outcome,
    pairs: u64,
    p: Vec<u8>,
    may_refuse: bool,
    refused: u64,
}

impl Acc {
    fn fail(&mut self, sign_if: &str, verify_if: &str, e: impl std::fmt::Display) {
        if self.may_refuse && matches!(verify_if, "sign" | "to_vec" | "to_armored_string" | "data_mode") {
            self.refused += 1;
            return;
        }
        let class = if self.p.last() == Some(&b'\r') {
            ":payload-ends-in-lone-CR"
        } else {
            ""
        };
        self.o.push(
            format!("C06:{sign_if}->{verify_if}{class}"),
            format!(
                "payload \"{}\": signed through {sign_if}, verification through {verify_if} fails: {e}",
                esc(&self.p)
            ),
        );
    }
    fn check(&mut self, sign_if: &str, verify_if: &str, r: Result<(), String>) {
        self.pairs += 1;
        if let Err(e) = r {
            self.fail(sign_if, verify_if, e);
        }
    }
}

fn es<T, E: std::fmt::Display>(r: Result<T, E>) -> Result<T, String> {
    r.map_err(|e| e.to_string())
}

/// A reader delivering `data` in two pieces.
struct TwoPiece<'a> {
    data: &'a [u8],
    cut: usize,
    pos: usize,
}
impl Read for TwoPiece<'_> {
    fn read(&mut self, buf: &mut [u8]) -> std::io::Result<usize> {
        let end = if self.pos < self.cut {
            self.cut
        } else {
            self.data.len()
        };
        let k = (end - self.pos).min(buf.len());
        buf[..k].copy_from_slice(&self.data[self.pos..self.pos + k]);
        self.pos += k;
        Ok(k)
    }
}

fn read_all(msg: &mut Message<'_>, one_byte: bool) -> Result<Vec<u8>, String> {
    let mut out = Vec::new();
    if one_byte {
        let mut b = [0u8; 1];
        loop {
            match msg.read(&mut b) {
                Ok(0) => break,
                Ok(_) => out.push(b[0]),
                Err(e) => return Err(e.to_string()),
            }
        }
    } else {
        es(msg.read_to_end(&mut out))?;
    }
    Ok(out)
}

fn verify_message_bytes(
    bytes: &[u8],
    armored: bool,
    payload: &[u8],
    keys: &[&dyn VerifyingKey],
    one_byte: bool,
) -> Result<(), String> {
    let mut msg = if armored {
        es(Message::from_armor(bytes))?.0
    } else {
        es(Message::from_bytes(bytes))?
    };
    let got = read_all(&mut msg, one_byte)?;
    if got != payload {
        return Err(format!("payload read back as \"{}\"", esc(&got)));
    }
    let res = es(msg.verify_nested(keys))?;
    for (i, r) in res.iter().enumerate() {
        if !matches!(r, VerificationResult::Valid(_)) {
            return Err(format!("signature for key {i} not valid"));
        }
    }
    if keys.len() == 1 {
        es(msg.verify(keys[0]))?;
    }
    Ok(())
}

/// The same for a password-encrypted message: decrypt, read, verify.
fn verify_encrypted_message_bytes(bytes: &[u8], payload: &[u8], keys: &[&dyn VerifyingKey]) -> Result<(), String> {
    let msg = es(Message::from_bytes(bytes))?;
    let mut msg = es(msg.decrypt_with_password(&Password::from("c06-route")))?;
    let got = read_all(&mut msg, false)?;
    if got != payload {
        return Err(format!("payload read back as \"{}\"", esc(&got)));
    }
    let res = es(msg.verify_nested(keys))?;
    for (i, r) in res.iter().enumerate() {
        if !matches!(r, VerificationResult::Valid(_)) {
            return Err(format!("signature for key {i} not valid"));
        }
    }
    Ok(())
}

fn extract_signatures(bytes: &[u8]) -> Vec<Signature> {
    PacketParser::new(bytes)
        .filter_map(|p| match p {
            Ok(Packet::Signature(s)) => Some(s),
            _ => None,
        })
        .collect()
}

fn is_crlf_proper_utf8(p: &[u8]) -> bool {
    if std::str::from_utf8(p).is_err() {
        return false;
    }
    let mut prev = 0u8;
    for &b in p {
        if b == b'\n' && prev != b'\r' {
            return false;
        }
        prev = b;
    }
    true
}

fn run(c: &Case) -> Outcome {
    let cert = common::cert(c.key, 1);
    let cert2 = common::cert(
        if c.key.is_v6() {
            KeyKind::Ed25519V6
        } else {
            KeyKind::Ed25519V4
        },
        2,
    );
    let key = &cert.primary_key;
    let key2 = &cert2.primary_key;
    let pubkey = key.public_key();
    let pubkey2 = key2.public_key();
    let pw = Password::empty();
    let hash = hash_of(c.hash);
    let p = &c.p[..];
    let nontrivial = p.iter().any(|b| matches!(b, b'\r' | b'\n' | b' ' | b'\t' | b'-'));
    let mut a = Acc {
        o: if nontrivial {
            Outcome::ok("all-pairs-verify")
        } else {
            Outcome::trivial("all-pairs-verify")
        },
        pairs: 0,
        p: c.p.clone(),
        may_refuse: c.may_refuse,
        refused: 0,
    };

    // A/B: detached binary and text
    for (name, text) in [("detached-binary", false), ("detached-text", true)] {
        let sig = if text {
            DetachedSignature::sign_text_data(crate::engine::rng(1), key, &pw, hash, p)
        } else {
            DetachedSignature::sign_binary_data(crate::engine::rng(1), key, &pw, hash, p)
        };
        let sig = match sig {
            Ok(s) => s,
            Err(e) => {
                a.fail(name, "sign", e);
                continue;
            }
        };
        a.check(name, "DetachedSignature::verify", es(sig.verify(&pubkey, p)));
        a.check(name, "Signature::verify(reader)", es(sig.signature.verify(&pubkey, p)));
        let bytes = sig.to_bytes().unwrap_or_default();
        a.check(
            name,
            "from_bytes->verify",
            es(DetachedSignature::from_bytes(&bytes[..])).and_then(|s| es(s.verify(&pubkey, p))),
        );
        a.check(
            name,
            "armor->from_armor->verify",
            es(sig.to_armored_bytes(None.into())).and_then(|b| {
                es(DetachedSignature::from_armor_single(&b[..])).and_then(|(s, _)| es(s.verify(&pubkey, p)))
            }),
        );
        // wrapped as a prefixed-signature message: signature packet, literal packet
        let lit = LiteralData::from_bytes("", c.p.clone().into());
        if let Ok(lit) = lit {
            let mut m = Vec::new();
            let r = sig
                .signature
                .to_writer_with_header(&mut m)
                .and_then(|_| lit.to_writer_with_header(&mut m));
            if r.is_ok() {
                a.check(
                    name,
                    "prefixed-message->Message::verify",
                    verify_message_bytes(&m, false, p, &[&pubkey], false),
                );
            }
        }
    }

    // C: low level config, every 2-piece delivery of the data
    for (name, typ) in [("config-binary", SignatureType::Binary), ("config-text", SignatureType::Text)] {
        let cuts: Vec<usize> = if p.len() <= 64 {
            (0..=p.len()).collect()
        } else {
            let n = p.len();
            vec![0, 1, 511, 512, 513, n / 2, n - 3, n - 2, n - 1]
        };
        for cut in cuts {
            if cut >= p.len() && !p.is_empty() {
                continue;
            }
            let cfg = SignatureConfig::from_key(crate::engine::rng(3), key, typ).map(|mut c| {
                c.hash_alg = hash;
                c
            });
            // from_key derives the v6 salt from the key's preferred hash; rebuild for the hash used
            let cfg = match (cfg, c.key.is_v6()) {
                (Ok(_), true) => SignatureConfig::v6(crate::engine::rng(3), typ, pgp::types::KeyDetails::algorithm(key), hash),
                (other, _) => other,
            };
            let sig = cfg.and_then(|cfg| {
                cfg.sign(
                    key,
                    &pw,
                    TwoPiece {
                        data: p,
                        cut,
                        pos: 0,
                    },
                )
            });
            match sig {
                Ok(sig) => a.check(name, "Signature::verify(reader)", es(sig.verify(&pubkey, p))),
                Err(e) => a.fail(name, "sign", e),
            }
        }
    }

    // D/E: message builder, 1 and 2 signers, binary and text signatures
    for (name, text_sig, utf8) in [
        ("builder-binary", false, false),
        ("builder-text-sig-binary-literal", true, false),
        ("builder-text-sig-utf8-literal", true, true),
    ] {
        if utf8 && !is_crlf_proper_utf8(p) {
            continue;
        }
        for two in [false, true] {
            let mut b = MessageBuilder::from_bytes("", c.p.clone());
            if utf8 {
                if let Err(e) = b.data_mode(DataMode::Utf8) {
                    a.fail(name, "data_mode", e);
                    continue;
                }
            }
            if text_sig {
                b.sign_text();
            }
            b.sign(key, Password::empty(), hash);
            if two {
                b.sign(key2, Password::empty(), HashAlgorithm::Sha256);
            }
            let sname = if two {
                format!("{name}-2signers")
            } else {
                name.to_string()
            };
            let keys: Vec<&dyn VerifyingKey> = if two {
                vec![&pubkey, &pubkey2]
            } else {
                vec![&pubkey]
            };
            match b.to_vec(crate::engine::rng(5)) {
                Ok(bytes) => {
                    a.check(&sname, "Message::verify(read_to_end)", verify_message_bytes(&bytes, false, p, &keys, false));
                    a.check(&sname, "Message::verify(1-byte reads)", verify_message_bytes(&bytes, false, p, &keys, true));
                    // cross: the trailing signature packets verified as detached signatures
                    let sigs = extract_signatures(&bytes);
                    if sigs.len() != keys.len() {
                        a.fail(&sname, "extract-signature-packets", format!("{} packets", sigs.len()));
                    }
                    for s in &sigs {
                        let ok = s.verify(&pubkey, p).is_ok() || (two && s.verify(&pubkey2, p).is_ok());
                        a.check(
                            &sname,
                            "extracted-signature->Signature::verify(reader)",
                            if ok { Ok(()) } else { Err("no key verifies the extracted signature over the payload".into()) },
                        );
                    }
                }
                Err(e) => a.fail(&sname, "to_vec", e),
            }
            // the encrypting builders, signers added before and after the transition
            if p.len() <= 3 || p.len() >= 500 {
                use pgp::crypto::{aead::{AeadAlgorithm, ChunkSize}, sym::SymmetricKeyAlgorithm};
                use pgp::types::StringToKey;
                for v2 in [false, true] {
                    for early in [true, false] {
                        let mut b = MessageBuilder::from_bytes("", c.p.clone());
                        if utf8 {
                            let _ = b.data_mode(DataMode::Utf8);
                        }
                        if text_sig {
                            b.sign_text();
                        }
                        if early {
                            b.sign(key, Password::empty(), hash);
                            if two {
                                b.sign(key2, Password::empty(), HashAlgorithm::Sha256);
                            }
                        }
                        let s2k = StringToKey::new_iterated(crate::engine::rng(6), HashAlgorithm::Sha256, 0);
                        let pw = Password::from("c06-route");
                        let built = if v2 {
                            let mut e = b.seipd_v2(crate::engine::rng(7), SymmetricKeyAlgorithm::AES128, AeadAlgorithm::Ocb, ChunkSize::default());
                            if !early {
                                e.sign(key, Password::empty(), hash);
                                if two {
                                    e.sign(key2, Password::empty(), HashAlgorithm::Sha256);
                                }
                            }
                            match e.encrypt_with_password(crate::engine::rng(8), s2k, &pw).map(|_| ()) {
                                Ok(()) => e.to_vec(crate::engine::rng(5)),
                                Err(x) => Err(x),
                            }
                        } else {
                            let mut e = b.seipd_v1(crate::engine::rng(7), SymmetricKeyAlgorithm::AES128);
                            if !early {
                                e.sign(key, Password::empty(), hash);
                                if two {
                                    e.sign(key2, Password::empty(), HashAlgorithm::Sha256);
                                }
                            }
                            match e.encrypt_with_password(s2k, &pw).map(|_| ()) {
                                Ok(()) => e.to_vec(crate::engine::rng(5)),
                                Err(x) => Err(x),
                            }
                        };
                        let route = format!("seipd_v{}({})->decrypt->Message::verify", if v2 { 2 } else { 1 }, if early { "signers added before" } else { "signers added after" });
                        match built {
                            Ok(bytes) => a.check(&sname, &route, verify_encrypted_message_bytes(&bytes, p, &keys)),
                            // (a refusal to sign with this key / hash pair shows here)
                            Err(e) => a.fail(&sname, "to_vec", e),
                        }
                    }
                }
            }
            if !two {
                let mut b = MessageBuilder::from_bytes("", c.p.clone());
                if utf8 {
                    let _ = b.data_mode(DataMode::Utf8);
                }
                if text_sig {
                    b.sign_text();
                }
                b.sign(key, Password::empty(), hash);
                match b.to_armored_string(crate::engine::rng(5), None.into()) {
                    Ok(s) => a.check(
                        &sname,
                        "armored->from_armor->verify",
                        verify_message_bytes(s.as_bytes(), true, p, &keys, false),
                    ),
                    Err(e) => a.fail(&sname, "to_armored_string", e),
                }
            }
        }
    }

    // G: cleartext framework (texts only)
    if let Ok(text) = std::str::from_utf8(p) {
        match CleartextSignedMessage::sign(crate::engine::rng(9), text, key, &pw) {
            Ok(m) => {
                a.check("cleartext-sign", "verify", es(m.verify(&pubkey).map(|_| ())));
                a.check(
                    "cleartext-sign",
                    "armored->from_string->verify",
                    es(m.to_armored_string(None.into())).and_then(|s| {
                        es(CleartextSignedMessage::from_string(&s))
                            .and_then(|(m2, _)| es(m2.verify(&pubkey).map(|_| ())))
                    }),
                );
                // the signature packet is a text signature over the signed form
                let st = m.signed_text();
                for s in m.signatures() {
                    a.check(
                        "cleartext-sign",
                        "Signature::verify(signed_text)",
                        es(s.verify(&pubkey, st.as_bytes())),
                    );
                }
            }
            Err(e) => a.fail("cleartext-sign", "sign", e),
        }
        // the sibling constructors: `new` with a configuration of the hash under test, and
        // `new_many` (the signer callback gets the text to sign) with two signers
        let cfg_for = |k: &pgp::packet::SecretKey, h: HashAlgorithm| -> pgp::errors::Result<SignatureConfig> {
            use pgp::types::KeyDetails;
            let mut cfg = match k.version() {
                pgp::types::KeyVersion::V6 => SignatureConfig::v6(crate::engine::rng(13), SignatureType::Text, k.algorithm(), h)?,
                _ => SignatureConfig::v4(SignatureType::Text, k.algorithm(), h),
            };
            cfg.hashed_subpackets = vec![
                pgp::packet::Subpacket::regular(pgp::packet::SubpacketData::SignatureCreationTime(pgp::types::Timestamp::from_secs(common::NOW)))?,
                pgp::packet::Subpacket::regular(pgp::packet::SubpacketData::IssuerFingerprint(k.fingerprint()))?,
            ];
            Ok(cfg)
        };
        match cfg_for(key, hash).and_then(|cfg| CleartextSignedMessage::new(text, cfg, key, &pw)) {
            Ok(m) => {
                a.check("cleartext-new", "verify", es(m.verify(&pubkey).map(|_| ())));
                a.check(
                    "cleartext-new",
                    "armored->from_string->verify",
                    es(m.to_armored_string(None.into())).and_then(|s| es(CleartextSignedMessage::from_string(&s)).and_then(|(m2, _)| es(m2.verify(&pubkey).map(|_| ())))),
                );
            }
            Err(e) => a.fail("cleartext-new", "sign", e),
        }
        // a configuration that names no issuer at all (the verifier is told the key)
        let bare = |k: &pgp::packet::SecretKey, h: HashAlgorithm| -> pgp::errors::Result<SignatureConfig> {
            let mut cfg = cfg_for(k, h)?;
            cfg.hashed_subpackets.truncate(1);
            cfg.unhashed_subpackets.clear();
            Ok(cfg)
        };
        match bare(key, hash).and_then(|cfg| CleartextSignedMessage::new(text, cfg, key, &pw)) {
            Ok(m) => {
                a.check("cleartext-new(no issuer subpackets)", "verify", es(m.verify(&pubkey).map(|_| ())));
                a.check(
                    "cleartext-new(no issuer subpackets)",
                    "armored->from_string->verify",
                    es(m.to_armored_string(None.into())).and_then(|s| es(CleartextSignedMessage::from_string(&s)).and_then(|(m2, _)| es(m2.verify(&pubkey).map(|_| ())))),
                );
            }
            Err(e) => a.fail("cleartext-new(no issuer subpackets)", "sign", e),
        }
        // the same kind of signature made detached: Signature::verify with the key given
        match bare(key, hash).and_then(|cfg| cfg.sign(key, &pw, text.as_bytes())) {
            Ok(sig) => a.check("config-sign(no issuer subpackets)", "Signature::verify", es(sig.verify(&pubkey, text.as_bytes()))),
            Err(e) => a.fail("config-sign(no issuer subpackets)", "sign", e),
        }
        let many = CleartextSignedMessage::new_many(text, |to_sign| {
            let s1 = cfg_for(key, hash)?.sign(key, &pw, to_sign.as_bytes())?;
            let s2 = cfg_for(key2, HashAlgorithm::Sha512)?.sign(key2, &pw, to_sign.as_bytes())?;
            Ok(vec![s1, s2])
        });
        match many {
            Ok(m) => {
                a.check("cleartext-new_many", "verify(first signer)", es(m.verify(&pubkey).map(|_| ())));
                a.check("cleartext-new_many", "verify(second signer)", es(m.verify(&pubkey2).map(|_| ())));
                a.check(
                    "cleartext-new_many",
                    "armored->from_string->verify(both)",
                    es(m.to_armored_string(None.into())).and_then(|s| {
                        es(CleartextSignedMessage::from_string(&s)).and_then(|(m2, _)| es(m2.verify(&pubkey).map(|_| ())).and_then(|_| es(m2.verify(&pubkey2).map(|_| ()))))
                    }),
                );
            }
            Err(e) => a.fail("cleartext-new_many", "sign", e),
        }
    }

    a.o.evals = a.pairs.max(1);
    if c.may_refuse && a.o.viol.is_empty() {
        a.o.class = if a.pairs == 0 { "refused-to-sign".into() } else if a.refused > 0 { "partly-refused:rest-verifies".into() } else { "all-pairs-verify".into() };
    }
    a.o
}

pub fn check(ctx: &Ctx) {
    // the former thorough bounds take seconds: they are the quick tier now; `deep` = thorough
    let quick = false;
    #[allow(unused_variables)]
    let deep = ctx.tier == Tier::Thorough;
    let mut payloads = common::all_strings(&SIGMA8, if quick { 3 } else if deep { 5 } else { 4 });
    payloads.extend(
        common::all_strings(&ABC, if quick { 7 } else if deep { 10 } else { 9 })
            .into_iter()
            .filter(|s| s.len() > 3 || s.contains(&b'x')),
    );
    payloads.sort();
    payloads.dedup();
    let mut cases = Vec::new();
    for (i, p) in payloads.iter().enumerate() {
        // every payload with the v4 and the v6 Ed25519 key; the other algorithms on the short ones
        cases.push(Case {
            p: p.clone(),
            key: KeyKind::Ed25519V4,
            hash: (i % 2) as u8,
            may_refuse: false,
        });
        cases.push(Case {
            p: p.clone(),
            key: KeyKind::Ed25519V6,
            hash: ((i + 1) % 2) as u8,
            may_refuse: false,
        });
        if p.len() <= 2 || (!quick && p.len() <= 3) {
            for (key, hash) in [
                (KeyKind::EcdsaP256V4, 0u8),
                (KeyKind::EcdsaP256V6, 1),
                (KeyKind::Ed25519LegacyV4, 2),
                (KeyKind::Rsa2048V4, 0),
                (KeyKind::Ed448V6, 1),
            ] {
                if key == KeyKind::Rsa2048V4 && p.len() > 1 && quick {
                    continue;
                }
                cases.push(Case {
                    p: p.clone(),
                    key,
                    hash,
                    may_refuse: false,
                });
            }
        }
    }
    // payloads that look like armor framing / dash lines (cleartext framework and text mode)
    for l in super::c16::LINES {
        for pre in ["", "a\n", "-\r\n"] {
            for post in ["", "\n"] {
                cases.push(Case {
                    p: format!("{pre}{l}{post}").into_bytes(),
                    key: KeyKind::Ed25519V4,
                    hash: 0,
                    may_refuse: false,
                });
            }
        }
    }
    // payloads that end exactly at the internal window / buffer edges (512, 1024, 8192)
    for edge in [512usize, 1024, 8192] {
        for w in common::all_strings(&ABC, 2) {
            if w.is_empty() {
                continue;
            }
            for extra in [0usize, 1] {
                let mut p = vec![b'x'; edge - w.len() + extra];
                p.extend_from_slice(&w);
                cases.push(Case {
                    p,
                    key: KeyKind::Ed25519V4,
                    hash: 0,
                    may_refuse: false,
                });
            }
        }
    }
    // make sure the keys exist before going parallel (RSA generation is slow)
    for k in [
        KeyKind::Ed25519V4,
        KeyKind::Ed25519V6,
        KeyKind::EcdsaP256V4,
        KeyKind::EcdsaP256V6,
        KeyKind::Ed25519LegacyV4,
        KeyKind::Rsa2048V4,
        KeyKind::Ed448V6,
    ] {
        common::cert(k, 1);
    }
    common::cert(KeyKind::Ed25519V4, 2);
    common::cert(KeyKind::Ed25519V6, 2);
    // key kind x hash algorithm, completely
    let all_kinds = [
        KeyKind::Ed25519V4,
        KeyKind::Ed25519V6,
        KeyKind::Ed25519LegacyV4,
        KeyKind::Ed448V6,
        KeyKind::EcdsaP256V4,
        KeyKind::EcdsaP256V6,
        KeyKind::EcdsaP384V4,
        KeyKind::EcdsaP521V4,
        KeyKind::EcdsaK256V4,
        KeyKind::Rsa2048V4,
        KeyKind::Rsa2048V6,
    ];
    for k in all_kinds {
        common::cert(k, 1);
        common::cert(k, 2);
    }
    let mut matrix = Vec::new();
    for key in all_kinds {
        for hash in 0..=8u8 {
            for p in [&b""[..], b"ab\nc \r\n-d"] {
                matrix.push(Case { p: p.to_vec(), key, hash, may_refuse: true });
            }
        }
    }
    ctx.run_space(
        "key_x_hash_matrix",
        true,
        "ALL 11 key kinds (Ed25519 v4/v6/legacy, Ed448, ECDSA P-256 v4/v6, P-384, P-521, secp256k1, RSA-2048 v4/v6) x ALL 9 hash algorithms (SHA-256/512/384, SHA3-256/512, SHA-224, SHA-1, RIPEMD-160, MD5) x 2 payloads through every sign interface; a combination the library refuses to sign with is its policy - every signature it does produce must verify through every interface",
        matrix.into_par_iter(),
        run,
    );
    let mut tp = Vec::new();
    for signer in all_kinds {
        for signee in all_kinds {
            for attribute in [false, true] {
                tp.push(CertCase { signer, signee, attribute });
            }
        }
    }
    ctx.run_space(
        "third_party_certifications",
        true,
        "third-party certifications (0x13) by each of 11 key kinds over a user id / user attribute of each of 11 key kinds (all 121 pairs incl. v4 certifying v6 and v6 certifying v4): sign_certification_third_party, then Signature::verify_third_party_certification directly, after to_bytes -> parse, and SignedUser::verify_third_party",
        tp.into_par_iter(),
        run_third_party,
    );
    ctx.run_space(
        "sign_x_verify",
        true,
        "payloads: all strings over {CR,LF,TAB,SP,'-','a',e-acute,NUL} up to length 4 (thorough 5) and over {CR,LF,x} up to length 9 (10); for each: detached binary/text, SignatureConfig::sign with every 2-piece delivery, MessageBuilder (binary, text sig over binary literal, text sig over utf8 literal; 1 and 2 signers; binary and armored; for the shortest and the boundary payloads also through seipd_v1 / seipd_v2 with the signers added before and after the transition), cleartext framework through sign / new (hash under test; also with a configuration that carries no issuer subpackets) / new_many (two signers, two hashes) -- each verified through every applicable interface (direct, after to_bytes/from_bytes, after armor, inline after read_to_end and after 1-byte reads, signature packet extracted from a message and verified as detached, detached signature wrapped as a prefixed-signature message). Every payload with Ed25519 v4 and v6 (SHA-256/512 alternating); ECDSA P-256 v4/v6, EdDSA-legacy, RSA-2048, Ed448 on the short payloads; plus dash/armor-boundary lines (alone, as second line, with final newline), plus payloads x^n.w (w over {CR,LF,x}, |w|<=2) ending exactly at / one past 512, 1024, 8192. evaluations = (sign,verify) pairs.",
        cases.into_par_iter(),
        run,
    );
}

pub fn replay(space: &str, case: &Value) -> Option<Outcome> {
    match space {
        "sign_x_verify" | "key_x_hash_matrix" => replay_as(case, run),
        "third_party_certifications" => replay_as(case, run_third_party),
        _ => None,
    }
}
