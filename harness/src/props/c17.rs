//! C17 — packet framing: reader accepts every legal framing, writer emits only legal ones.

use std::io::Read;

use pgp::{
    composed::Message,
    packet::{Packet, PacketParser, PacketTrait},
    ser::Serialize as _,
};
use rayon::prelude::*;
use serde::{Deserialize, Serialize};
use serde_json::Value;

use crate::{
    common::msg::{self, Enc, MsgCfg},
    engine::{replay_as, Ctx, Outcome, Tier},
    reference::{
        crypto as cmodel,
        frame::{self, LenForm, DATA_TAGS},
    },
};

const FORMS: [LenForm; 7] = [
    LenForm::New1,
    LenForm::New2,
    LenForm::New5,
    LenForm::Old1,
    LenForm::Old2,
    LenForm::Old4,
    LenForm::OldIndeterminate,
];

/// a body that is valid content for the tag (so that the value can be compared), of about n octets
fn body_for(tag: u8, n: usize) -> Vec<u8> {
    let fill = |k: usize| -> Vec<u8> { (0..k).map(|i| (i as u8).wrapping_mul(13).wrapping_add(tag)).collect() };
    match tag {
        11 => {
            // literal: mode, name len, date, data
            let mut b = vec![b'b', 0, 0, 0, 0, 0];
            b.extend(fill(n.saturating_sub(6)));
            b
        }
        8 => {
            // compressed: algorithm 0 (uncompressed) + payload
            let mut b = vec![0u8];
            b.extend(fill(n.saturating_sub(1)));
            b
        }
        10 => b"PGP".to_vec(),
        18 => {
            let mut b = vec![1u8];
            b.extend(fill(n.saturating_sub(1)));
            b
        }
        19 => fill(20),
        _ => fill(n),
    }
}

fn err_class(e: &pgp::errors::Error) -> String {
    let d = format!("{e:?}");
    d.split(|c: char| !c.is_alphanumeric()).next().unwrap_or("").to_string()
}

/// Observation of a packet stream through PacketParser: per packet (tag, body) or the error class.
fn observe(stream: &[u8]) -> Vec<Result<(u8, Vec<u8>), String>> {
    let mut out = Vec::new();
    for p in PacketParser::new(stream) {
        match p {
            Ok(p) => out.push(Ok((u8::from(p.tag()), packet_body(&p)))),
            Err(e) => out.push(Err(err_class(&e))),
        }
        if out.len() > 8 {
            break;
        }
    }
    out
}

/// body octets of a parsed packet (without the packet header)
fn packet_body(p: &Packet) -> Vec<u8> {
    let r = match p {
        Packet::CompressedData(x) => x.to_bytes(),
        Packet::PublicKey(x) => x.to_bytes(),
        Packet::PublicSubkey(x) => x.to_bytes(),
        Packet::SecretKey(x) => x.to_bytes(),
        Packet::SecretSubkey(x) => x.to_bytes(),
        Packet::LiteralData(x) => x.to_bytes(),
        Packet::Marker(x) => x.to_bytes(),
        Packet::ModDetectionCode(x) => x.to_bytes(),
        Packet::OnePassSignature(x) => x.to_bytes(),
        Packet::PublicKeyEncryptedSessionKey(x) => x.to_bytes(),
        Packet::Signature(x) => x.to_bytes(),
        Packet::SymEncryptedData(x) => x.to_bytes(),
        Packet::SymEncryptedProtectedData(x) => x.to_bytes(),
        Packet::SymKeyEncryptedSessionKey(x) => x.to_bytes(),
        Packet::Trust(x) => x.to_bytes(),
        Packet::UserAttribute(x) => x.to_bytes(),
        Packet::UserId(x) => x.to_bytes(),
        Packet::Padding(x) => x.to_bytes(),
        Packet::GnupgAeadData(x) => x.to_bytes(),
    };
    r.unwrap_or_else(|e| format!("<serialisation error {e}>").into_bytes())
}

const MARKER: [u8; 5] = [0xCA, 0x03, b'P', b'G', b'P'];

#[derive(Clone, Debug, Hash, Serialize, Deserialize)]
pub struct FixedCase {
    pub tag: u8,
    pub n: usize,
    pub form: LenForm,
}

fn run_fixed(c: &FixedCase) -> Outcome {
    let body = body_for(c.tag, c.n);
    let Some(framed) = frame::frame(c.tag, &body, c.form) else {
        return Outcome::trivial("form-not-applicable");
    };
    let canon = frame::frame_min(c.tag, &body);
    let follower = c.form != LenForm::OldIndeterminate;
    let mut s1 = framed.clone();
    let mut s0 = canon.clone();
    if follower {
        s1.extend_from_slice(&MARKER);
        s0.extend_from_slice(&MARKER);
    }
    let o1 = observe(&s1);
    let o0 = observe(&s0);
    if o1 == o0 {
        let class = match o0.first() {
            Some(Ok(_)) => "same-value",
            Some(Err(_)) => "same-error-class",
            None => "empty",
        };
        let mut o = Outcome::ok(class);
        o.nontrivial = c.form != LenForm::New1 || c.n >= 192;
        // the value must carry exactly the framed body
        if let Some(Ok((t, b))) = o1.first() {
            if *t != c.tag || (c.tag == 11 && b != &body) {
                o.push(
                    "C17:fixed:value-differs-from-body",
                    format!("tag {} n {} form {:?}: parsed tag {t}, {} body octets", c.tag, body.len(), c.form, b.len()),
                );
            }
        }
        // writing what was read: the parsed packet serialised again is a truthful framing of the
        // same body (a legacy header stays a legacy header of the right length type)
        {
            use pgp::ser::Serialize as _;
            if let Some(Ok(p)) = pgp::packet::PacketParser::new(&framed[..]).next() {
                if let Ok(written) = p.to_bytes() {
                    match frame::deframe(&written) {
                        Ok(fr) if fr.len() == 1 && fr[0].tag == c.tag && (c.tag != 11 || fr[0].body == body) && fr[0].body.len() == packet_body(&p).len() => {
                            if p.write_len() != written.len() {
                                o.push("C17:fixed:rewritten-packet-length-query-differs", format!("tag {} n {} form {:?}: write_len {} for {} octets", c.tag, body.len(), c.form, p.write_len(), written.len()));
                            }
                        }
                        other => o.push(
                            "C17:fixed:rewritten-packet-not-a-truthful-framing",
                            format!("tag {} n {} read from {:?} framing: written as {} octets that deframe to {:?}", c.tag, body.len(), c.form, written.len(), other.map(|f| f.iter().map(|x| (x.tag, x.body.len())).collect::<Vec<_>>()).map_err(|e| format!("{e:?}"))),
                        ),
                    }
                }
            }
        }
        if follower && o1.len() != 2 {
            o.push(
                "C17:fixed:following-packet-lost",
                format!("tag {} n {} form {:?}: {} packets seen, expected 2", c.tag, body.len(), c.form, o1.len()),
            );
        }
        o
    } else {
        Outcome::bad(
            format!("C17:fixed:{:?}:parsed-differently-from-canonical-framing", c.form),
            format!(
                "tag {} body {} octets framed as {:?}: {:?} vs canonical {:?}",
                c.tag,
                body.len(),
                c.form,
                summarize(&o1),
                summarize(&o0)
            ),
        )
    }
}

fn summarize(o: &[Result<(u8, Vec<u8>), String>]) -> Vec<String> {
    o.iter()
        .map(|r| match r {
            Ok((t, b)) => format!("ok(tag {t}, {} octets)", b.len()),
            Err(e) => format!("err({e})"),
        })
        .collect()
}

#[derive(Clone, Debug, Hash, Serialize, Deserialize)]
pub struct PartialCase {
    pub tag: u8,
    pub exps: Vec<u8>,
    pub final_len: usize,
    pub final_form: LenForm,
}

fn run_partial(c: &PartialCase) -> Outcome {
    let total: usize = c.exps.iter().map(|e| 1usize << e).sum::<usize>() + c.final_len;
    let body = body_for(c.tag, total);
    let Some(mut framed) = frame::frame_partial(c.tag, &body, &c.exps, c.final_form) else {
        return Outcome::trivial("form-not-applicable");
    };
    let mut canon = frame::frame_min(c.tag, &body);
    framed.extend_from_slice(&MARKER);
    canon.extend_from_slice(&MARKER);
    let o1 = observe(&framed);
    let o0 = observe(&canon);
    let mut o = Outcome::ok("same-value");
    if o1 != o0 {
        o.push(
            "C17:partial:parsed-differently-from-fixed-framing",
            format!(
                "tag {} chunks 2^{:?} + final {} ({:?}): {:?} vs fixed framing {:?}",
                c.tag,
                c.exps,
                c.final_len,
                c.final_form,
                summarize(&o1),
                summarize(&o0)
            ),
        );
    } else if o1.len() != 2 || (c.tag == 11 && !matches!(o1.first(), Some(Ok(_)))) {
        o.push(
            "C17:partial:legal-framing-rejected",
            format!("tag {} chunks 2^{:?} + final {}: {:?}", c.tag, c.exps, c.final_len, summarize(&o1)),
        );
    }
    // writing what was read: a packet parsed from partial-body framing and serialised again must
    // be a legal, truthful framing of the same body
    {
        use pgp::ser::Serialize as _;
        if let Some(Ok(p)) = pgp::packet::PacketParser::new(&framed[..]).next() {
            match p.to_bytes() {
                Ok(written) => match frame::deframe(&written) {
                    Ok(fr) if fr.len() == 1 && fr[0].tag == c.tag && fr[0].body == body => {
                        if p.write_len() != written.len() {
                            o.push("C17:partial:rewritten-packet-length-query-differs", format!("tag {} chunks 2^{:?} + final {}: write_len {} for {} octets", c.tag, c.exps, c.final_len, p.write_len(), written.len()));
                        }
                    }
                    other => o.push(
                        "C17:partial:rewritten-packet-not-a-truthful-framing",
                        format!("tag {} chunks 2^{:?} + final {}: parsed from partial framing, written as {} octets that deframe to {:?}", c.tag, c.exps, c.final_len, written.len(), other.map(|f| f.iter().map(|x| (x.tag, x.body.len())).collect::<Vec<_>>()).map_err(|e| format!("{e:?}"))),
                    ),
                },
                Err(e) => o.push("C17:partial:parsed-packet-cannot-be-written", format!("tag {} chunks 2^{:?}: {e}", c.tag, c.exps)),
            }
        }
    }
    // the message reader on a literal packet
    if c.tag == 11 {
        let framed_only = &framed[..framed.len() - MARKER.len()];
        match Message::from_bytes(framed_only) {
            Ok(mut m) => {
                let mut data = Vec::new();
                match m.read_to_end(&mut data) {
                    Ok(_) => {
                        if data != body[6..] {
                            o.push(
                                "C17:partial:message-reader-data-differs",
                                format!("chunks 2^{:?} + final {}: {} of {} octets", c.exps, c.final_len, data.len(), body.len() - 6),
                            );
                        }
                    }
                    Err(e) => o.push(
                        "C17:partial:message-reader-rejects-legal-framing",
                        format!("chunks 2^{:?} + final {}: {e}", c.exps, c.final_len),
                    ),
                }
            }
            Err(e) => o.push(
                "C17:partial:message-reader-rejects-legal-framing",
                format!("chunks 2^{:?} + final {}: {e}", c.exps, c.final_len),
            ),
        }
    }
    o
}

#[derive(Clone, Debug, Hash, Serialize, Deserialize)]
pub enum Illegal {
    /// partial length on a non-data tag
    PartialOnTag { tag: u8, exp: u8 },
    /// first partial chunk shorter than 512 on a data tag
    ShortFirst { tag: u8, exp: u8 },
    /// fixed-length packet whose body is `missing` octets shorter than declared (stream ends)
    ShortFixed { tag: u8, n: usize, missing: usize, form: LenForm },
    /// stream ends inside partial chunk number `chunk` (0-based) / inside the final chunk
    ShortPartial { exps: Vec<u8>, final_len: usize, missing: usize },
    /// stream ends right after a complete partial chunk (no terminating length)
    Unterminated { exps: Vec<u8> },
}

fn run_illegal(c: &Illegal) -> Outcome {
    let (stream, what, body_len): (Vec<u8>, String, usize) = match c {
        Illegal::PartialOnTag { tag, exp } => {
            let body: Vec<u8> = (0..(1usize << exp) + 3).map(|i| i as u8).collect();
            let mut s = frame::frame_partial(*tag, &body, &[*exp], LenForm::New1).expect("frame");
            s.extend_from_slice(&MARKER);
            (s, format!("partial length 2^{exp} on tag {tag}"), body.len())
        }
        Illegal::ShortFirst { tag, exp } => {
            let body = body_for(*tag, (1usize << exp) + 600);
            let mut s = frame::frame_partial(*tag, &body, &[*exp], LenForm::New2).expect("frame");
            s.extend_from_slice(&MARKER);
            (s, format!("first partial chunk of 2^{exp} octets on tag {tag}"), body.len())
        }
        Illegal::ShortFixed { tag, n, missing, form } => {
            let body = body_for(*tag, *n);
            let Some(mut s) = frame::frame(*tag, &body, *form) else {
                return Outcome::trivial("form-not-applicable");
            };
            if *missing > body.len() {
                return Outcome::trivial("form-not-applicable");
            }
            s.truncate(s.len() - missing);
            (s, format!("tag {tag} declared {} octets ({form:?}), {missing} missing", body.len()), body.len())
        }
        Illegal::ShortPartial { exps, final_len, missing } => {
            let total: usize = exps.iter().map(|e| 1usize << e).sum::<usize>() + final_len;
            let body = body_for(11, total);
            let Some(mut s) = frame::frame_partial(11, &body, exps, if *final_len < 192 { LenForm::New1 } else { LenForm::New2 }) else {
                return Outcome::trivial("form-not-applicable");
            };
            if *missing > *final_len {
                return Outcome::trivial("form-not-applicable");
            }
            s.truncate(s.len() - missing);
            (s, format!("literal, chunks 2^{exps:?} + final {final_len}, last {missing} octets missing"), body.len())
        }
        Illegal::Unterminated { exps } => {
            let total: usize = exps.iter().map(|e| 1usize << e).sum::<usize>();
            let body = body_for(11, total + 1);
            let s = frame::frame_partial(11, &body, exps, LenForm::New1).expect("frame");
            // drop the final length octet and its one body octet
            let s = s[..s.len() - 2].to_vec();
            (s, format!("literal, chunks 2^{exps:?}, stream ends without a final length"), total)
        }
    };
    let obs = observe(&stream);
    let mut o = Outcome::ok("rejected");
    match obs.first() {
        Some(Err(_)) => {}
        None => {
            // nothing parsed at all: acceptable only if nothing is reported as a value
        }
        Some(Ok((t, b))) => {
            o.push(
                format!("C17:illegal:{}:accepted", c_name(c)),
                format!("{what}: parsed as a packet (tag {t}, {} octets; the framed body has {body_len})", b.len()),
            );
        }
    }
    // the message reader must not return a shortened literal either
    if matches!(c, Illegal::ShortPartial { .. } | Illegal::Unterminated { .. } | Illegal::ShortFirst { tag: 11, .. })
        || matches!(c, Illegal::ShortFixed { tag: 11, .. })
    {
        if let Ok(mut m) = Message::from_bytes(&stream[..]) {
            let mut data = Vec::new();
            if m.read_to_end(&mut data).is_ok() {
                o.push(
                    format!("C17:illegal:{}:message-reader-accepted", c_name(c)),
                    format!("{what}: Message read {} octets to a clean end", data.len()),
                );
            }
        }
    }
    o
}

fn c_name(c: &Illegal) -> &'static str {
    match c {
        Illegal::PartialOnTag { .. } => "partial-on-non-data-tag",
        Illegal::ShortFirst { .. } => "first-partial-under-512",
        Illegal::ShortFixed { .. } => "body-shorter-than-declared",
        Illegal::ShortPartial { .. } => "partial-body-shorter-than-declared",
        Illegal::Unterminated { .. } => "partial-never-terminated",
    }
}

#[derive(Clone, Debug, Hash, Serialize, Deserialize)]
pub struct WrittenCase {
    pub cfg: MsgCfg,
    pub n: usize,
}

fn check_stream(s: &[u8], depth: usize, ctx: &str) -> Result<(), (String, String)> {
    let frames = frame::deframe(s).map_err(|e| {
        (
            "C17:written:illegal-framing".to_string(),
            format!("{ctx}: depth {depth}: {e:?}"),
        )
    })?;
    for f in &frames {
        // partial chunks: powers of two by construction of the encoding; first >= 512 checked by
        // the deframer; all partial chunks of one packet the same size except none
        if f.tag == 8 && depth < 3 && f.body.first() == Some(&0) {
            check_stream(&f.body[1..], depth + 1, ctx)?;
        }
    }
    Ok(())
}

fn run_written(c: &WrittenCase) -> Outcome {
    let payload = msg::payload(c.n, c.cfg.text);
    let seed = 500 + c.n as u64;
    let bytes = match msg::build_vec(&c.cfg, &payload, seed) {
        Ok(b) => b,
        // a partial chunk size below 512 is not legal: refusing it is right, and whatever is
        // written instead must still be legal framing
        Err(_) if (1..9).contains(&c.cfg.partial_exp) => return Outcome::ok("illegal-chunk-size-refused"),
        Err(e) => return Outcome::bad("C17:written:build-error", e.to_string()),
    };
    let ctx = format!("cfg {:?} n {}", c.cfg, c.n);
    let mut o = Outcome::ok("legal-and-truthful");
    let frames = match frame::deframe(&bytes) {
        Ok(f) => f,
        Err(e) => {
            o.push("C17:written:illegal-framing", format!("{ctx}: {e:?}"));
            return o;
        }
    };
    // descend: compressed (zip/zlib via flate2) and encrypted (reference crypto) containers
    for f in &frames {
        let inner: Option<Vec<u8>> = match f.tag {
            8 => match f.body.first() {
                Some(1) => {
                    let mut d = flate2::read::DeflateDecoder::new(&f.body[1..]);
                    let mut out = Vec::new();
                    d.read_to_end(&mut out).ok().map(|_| out)
                }
                Some(2) => {
                    let mut d = flate2::read::ZlibDecoder::new(&f.body[1..]);
                    let mut out = Vec::new();
                    d.read_to_end(&mut out).ok().map(|_| out)
                }
                _ => None,
            },
            18 => {
                let sk = msg::session_key(&c.cfg, seed);
                match (sk, f.body.first()) {
                    (Some(pgp::composed::PlainSessionKey::V3_4 { ref key, .. }), Some(1)) => {
                        let Enc::V1(sym) = c.cfg.enc else { unreachable!() };
                        cmodel::seipdv1_decrypt(sym, key.as_ref(), &f.body[1..]).ok()
                    }
                    (Some(pgp::composed::PlainSessionKey::V6 { ref key }), Some(2)) => {
                        cmodel::seipdv2_open(key.as_ref(), &f.body)
                    }
                    _ => None,
                }
            }
            _ => None,
        };
        if matches!(f.tag, 18) && inner.is_none() {
            o.push(
                "C17:written:encrypted-container-not-decryptable-by-model",
                format!("{ctx}"),
            );
        }
        if let Some(inner) = inner {
            if let Err((s, w)) = check_stream(&inner, 1, &ctx) {
                o.push(s, w);
            }
            // one more level: compressed inside encrypted
            if let Ok(fr2) = frame::deframe(&inner) {
                for g in &fr2 {
                    if g.tag == 8 {
                        let dec: Option<Vec<u8>> = match g.body.first() {
                            Some(1) => {
                                let mut d = flate2::read::DeflateDecoder::new(&g.body[1..]);
                                let mut out = Vec::new();
                                d.read_to_end(&mut out).ok().map(|_| out)
                            }
                            Some(2) => {
                                let mut d = flate2::read::ZlibDecoder::new(&g.body[1..]);
                                let mut out = Vec::new();
                                d.read_to_end(&mut out).ok().map(|_| out)
                            }
                            _ => None,
                        };
                        if let Some(dd) = dec {
                            if let Err((s, w)) = check_stream(&dd, 2, &ctx) {
                                o.push(s, w);
                            }
                            // the literal inside must carry the payload
                            if let Ok(fr3) = frame::deframe(&dd) {
                                if let Some(l) = fr3.iter().find(|x| x.tag == 11) {
                                    if l.body.len() < 6 || l.body[6..] != payload[..] {
                                        o.push("C17:written:literal-body-differs", ctx.clone());
                                    }
                                }
                            }
                        }
                    } else if g.tag == 11 && (g.body.len() < 6 || g.body[6..] != payload[..]) {
                        o.push("C17:written:literal-body-differs", ctx.clone());
                    }
                }
            }
        } else if f.tag == 11 && (f.body.len() < 6 || f.body[6..] != payload[..]) {
            o.push("C17:written:literal-body-differs", ctx.clone());
        }
    }
    o
}

fn exp_seqs(alpha: &[u8], max_len: usize) -> Vec<Vec<u8>> {
    let mut out: Vec<Vec<u8>> = vec![vec![]];
    let mut level: Vec<Vec<u8>> = vec![vec![]];
    for _ in 0..max_len {
        let mut next = Vec::new();
        for s in &level {
            for &a in alpha {
                let mut t = s.clone();
                t.push(a);
                next.push(t);
            }
        }
        out.extend(next.iter().cloned());
        level = next;
    }
    out
}

/// A packet whose inner structure is broken (a nested length runs out early) in a body of
/// `len` octets filled with complete user id packets, followed by two genuine packets: the
/// parser must skip the whole declared body, never continue inside it.
#[derive(Clone, Debug, Hash, Serialize, Deserialize)]
pub struct ResyncCase {
    pub kind: u8,
    pub len: usize,
    /// 0: new-format minimal length, 1: new-format 5-octet length, 2: legacy 4-octet length
    pub form: u8,
}

const RESYNC_KINDS: [(&str, u8, &[u8]); 6] = [
    ("user attribute: subpacket of 2 octets, too short for its image header", 17, &[0x02, 0x01, 0x10]),
    ("v4 signature: hashed area of 3 octets holding a subpacket that claims 5", 2, &[4, 0, 22, 8, 0, 3, 5, 2, 0]),
    ("v6 public key: 2 octets of key material declared for Ed25519", 6, &[6, 0, 0, 0, 1, 27, 0, 0, 0, 2, 1, 2]),
    ("v6 PKESK: recipient field of 5 octets for a v6 fingerprint", 1, &[6, 5, 6, 1, 2, 3, 4]),
    ("v4 SKESK: iterated S2K cut inside its salt", 3, &[4, 7, 3, 8, 1, 2]),
    ("v3 one-pass signature: cut inside the key id", 4, &[3, 0, 8, 22, 1, 2]),
];

fn run_resync(c: &ResyncCase) -> Outcome {
    let (what, tag, prefix) = RESYNC_KINDS[c.kind as usize];
    let inner_uid = frame::frame_min(13, b"mallory");
    let mut body = prefix.to_vec();
    while body.len() + inner_uid.len() <= c.len {
        body.extend_from_slice(&inner_uid);
    }
    while body.len() < c.len {
        body.push(0);
    }
    let form = match c.form {
        0 => None,
        1 => Some(LenForm::New5),
        _ => Some(LenForm::Old4),
    };
    let framed = match form {
        None => Some(frame::frame_min(tag, &body)),
        Some(f) => frame::frame(tag, &body, f),
    };
    let Some(mut stream) = framed else { return Outcome::trivial("form-not-applicable") };
    stream.extend_from_slice(&frame::frame_min(13, b"alice"));
    stream.extend_from_slice(&frame::frame_min(13, b"bob"));
    let seen = observe(&stream);
    let uids: Vec<String> = seen
        .iter()
        .filter_map(|r| match r {
            Ok((13, b)) => Some(String::from_utf8_lossy(b).to_string()),
            _ => None,
        })
        .collect();
    let mut o = Outcome::ok(if matches!(seen.first(), Some(Err(_))) { "broken-packet-reported:stream-continues" } else { "broken-packet-tolerated:stream-continues" });
    if uids.iter().any(|u| u == "mallory") {
        o.push(
            "C17:resync:parser-continues-inside-a-declared-body",
            format!("{what}, body of {} octets (form {}): packets seen {:?} - a packet from inside the body of the broken packet was delivered", c.len, c.form, summarize(&seen)),
        );
    } else if uids != ["alice", "bob"] || seen.len() != 3 {
        o.push(
            "C17:resync:following-packets-lost",
            format!("{what}, body of {} octets (form {}): packets seen {:?}", c.len, c.form, summarize(&seen)),
        );
    }
    o
}

/// The entry points that first decide between armored and binary input (`from_reader*`): a
/// binary stream in any legal framing must be taken as binary and give the same value as
/// `from_bytes`.
#[derive(Clone, Debug, Hash, Serialize, Deserialize)]
pub struct SniffCase {
    /// 0: a literal message of `n` data octets; 1: a transferable public key; 2: a detached signature
    pub object: u8,
    pub n: usize,
    pub form: LenForm,
}

fn run_sniff(c: &SniffCase) -> Outcome {
    use pgp::composed::{Deserializable, DetachedSignature, SignedPublicKey};
    use pgp::ser::Serialize as _;
    use std::io::Read as _;
    let cert = crate::common::cert(crate::common::KeyKind::Ed25519V4, 1);
    // the packets of the object, each re-framed in the form under test
    let packets: Vec<(u8, Vec<u8>)> = match c.object {
        0 => {
            let mut lit = vec![b'b', 0, 0, 0, 0, 0];
            lit.extend((0..c.n).map(|i| (i as u8).wrapping_mul(13)));
            vec![(11, lit)]
        }
        1 => {
            let bytes = cert.to_public_key().to_bytes().expect("ser");
            crate::reference::codec::split_packets(&bytes).expect("split").into_iter().map(|(t, _, b)| (t, b)).collect()
        }
        _ => {
            let s = DetachedSignature::sign_binary_data(crate::engine::rng(1), &cert.primary_key, &pgp::types::Password::empty(), pgp::crypto::hash::HashAlgorithm::Sha256, &b"x"[..]).expect("sign");
            vec![(2, s.signature.to_bytes().expect("ser"))]
        }
    };
    if c.form == LenForm::OldIndeterminate && packets.len() > 1 {
        // only the last packet of a stream can have an indeterminate length
        return Outcome::trivial("form-not-applicable");
    }
    let mut stream = Vec::new();
    for (tag, body) in &packets {
        match frame::frame(*tag, body, c.form) {
            Some(f) => stream.extend_from_slice(&f),
            None => return Outcome::trivial("form-not-applicable"),
        }
    }
    let what = format!("{} in {:?} framing ({} octets)", ["literal message", "transferable public key", "detached signature"][c.object as usize], c.form, stream.len());
    let mut o = Outcome::ok("same-value-through-every-entry-point");
    match c.object {
        0 => {
            let read = |m: pgp::errors::Result<Message<'_>>| -> Result<Vec<u8>, String> {
                let mut m = m.map_err(|e| e.to_string())?;
                let mut d = Vec::new();
                m.read_to_end(&mut d).map_err(|e| e.to_string())?;
                Ok(d)
            };
            let a = read(Message::from_bytes(&stream[..]));
            let b = read(Message::from_reader(std::io::BufReader::new(&stream[..])).map(|x| x.0));
            if a != b {
                o.push("C17:sniff:from_reader-differs-from-from_bytes", format!("{what}: from_bytes {:?}, from_reader {:?}", a.as_ref().map(|d| d.len()), b.as_ref().map(|d| d.len())));
            }
            if a.is_err() {
                o.push("C17:sniff:legal-framing-rejected", format!("{what}: {a:?}"));
            }
        }
        1 => {
            let a = SignedPublicKey::from_bytes(&stream[..]).map_err(|e| e.to_string());
            let b = SignedPublicKey::from_reader_single(&stream[..]).map(|x| x.0).map_err(|e| e.to_string());
            let c2 = SignedPublicKey::from_reader_many(&stream[..]).map_err(|e| e.to_string()).and_then(|(mut it, _)| it.next().ok_or("no key".to_string())?.map_err(|e| e.to_string()));
            if a.is_err() {
                o.push("C17:sniff:legal-framing-rejected", format!("{what}: {:?}", a.as_ref().err()));
            }
            for (name, r) in [("from_reader_single", b), ("from_reader_many", c2)] {
                if r != a {
                    o.push(format!("C17:sniff:{name}-differs-from-from_bytes"), format!("{what}: from_bytes ok={}, {name}: {:?}", a.is_ok(), r.as_ref().err()));
                }
            }
        }
        _ => {
            let a = DetachedSignature::from_bytes(&stream[..]).map_err(|e| e.to_string());
            let b = DetachedSignature::from_reader_single(&stream[..]).map(|x| x.0).map_err(|e| e.to_string());
            if a.is_err() {
                o.push("C17:sniff:legal-framing-rejected", format!("{what}: {:?}", a.as_ref().err()));
            }
            if a != b {
                o.push("C17:sniff:from_reader_single-differs-from-from_bytes", format!("{what}: from_bytes ok={}, from_reader_single {:?}", a.is_ok(), b.as_ref().err()));
            }
        }
    }
    o
}

pub fn check(ctx: &Ctx) {
    if let Err(e) = frame::self_test() {
        eprintln!("MACHINERY: framing reference self-test failed: {e}");
        std::process::exit(2);
    }
    // the former thorough bounds take seconds: they are the quick tier now; `deep` = thorough
    let quick = false;
    #[allow(unused_variables)]
    let deep = ctx.tier == Tier::Thorough;
    // armor-or-binary sniffing entry points
    let mut sn = Vec::new();
    for form in FORMS {
        for n in [0usize, 1, 185, 186, 191, 192, 250, 255, 256, 8377, 8378, 8383, 8384, 65529, 65530, 65536, 70_000] {
            sn.push(SniffCase { object: 0, n, form });
        }
        sn.push(SniffCase { object: 1, n: 0, form });
        sn.push(SniffCase { object: 2, n: 0, form });
    }
    ctx.run_space(
        "armor_or_binary_entry_points",
        true,
        "literal messages (17 lengths on both sides of every length-class edge), a transferable public key and a detached signature, every packet re-framed in each of the 7 forms (new 1/2/5-octet, legacy 1/2/4-octet, indeterminate): Message::from_reader, from_reader_single and from_reader_many (which first decide between armor and binary) must give the same value as from_bytes, and from_bytes must accept the legal framing",
        sn.into_par_iter(),
        run_sniff,
    );
    // packets broken inside, in bodies on both sides of the 8 KiB body-reader buffer
    let mut rs = Vec::new();
    for kind in 0..RESYNC_KINDS.len() as u8 {
        let lens: Vec<usize> = if quick {
            vec![40, 8191, 8192, 8193, 8300, 20_000]
        } else {
            (20..=60).chain(8180..=8210).chain([191, 192, 193, 8383, 8384, 8385, 16383, 16384, 16385, 20_000, 65_535, 65_536, 70_000]).collect()
        };
        for len in lens {
            for form in 0..3u8 {
                rs.push(ResyncCase { kind, len, form });
            }
        }
    }
    ctx.run_space(
        "broken_packets_are_skipped_whole",
        true,
        "6 packet kinds whose inner structure runs out inside a nested length (user attribute, v4 signature, v6 key, v6 PKESK, v4 SKESK, one-pass signature) in declared bodies of 40..70000 octets (both sides of the 8 KiB body-reader buffer; thorough every length 20..60 and 8180..8210) filled with complete user id packets, x 3 length forms, followed by two genuine packets: PacketParser must deliver (error-or-packet, alice, bob) and never a packet from inside the declared body",
        rs.into_par_iter(),
        run_resync,
    );
    // fixed / indeterminate framings
    let mut fc = Vec::new();
    for tag in 0..64u8 {
        for form in FORMS {
            fc.push(FixedCase { tag, n: 3, form });
        }
    }
    for tag in [11u8, 13, 21, 12, 9, 8, 18, 60, 40, 17] {
        for n in [0usize, 1, 6, 7, 191, 192, 193, 255, 256, 257, 8383, 8384, 8385, 65535, 65536, 65537, 70000] {
            for form in FORMS {
                fc.push(FixedCase { tag, n, form });
            }
        }
    }
    ctx.run_space(
        "fixed_and_indeterminate",
        true,
        "tag 0..63 x {new 1/2/5-octet (incl. non-minimal 5-octet), legacy 1/2/4-octet, legacy indeterminate} with a 3-octet body; 10 tags with free-form bodies x body lengths {0,1,6,7,191..193,255..257,8383..8385,65535..65537,70000} x all 7 forms; each followed by a marker packet. Oracle: PacketParser yields the same (tag, body) / the same error class as for the minimal new-format framing, and the following packet is found.",
        fc.into_par_iter(),
        run_fixed,
    );

    // partial-body framings
    let mut pc = Vec::new();
    let firsts: Vec<u8> = if quick { vec![9, 10, 13, 16] } else { (9..=16).collect() };
    let more_alpha: Vec<u8> = if quick { vec![0, 1, 5, 9, 12, 16] } else { (0..=16).collect() };
    let finals: [(usize, LenForm); 9] = [
        (0, LenForm::New1),
        (1, LenForm::New1),
        (191, LenForm::New1),
        (192, LenForm::New2),
        (8383, LenForm::New2),
        (8384, LenForm::New5),
        (0, LenForm::New5),
        (100, LenForm::New5),
        (1, LenForm::New5),
    ];
    for tag in DATA_TAGS {
        let depth = if tag == 11 { if quick { 2 } else { 3 } } else if quick { 1 } else { 2 };
        for first in &firsts {
            let mut seqs = exp_seqs(&more_alpha, depth);
            if deep && tag == 11 {
                // one level deeper over a sub-alphabet
                seqs.extend(exp_seqs(&[0, 1, 5, 9, 12, 16], 4).into_iter().filter(|s| s.len() == 4));
            }
            for more in seqs {
                let mut exps = vec![*first];
                exps.extend(more);
                let total: usize = exps.iter().map(|e| 1usize << e).sum();
                if total > 70_000 + 65536 {
                    continue;
                }
                for (fl, ff) in finals {
                    pc.push(PartialCase {
                        tag,
                        exps: exps.clone(),
                        final_len: fl,
                        final_form: ff,
                    });
                }
            }
        }
    }
    ctx.run_space(
        "partial_body",
        true,
        "data tags {8,9,11,18,20}: first chunk 2^9..2^16 (quick: 4 values) then 0..2 (quick: literal only; thorough: 0..3 for literal plus all 4-chunk sequences over {2^0,2^1,2^5,2^9,2^12,2^16}, 0..2 for the other tags) further chunks 2^0..2^16, final fixed chunk in {0,1,191,192,8383,8384} in each applicable encoding incl. non-minimal 5-octet; followed by a marker. Oracle: same value as the fixed framing of the same body through PacketParser, and for literals the same data through Message.",
        pc.into_par_iter(),
        run_partial,
    );

    // illegal framings
    let mut ic = Vec::new();
    for tag in 0..64u8 {
        if DATA_TAGS.contains(&tag) {
            for exp in 0..9u8 {
                ic.push(Illegal::ShortFirst { tag, exp });
            }
        } else {
            for exp in [0u8, 4, 9, 12] {
                ic.push(Illegal::PartialOnTag { tag, exp });
            }
        }
    }
    for tag in [11u8, 13, 2, 6, 18] {
        for n in [4usize, 10, 191, 192, 300, 8384, 9000] {
            for missing in 1..=3usize {
                for form in [LenForm::New1, LenForm::New2, LenForm::New5, LenForm::Old1, LenForm::Old2, LenForm::Old4] {
                    ic.push(Illegal::ShortFixed { tag, n, missing, form });
                }
            }
        }
    }
    for exps in [vec![9u8], vec![9, 9], vec![10, 0], vec![9, 5, 9], vec![13, 13]] {
        for final_len in [0usize, 1, 5, 200] {
            for missing in 1..=3usize {
                ic.push(Illegal::ShortPartial {
                    exps: exps.clone(),
                    final_len,
                    missing,
                });
            }
        }
        ic.push(Illegal::Unterminated { exps: exps.clone() });
    }
    ctx.run_space(
        "illegal_framings",
        true,
        "partial lengths on every non-data tag; first partial chunk 2^0..2^8 on every data tag; fixed-length bodies 1..3 octets shorter than declared (6 length forms x 5 tags x 7 lengths); partial streams ending 1..3 octets early inside the final chunk; partial streams without a terminating length. Oracle: the packet is reported as an error, never as a value.",
        ic.into_par_iter(),
        run_illegal,
    );

    // streams the library writes
    let mut wc = Vec::new();
    let spine: Vec<MsgCfg> = crate::props::c01::spine_cfgs()
        .into_iter()
        .filter(|c| !c.armor && c.compression != 3)
        .collect();
    let lens: Vec<usize> = if quick {
        vec![0, 1, 100, 505, 506, 507, 512, 1017, 1018, 1019, 1400, 8378, 8379]
    } else {
        (0..=if deep { 6000 } else { 1600 }).chain([8190, 8191, 8192, 8193, 8377, 8378, 8379, 8380, 16384, 65535, 65536, 70000]).collect()
    };
    for cfg in &spine {
        for &n in &lens {
            wc.push(WrittenCase { cfg: cfg.clone(), n });
            if n > 600 {
                let mut c2 = cfg.clone();
                c2.partial_exp = 13;
                wc.push(WrittenCase { cfg: c2, n });
            }
        }
    }
    // many one-pass signatures in front of the literal under the smallest AEAD chunks (the
    // writer's pieces end inside packet headers)
    for (cfg, n) in crate::props::c01::many_signer_cfgs() {
        wc.push(WrittenCase { cfg, n });
    }
    // partial chunk sizes the format does not allow (below 512): refused, or nothing illegal written
    for cfg in spine.iter().filter(|c| !c.text && c.signers.len() <= 1) {
        for exp in 1..=8u8 {
            for n in [600usize, 3000] {
                let mut c2 = cfg.clone();
                c2.partial_exp = exp;
                wc.push(WrittenCase { cfg: c2, n });
            }
        }
    }
    ctx.run_space(
        "written_streams",
        true,
        "every stream MessageBuilder writes for the 108 unarmored spine configurations (source x compression none/zip/zlib x plain/SEIPDv1/SEIPDv2 x signers x mode) x payload lengths (every length 0..1600, thorough 0..6000, + large), partial size 512 and 8192; plus 0..8 signers x AEAD chunks of 64 / 128 / 256 octets x known-length / streamed source: deframed by the reference deframer at every nesting level (encrypted containers opened with the reference crypto model, compressed ones with flate2): framing legal, lengths truthful, literal body = payload.",
        wc.into_par_iter(),
        run_written,
    );
}

pub fn replay(space: &str, case: &Value) -> Option<Outcome> {
    match space {
        "fixed_and_indeterminate" => replay_as(case, run_fixed),
        "partial_body" => replay_as(case, run_partial),
        "broken_packets_are_skipped_whole" => replay_as(case, run_resync),
        "armor_or_binary_entry_points" => replay_as(case, run_sniff),
        "illegal_framings" => replay_as(case, run_illegal),
        "written_streams" => replay_as(case, run_written),
        _ => None,
    }
}
