//! C19 — work and memory are bounded by the input actually supplied.
//!
//! E5 resmon: a counting allocator (per-thread peak / total / largest request) around every
//! entry point.  Four enumerated spaces:
//!  (a) declared sizes: every length-like field the reference field map finds in ~230 seed
//!      packets, and the packet header itself, set to each of a ladder of large values over the
//!      unchanged short body -> allocation peak must stay within a small constant of the
//!      unmodified artefact's;
//!  (b) repetition: structure repeated n, 2n, 4n times -> allocation work and CPU time must grow
//!      linearly, peak must stay proportional to the input (worker processes: a stack overflow
//!      is a finding, not a crash of the checker);
//!  (c) streaming: messages of 1 / 16 (/ 256) MiB built and read through a fixed ring buffer ->
//!      peak independent of the size; default-mode SEIPDv1 capped by its limit;
//!  (d) KDF ceilings: all 2^24 Argon2 (t, p, m) triples and all iterated-S2K count octets.

use std::{
    collections::VecDeque,
    io::{BufReader, Read, Write},
    sync::{Arc, Condvar, Mutex},
    time::Duration,
};

use pgp::{
    armor::Dearmor,
    composed::{CleartextSignedMessage, Deserializable, DetachedSignature, Message, SignedPublicKey, SignedSecretKey},
    packet::PacketParser,
    ser::Serialize as _,
    types::{KeyDetails, Password, Seipdv1ReadMode, StringToKey},
};
use rayon::prelude::*;
use serde::{Deserialize, Serialize};
use serde_json::{json, Value};

use crate::{
    common::{
        self,
        msg::{self, Enc, EskSpec, MsgCfg},
        KeyKind,
    },
    engine::{
        replay_as,
        resmon::{measure, thread_cpu_time, Usage},
        worker, Ctx, Outcome, Tier,
    },
    reference::{
        codec::{self, Kind},
        frame::frame_min,
    },
};

// ---------------------------------------------------------------------------------------------
// (a) declared sizes

const PARSE_ENTRIES: [&str; 5] = ["PacketParser", "Message::from_bytes+read", "SignedPublicKey::from_bytes", "SignedSecretKey::from_bytes", "DetachedSignature::from_bytes"];

fn parse_entry(ep: usize, x: &[u8]) {
    match ep {
        0 => {
            for (i, p) in PacketParser::new(x).enumerate() {
                drop(p);
                if i > 64 {
                    break;
                }
            }
        }
        1 => {
            if let Ok(mut m) = Message::from_bytes(x) {
                if m.is_compressed() {
                    match m.decompress() {
                        Ok(m2) => m = m2,
                        Err(_) => return,
                    }
                }
                let mut buf = [0u8; 4096];
                for _ in 0..100_000 {
                    match m.read(&mut buf) {
                        Ok(0) | Err(_) => break,
                        Ok(_) => {}
                    }
                }
            }
        }
        2 => {
            let _ = SignedPublicKey::from_bytes(x);
        }
        3 => {
            let _ = SignedSecretKey::from_bytes(x);
        }
        _ => {
            let _ = DetachedSignature::from_bytes(x);
        }
    }
}

fn entries_for_tag(tag: u8) -> &'static [usize] {
    match tag {
        5 | 7 => &[0, 3],
        6 | 14 => &[0, 2],
        2 => &[0, 4],
        1 | 3 | 4 | 8 | 9 | 11 | 18 | 20 => &[0, 1],
        _ => &[0],
    }
}

fn is_length_kind(k: &Kind) -> bool {
    matches!(
        k,
        Kind::CurveOidLen
            | Kind::MpiBits
            | Kind::KeyMaterialLen
            | Kind::AreaLen
            | Kind::SubpacketLen
            | Kind::SaltLen
            | Kind::FingerprintLen
            | Kind::S2kParamsLen
            | Kind::S2kSpecLen
            | Kind::EskLen
            | Kind::NameLen
            | Kind::UserAttrSubLen
    )
}

/// the ladder of declared values for a field of `width` octets (as replacement octets)
fn ladder(kind: &Kind, width: usize) -> Vec<Vec<u8>> {
    let mut v: Vec<Vec<u8>> = Vec::new();
    match (kind, width) {
        // variable-length forms: replace by the 5-octet form declaring 2^16 .. 2^32-1
        (Kind::SubpacketLen, _) | (Kind::UserAttrSubLen, _) => {
            for n in [0x1_0000u32, 0x10_0000, 0x100_0000, 0x7FFF_FFFF, 0xFFFF_FFFF] {
                let mut b = vec![0xFF];
                b.extend_from_slice(&n.to_be_bytes());
                v.push(b);
            }
            // and the largest 2-octet form
            v.push(vec![0xDF, 0xFF]);
        }
        (_, 1) => {
            for n in [0x7Fu8, 0x80, 0xFE, 0xFF] {
                v.push(vec![n]);
            }
        }
        (_, 2) => {
            for n in [0x7FFFu16, 0x8000, 0xFFF8, 0xFFFF] {
                v.push(n.to_be_bytes().to_vec());
            }
        }
        (_, 4) => {
            for n in [0x1_0000u32, 0x100_0000, 0x7FFF_FFFF, 0x8000_0000, 0xFFFF_FFFF] {
                v.push(n.to_be_bytes().to_vec());
            }
        }
        _ => {}
    }
    v
}

/// header forms declaring a large body over the short one
fn header_forms(tag: u8, body_len: usize) -> Vec<(String, Vec<u8>)> {
    let mut v = Vec::new();
    for n in [0x1_0000u32, 0x100_0000, 0x7FFF_FFFF, 0xFFFF_FFFF] {
        let mut h = vec![0xC0 | tag, 0xFF];
        h.extend_from_slice(&n.to_be_bytes());
        v.push((format!("new-format 5-octet length {n:#x}"), h));
        if tag < 16 {
            let mut h = vec![0x80 | (tag << 2) | 2];
            h.extend_from_slice(&n.to_be_bytes());
            v.push((format!("legacy 4-octet length {n:#x}"), h));
        }
    }
    v.push(("new-format 2-octet length 8383".into(), vec![0xC0 | tag, 0xDF, 0xFF]));
    if tag < 16 {
        v.push(("legacy 2-octet length 65535".into(), vec![0x80 | (tag << 2) | 1, 0xFF, 0xFF]));
        v.push(("legacy indeterminate length".into(), vec![0x80 | (tag << 2) | 3]));
    }
    // partial body: first chunk 2^k, nothing after the short body
    for k in [9u8, 16, 24, 30] {
        if (1usize << k) > body_len {
            v.push((format!("partial first chunk 2^{k}"), vec![0xC0 | tag, 0xE0 | k]));
        }
    }
    v
}

#[derive(Clone, Debug, Hash, Serialize, Deserialize)]
struct Decl {
    seed: usize,
    /// None: header form `variant`; Some(f): field f set to ladder value `variant`
    field: Option<usize>,
    variant: usize,
}

fn decl_seeds() -> &'static Vec<(String, u8, Vec<u8>, Vec<codec::Field>)> {
    static S: std::sync::OnceLock<Vec<(String, u8, Vec<u8>, Vec<codec::Field>)>> = std::sync::OnceLock::new();
    S.get_or_init(|| {
        let mut seeds = crate::props::c05::seed_packets();
        // keys of algorithms the library does not know: their material is opaque and sized by
        // the packet (v4) or by a 4-octet count (v6)
        for alg in [99u8, 21, 100, 110, 4] {
            for tag in [6u8, 14, 5, 7] {
                let mut v6 = vec![6u8, 0x65, 0x00, 0x00, 0x01, alg, 0, 0, 0, 6];
                v6.extend_from_slice(&[1, 2, 3, 4, 5, 6]);
                let mut v4 = vec![4u8, 0x65, 0x00, 0x00, 0x01, alg];
                v4.extend_from_slice(&[1, 2, 3, 4, 5, 6]);
                if matches!(tag, 5 | 7) {
                    // unprotected secret part
                    v6.extend_from_slice(&[0, 9, 9, 9]);
                    v4.extend_from_slice(&[0, 9, 9, 9, 0, 27]);
                }
                seeds.push((format!("v6 key packet (tag {tag}) of unknown algorithm {alg}"), tag, v6));
                seeds.push((format!("v4 key packet (tag {tag}) of unknown algorithm {alg}"), tag, v4));
            }
        }
        seeds
            .into_iter()
            .filter(|(_, _, b)| b.len() <= 4096)
            .map(|(d, t, b)| {
                let mut fields: Vec<codec::Field> = codec::decode_packet(t, &b).map(|d| d.fields.into_iter().filter(|f| is_length_kind(&f.kind)).collect()).unwrap_or_default();
                // the v6 key material count, also where the reference does not know the algorithm
                if matches!(t, 5 | 6 | 7 | 14) && b.first() == Some(&6) && b.len() >= 10 && !fields.iter().any(|f| f.start == 6 && f.end == 10) {
                    fields.push(codec::Field { path: "key/material_len".into(), kind: Kind::KeyMaterialLen, start: 6, end: 10 });
                }
                (d, t, b, fields)
            })
            .collect()
    })
}

fn decl_cases() -> Vec<Decl> {
    let mut v = Vec::new();
    for (si, (_, tag, body, fields)) in decl_seeds().iter().enumerate() {
        for variant in 0..header_forms(*tag, body.len()).len() {
            v.push(Decl { seed: si, field: None, variant });
        }
        for (fi, f) in fields.iter().enumerate() {
            for variant in 0..ladder(&f.kind, f.end - f.start).len() {
                v.push(Decl { seed: si, field: Some(fi), variant });
            }
        }
    }
    v
}

/// allowance above the unmodified artefact's peak: the incremental reader takes at most 1 KiB
/// ahead of the data, error values carry a message and a captured backtrace
const DECL_SLACK: usize = 24 * 1024;

fn baseline(si: usize, ep: usize) -> usize {
    static B: std::sync::OnceLock<Mutex<std::collections::HashMap<(usize, usize), usize>>> = std::sync::OnceLock::new();
    let m = B.get_or_init(Default::default);
    if let Some(v) = m.lock().unwrap().get(&(si, ep)) {
        return *v;
    }
    let (_, tag, body, _) = &decl_seeds()[si];
    let framed = frame_min(*tag, body);
    parse_entry(ep, &framed); // warm-up: lazily built tables
    let (_, u) = measure(|| parse_entry(ep, &framed));
    // and the cheapest way to fail: the artefact cut in the middle
    let (_, u2) = measure(|| parse_entry(ep, &framed[..framed.len() / 2]));
    let v = u.peak.max(u2.peak);
    m.lock().unwrap().insert((si, ep), v);
    v
}

fn run_decl(c: &Decl) -> Outcome {
    let (desc, tag, body, fields) = &decl_seeds()[c.seed];
    let (what, bytes) = match c.field {
        None => {
            let (name, hdr) = header_forms(*tag, body.len())[c.variant].clone();
            (format!("{desc}: header {name} over a {}-octet body", body.len()), [hdr, body.clone()].concat())
        }
        Some(fi) => {
            let f = &fields[fi];
            let val = ladder(&f.kind, f.end - f.start)[c.variant].clone();
            let mut b = body[..f.start].to_vec();
            b.extend_from_slice(&val);
            b.extend_from_slice(&body[f.end..]);
            (format!("{desc}: field {} ({:?}) = {}", f.path, f.kind, hex::encode(&val)), frame_min(*tag, &b))
        }
    };
    let mut o = Outcome::ok("bounded");
    let mut worst = 0usize;
    for &ep in entries_for_tag(*tag) {
        let base = baseline(c.seed, ep);
        let r = crate::engine::guarded(|| measure(|| parse_entry(ep, &bytes)));
        match r {
            Ok(((), u)) => {
                worst = worst.max(u.peak);
                let bound = base + DECL_SLACK + 4 * bytes.len();
                if u.peak > bound || u.max_one > bound {
                    o.push(
                        format!("C19:declared-size:{}:allocation-follows-declared-length", PARSE_ENTRIES[ep]),
                        format!("{what}: {} allocates peak {} B (largest single request {} B) for {} input octets; the unmodified artefact peaks at {} B", PARSE_ENTRIES[ep], u.peak, u.max_one, bytes.len(), base),
                    );
                }
            }
            Err((loc, msg)) => o.push(format!("C19:declared-size:panic@{}", crate::engine::loc_file(&loc)), format!("{what}: panic at {loc}: {msg}")),
        }
    }
    o.class = format!("peak<{}KiB", (worst / 4096 + 1) * 4);
    o
}

// ---------------------------------------------------------------------------------------------
// (b) repetition families (run in worker processes)

const FAMILIES: [&str; 25] = [
    "n marker packets before a literal message -> Message::from_bytes + read",
    "n padding packets before a literal message -> Message::from_bytes + read",
    "n marker packets -> PacketParser",
    "n signature packets -> PacketParser",
    "n user id packets -> PacketParser",
    "n prefixed signature packets + literal -> Message::from_bytes + read + verify",
    "n one-pass signatures + literal + n signatures -> Message::from_bytes + read + verify",
    "certificate with n user ids -> SignedPublicKey::from_bytes + verify_bindings",
    "certificate with n copies of a certification on one user id -> SignedPublicKey::from_bytes + verify_bindings",
    "certificate with n copies of a bound subkey -> SignedPublicKey::from_bytes + verify_bindings",
    "armor with n header lines -> Dearmor read_to_end",
    "armor with n blank / whitespace lines inside the body -> Dearmor read_to_end",
    "armor body of n base64 lines -> Dearmor read_to_end",
    "cleartext document of n dash-escaped lines -> CleartextSignedMessage::from_armor + verify",
    "signature whose hashed area holds n minimal subpackets -> PacketParser",
    "n user attribute packets (one unknown subpacket each) -> PacketParser",
    "n concatenated certificates -> SignedPublicKey::from_bytes_many",
    "armor with n header lines, source refilled 8 KiB at a time -> Dearmor read_to_end",
    "n lines of text before the armor -> Dearmor read_to_end (slice source)",
    "n lines of text before the armor, source refilled 8 KiB at a time -> Dearmor read_to_end",
    "armored certificate with n header lines -> SignedPublicKey::from_armor_single / from_string",
    "armor whose first header line holds only a form feed, then n header lines and no blank line, source refilled 8 KiB at a time -> Dearmor read_to_end",
    "armor whose first header line holds only a vertical tab / no-break space, then n header lines, a blank line and a body, source refilled 8 KiB at a time -> Dearmor read_to_end",
    "n prefixed signature packets + one one-pass signature + literal + n marker / padding packets + its signature -> Message::from_bytes + read + verify",
    "cleartext document with n Hash: header lines -> CleartextSignedMessage::from_armor",
];

fn family_input(fam: usize, n: usize) -> Vec<u8> {
    let cert = common::cert(KeyKind::Ed25519V4, 1);
    let public = cert.to_public_key();
    let lit = frame_min(11, b"b\0\0\0\0\0payload");
    let rep = |unit: &[u8], n: usize| -> Vec<u8> {
        let mut v = Vec::with_capacity(unit.len() * n);
        for _ in 0..n {
            v.extend_from_slice(unit);
        }
        v
    };
    let sig = || -> Vec<u8> {
        let s = DetachedSignature::sign_binary_data(crate::engine::rng(1), &cert.primary_key, &Password::empty(), pgp::crypto::hash::HashAlgorithm::Sha256, &b"payload"[..]).expect("sign");
        frame_min(2, &s.signature.to_bytes().expect("ser"))
    };
    match fam {
        0 => [rep(&frame_min(10, b"PGP"), n), lit].concat(),
        1 => [rep(&frame_min(21, &[0u8; 4]), n), lit].concat(),
        2 => rep(&frame_min(10, b"PGP"), n),
        3 => rep(&sig(), n),
        4 => rep(&frame_min(13, b"u"), n),
        5 => [rep(&sig(), n), lit].concat(),
        6 => {
            // OPS packets: all but the last carry nested flag 0
            let s = sig();
            let mut ops = Vec::new();
            for i in 0..n {
                let mut b = vec![3u8, 0, 8, 27];
                b.extend_from_slice(cert.primary_key.legacy_key_id().as_ref());
                b.push(u8::from(i + 1 == n));
                ops.extend_from_slice(&frame_min(4, &b));
            }
            [ops, lit, rep(&s, n)].concat()
        }
        23 => {
            let s = sig();
            let mut b = vec![3u8, 0, 8, 27];
            b.extend_from_slice(cert.primary_key.legacy_key_id().as_ref());
            b.push(1);
            let skipped = [frame_min(10, b"PGP"), frame_min(21, &[0u8; 4])].concat();
            [rep(&s, n), frame_min(4, &b), lit, rep(&skipped, n / 2), s].concat()
        }
        24 => {
            let m = CleartextSignedMessage::sign(crate::engine::rng(2), "text\n", &cert.primary_key, &Password::empty()).expect("sign");
            let doc = m.to_armored_string(None.into()).expect("armor");
            let (first, rest) = doc.split_once('\n').expect("lines");
            let mut v = format!("{first}\n").into_bytes();
            v.extend_from_slice(&rep(b"Hash: SHA256\n", n));
            v.extend_from_slice(rest.as_bytes());
            v
        }
        7 | 8 | 9 => {
            // split the genuine certificate into packets
            let bytes = public.to_bytes().expect("ser");
            let packets = codec::split_packets(&bytes).expect("split");
            let framed: Vec<Vec<u8>> = packets.iter().map(|(t, _, b)| frame_min(*t, b)).collect();
            let tags: Vec<u8> = packets.iter().map(|(t, _, _)| *t).collect();
            // layout produced by the generator: key, user id, certification, subkey, binding
            let key = framed[0].clone();
            let uid_i = tags.iter().position(|t| *t == 13).expect("uid");
            let sub_i = tags.iter().position(|t| *t == 14).expect("subkey");
            match fam {
                7 => [key, rep(&frame_min(13, b"x"), n), framed[uid_i..].concat()].concat(),
                8 => [key, framed[uid_i].clone(), rep(&framed[uid_i + 1], n), framed[sub_i..].concat()].concat(),
                _ => [framed[..sub_i].concat(), rep(&framed[sub_i..].concat(), n)].concat(),
            }
        }
        18 | 19 => {
            let mut v = rep(b"some text\n", n);
            v.extend_from_slice(b"-----BEGIN PGP MESSAGE-----\n\nyxJiAAAAAABwYXlsb2Fk\n-----END PGP MESSAGE-----\n");
            v
        }
        21 | 22 => {
            let mut v = b"-----BEGIN PGP MESSAGE-----\n".to_vec();
            v.extend_from_slice(if fam == 21 { b"\x0c\n" } else { b"\x0b\xc2\xa0\n" });
            v.extend_from_slice(&rep(b"Comment: x\n", n));
            if fam == 22 {
                v.extend_from_slice(b"\nyxJiAAAAAABwYXlsb2Fk\n-----END PGP MESSAGE-----\n");
            }
            v
        }
        20 => {
            let armored = public.to_armored_string(None.into()).expect("armor");
            let (first, rest) = armored.split_once('\n').expect("lines");
            let mut v = format!("{first}\n").into_bytes();
            v.extend_from_slice(&rep(b"Comment: x\n", n));
            v.extend_from_slice(rest.as_bytes());
            v
        }
        10 | 17 => {
            let mut v = b"-----BEGIN PGP MESSAGE-----\n".to_vec();
            v.extend_from_slice(&rep(b"Comment: x\n", n));
            v.extend_from_slice(b"\nyxJiAAAAAABwYXlsb2Fk\n-----END PGP MESSAGE-----\n");
            v
        }
        11 => {
            let mut v = b"-----BEGIN PGP MESSAGE-----\n\nyxJi\n".to_vec();
            v.extend_from_slice(&rep(b"\r\n", n));
            v.extend_from_slice(b"AAAAAABwYXlsb2Fk\n-----END PGP MESSAGE-----\n");
            v
        }
        12 => {
            let mut v = b"-----BEGIN PGP MESSAGE-----\n\n".to_vec();
            // marker packets: ca 03 50 47 50 = 5 octets; 3 of them = 15 octets = 20 base64 chars
            v.extend_from_slice(&rep(b"ygNQR1DKA1BHUMoDUEdQ\n", n));
            v.extend_from_slice(b"-----END PGP MESSAGE-----\n");
            v
        }
        13 => {
            let text = "- x\n".repeat(n);
            let m = CleartextSignedMessage::sign(crate::engine::rng(1), &text, &cert.primary_key, &Password::empty()).expect("sign");
            m.to_armored_bytes(None.into()).expect("armor")
        }
        14 => {
            // v4 signature, hashed area = n x (len 1, type 100 private, no body), n <= 32767
            let n = n.min(32_000);
            let mut b = vec![4u8, 0, 22, 8];
            b.extend_from_slice(&((2 * n) as u16).to_be_bytes());
            b.extend_from_slice(&rep(&[1, 100], n));
            b.extend_from_slice(&[0, 0, 0xAB, 0xCD]);
            for _ in 0..2 {
                b.extend_from_slice(&[0x01, 0x00, 0x80]);
                b.extend_from_slice(&[1; 31]);
            }
            frame_min(2, &b)
        }
        15 => rep(&frame_min(17, &[2, 100, 0]), n),
        _ => rep(&public.to_bytes().expect("ser"), n),
    }
}

fn family_run(fam: usize, x: &[u8]) -> &'static str {
    let cert = common::cert(KeyKind::Ed25519V4, 1);
    let pk = cert.primary_key.public_key();
    match fam {
        0 | 1 | 5 | 6 | 23 => match Message::from_bytes(x) {
            Ok(mut m) => {
                let mut buf = [0u8; 4096];
                loop {
                    match m.read(&mut buf) {
                        Ok(0) => break,
                        Err(_) => return "read-err",
                        Ok(_) => {}
                    }
                }
                match m.verify(pk) {
                    Ok(_) => "read+verified",
                    Err(_) => "read",
                }
            }
            Err(_) => "rejected",
        },
        2 | 3 | 4 | 14 | 15 => {
            let mut ok = 0usize;
            for p in PacketParser::new(x) {
                match p {
                    Ok(_) => ok += 1,
                    Err(e) => {
                        if std::env::var_os("C19_DEBUG").is_some() {
                            eprintln!("  [debug] {}", e.to_string().chars().take(300).collect::<String>());
                        }
                    }
                }
            }
            if ok > 0 {
                "parsed"
            } else {
                "rejected"
            }
        }
        7 | 8 | 9 => match SignedPublicKey::from_bytes(x) {
            Ok(k) => match k.verify_bindings() {
                Ok(()) => "parsed+verified",
                Err(_) => "parsed",
            },
            Err(_) => "rejected",
        },
        20 => match SignedPublicKey::from_armor_single(x) {
            Ok((k, h)) => {
                if h.get("Comment").map(|v| v.len()).unwrap_or(0) == 0 {
                    return "parsed-without-headers";
                }
                match k.verify_bindings() {
                    Ok(()) => "parsed+verified",
                    Err(_) => "parsed",
                }
            }
            Err(_) => "rejected",
        },
        10 | 11 | 12 | 18 => {
            // the slice itself is the BufRead: one buffer holding everything
            let mut d = Dearmor::new(x);
            let mut sink = [0u8; 4096];
            loop {
                match d.read(&mut sink) {
                    Ok(0) => return "dearmored",
                    Err(_) => return "rejected",
                    Ok(_) => {}
                }
            }
        }
        17 | 19 | 21 | 22 => {
            let mut d = Dearmor::new(BufReader::new(x));
            let mut sink = [0u8; 4096];
            loop {
                match d.read(&mut sink) {
                    Ok(0) => return "dearmored",
                    Err(_) => return "rejected",
                    Ok(_) => {}
                }
            }
        }
        13 | 24 => match CleartextSignedMessage::from_armor(x) {
            Ok((m, _)) => match m.verify(pk) {
                Ok(_) => "parsed+verified",
                Err(_) => "parsed",
            },
            Err(_) => "rejected",
        },
        _ => {
            let mut ok = 0;
            for k in SignedPublicKey::from_bytes_many(x).into_iter().flatten() {
                if k.is_ok() {
                    ok += 1;
                }
            }
            if ok > 0 {
                "parsed"
            } else {
                "rejected"
            }
        }
    }
}

fn family_n(tier: Tier, fam: usize) -> usize {
    let base = match fam {
        // bounded by a 16-bit area length
        14 => 4_000,
        // verification of n signatures is public-key work per signature: keep n moderate
        8 | 9 | 16 => tier.pick(1_000, 4_000),
        3 | 5 | 6 | 23 => tier.pick(6_000, 25_000),
        _ => tier.pick(25_000, 100_000),
    };
    base
}

fn measure_family(fam: usize, n: usize) -> (usize, usize, Usage, f64, &'static str) {
    let x = family_input(fam, n);
    family_run(fam, &x[..x.len().min(4096)]); // warm-up
    let mut best = f64::MAX;
    let mut usage = Usage::default();
    let mut class = "";
    for _ in 0..3 {
        let t0 = thread_cpu_time();
        let (c, u) = measure(|| family_run(fam, &x));
        best = best.min(thread_cpu_time() - t0);
        usage = u;
        class = c;
        if best > 1.0 {
            // clock noise is irrelevant at this scale
            break;
        }
    }
    (n, x.len(), usage, best, class)
}

/// growth steps: allocation work is compared at n, 2n, 8n (deterministic); CPU time at n and 8n
/// (linear = x8, quadratic = x64, threshold x24 so that cache effects and a loaded machine
/// cannot reach it), with a 2 ms floor for the small measurement
const TIME_FACTOR: f64 = 24.0;

fn run_family(tier: Tier, fam: usize) -> Outcome {
    let n = family_n(tier, fam);
    let mut o = Outcome::ok("");
    let rows: Vec<_> = [1usize, 2, 8].iter().map(|k| measure_family(fam, n * k)).collect();
    let desc = FAMILIES[fam];
    let (n1, len1, u1, mut t1, c1) = rows[0];
    let (_, _, u2, _, _) = rows[1];
    let (n8, len8, u8_, mut t8, c8) = rows[2];
    // allocation work linear in the input (deterministic)
    let grow = |a: u64, b: u64| (b as f64 + 65536.0) / (a as f64 + 65536.0);
    let summary = |t1: f64, t8: f64| {
        format!(
            "n={n1}: {len1} B in, peak {} B, allocated {} B in {} requests, {:.1} ms ({c1}); n={n8}: {len8} B in, peak {} B, allocated {} B in {} requests, {:.1} ms ({c8})",
            u1.peak, u1.total, u1.allocs, t1 * 1e3, u8_.peak, u8_.total, u8_.allocs, t8 * 1e3
        )
    };
    if grow(u1.total, u2.total) > 2.6 || grow(u1.total, u8_.total) > 11.0 {
        o.push(format!("C19:repetition:{fam}:allocation-work-superlinear"), format!("{desc}: {}", summary(t1, t8)));
    }
    if grow(u1.allocs, u8_.allocs) > 11.0 {
        o.push(format!("C19:repetition:{fam}:allocation-count-superlinear"), format!("{desc}: {}", summary(t1, t8)));
    }
    if t8 > TIME_FACTOR * t1.max(0.002) {
        // measure again before believing a clock
        t1 = t1.min(measure_family(fam, n).3);
        t8 = t8.min(measure_family(fam, n * 8).3);
        if t8 > TIME_FACTOR * t1.max(0.002) {
            o.push(format!("C19:repetition:{fam}:time-superlinear"), format!("{desc}: {}", summary(t1, t8)));
        }
    }
    // peak proportional to the bytes present
    for (_, len, u, _, _) in &rows {
        if u.peak > 4 * 1024 * 1024 + 96 * len {
            o.push(format!("C19:repetition:{fam}:peak-not-proportional"), format!("{desc}: {}", summary(t1, t8)));
            break;
        }
    }
    o.class = format!("family {fam}: {c1}/{c8}");
    o.evals = 9;
    o
}

fn family_case_json(fam: u64) -> Value {
    json!({"family": fam, "what": FAMILIES[fam as usize]})
}

fn decl_table() -> &'static Vec<Decl> {
    static T: std::sync::OnceLock<Vec<Decl>> = std::sync::OnceLock::new();
    T.get_or_init(decl_cases)
}

fn decl_case_json(i: u64) -> Value {
    serde_json::to_value(&decl_table()[i as usize]).unwrap_or(Value::Null)
}

pub fn worker(tier: Tier, space: &str, start: u64, end: u64) -> Option<Value> {
    match space {
        "repetition" => Some(worker::child_run(start, end, family_case_json, |i| run_family(tier, i as usize))),
        // an absurd allocation request aborts the process: worker processes turn that into a
        // finding attributed to the single case
        "declared_sizes" => Some(worker::child_run(start, end, decl_case_json, |i| run_decl(&decl_table()[i as usize]))),
        // a library that accepts a triple beyond the ceiling runs it: minutes and gigabytes
        "argon2_ceiling" => Some(worker::child_run(start, end, |i| json!(i), |i| run_argon2(tier, i as u8))),
        _ => None,
    }
}

// ---------------------------------------------------------------------------------------------
// (c) streaming through a fixed ring buffer

struct Ring {
    q: Mutex<(VecDeque<u8>, bool, bool)>,
    cv: Condvar,
    cap: usize,
}

#[derive(Clone)]
struct PipeWriter(Arc<Ring>);
struct PipeReader(Arc<Ring>);

impl std::fmt::Debug for PipeReader {
    fn fmt(&self, f: &mut std::fmt::Formatter<'_>) -> std::fmt::Result {
        f.write_str("PipeReader")
    }
}

fn pipe(cap: usize) -> (PipeWriter, PipeReader) {
    let r = Arc::new(Ring { q: Mutex::new((VecDeque::with_capacity(cap), false, false)), cv: Condvar::new(), cap });
    (PipeWriter(r.clone()), PipeReader(r))
}

impl Write for PipeWriter {
    fn write(&mut self, buf: &[u8]) -> std::io::Result<usize> {
        let mut g = self.0.q.lock().unwrap();
        loop {
            if g.2 {
                return Err(std::io::Error::new(std::io::ErrorKind::BrokenPipe, "reader gone"));
            }
            let room = self.0.cap - g.0.len();
            if room > 0 {
                let n = room.min(buf.len());
                g.0.extend(&buf[..n]);
                self.0.cv.notify_all();
                return Ok(n);
            }
            g = self.0.cv.wait(g).unwrap();
        }
    }
    fn flush(&mut self) -> std::io::Result<()> {
        Ok(())
    }
}

impl PipeWriter {
    fn close(&self) {
        self.0.q.lock().unwrap().1 = true;
        self.0.cv.notify_all();
    }
}

impl Read for PipeReader {
    fn read(&mut self, buf: &mut [u8]) -> std::io::Result<usize> {
        if buf.is_empty() {
            return Ok(0);
        }
        let mut g = self.0.q.lock().unwrap();
        loop {
            if !g.0.is_empty() {
                let n = g.0.len().min(buf.len());
                for (i, b) in g.0.drain(..n).enumerate() {
                    buf[i] = b;
                }
                self.0.cv.notify_all();
                return Ok(n);
            }
            if g.1 {
                return Ok(0);
            }
            g = self.0.cv.wait(g).unwrap();
        }
    }
}

impl Drop for PipeReader {
    fn drop(&mut self) {
        self.0.q.lock().unwrap().2 = true;
        self.0.cv.notify_all();
    }
}

/// synthetic payload source: no allocation, `n` octets of a repeating pattern
struct Pattern {
    left: usize,
    i: usize,
}
impl Read for Pattern {
    fn read(&mut self, buf: &mut [u8]) -> std::io::Result<usize> {
        let n = buf.len().min(self.left).min(8192);
        for b in &mut buf[..n] {
            *b = (self.i.wrapping_mul(31) % 251) as u8;
            self.i += 1;
        }
        self.left -= n;
        Ok(n)
    }
}

/// `Message::from_file` / `from_armor_file`: the file entry points must stream like the reader ones.
#[derive(Clone, Debug, Hash, Serialize, Deserialize)]
struct FileRead {
    armor: bool,
    compression: u8,
}

fn run_file_read(tier: Tier, c: &FileRead) -> Outcome {
    let dir = std::env::temp_dir().join(format!("rpgp-mc-c19-{}-{:?}", std::process::id(), std::thread::current().id()));
    if std::fs::create_dir_all(&dir).is_err() {
        return Outcome::trivial("no scratch directory");
    }
    let path = dir.join("big.pgp");
    let cfg = MsgCfg { source: 1, armor: c.armor, compression: c.compression, partial_exp: 0, ..Default::default() };
    let sizes: Vec<usize> = tier.pick(vec![1 << 20, 16 << 20], vec![1 << 20, 16 << 20, 64 << 20]);
    let mut peaks = Vec::new();
    let mut o = Outcome::ok("");
    for &size in &sizes {
        let built = std::fs::File::create(&path).map_err(|e| e.to_string()).and_then(|f| msg::build(&cfg, Pattern { left: size, i: 0 }, None, std::io::BufWriter::new(f), 5).map_err(|e| e.to_string()));
        if let Err(e) = built {
            let _ = std::fs::remove_file(&path);
            return Outcome::bad("C19:file-entry:build-error", e);
        }
        let (res, u) = measure(|| -> Result<usize, String> {
            let mut m = if c.armor { Message::from_armor_file(&path).map_err(|e| e.to_string())?.0 } else { Message::from_file(&path).map_err(|e| e.to_string())? };
            if m.is_compressed() {
                m = m.decompress().map_err(|e| e.to_string())?;
            }
            let mut buf = [0u8; 4096];
            let mut total = 0usize;
            loop {
                match m.read(&mut buf) {
                    Ok(0) => break,
                    Ok(n) => total += n,
                    Err(e) => return Err(e.to_string()),
                }
            }
            Ok(total)
        });
        match res {
            Ok(n) if n == size => {}
            other => o.push("C19:file-entry:roundtrip-broken", format!("{c:?} {} MiB: {other:?}", size >> 20)),
        }
        peaks.push((size, u.peak));
    }
    let _ = std::fs::remove_file(&path);
    let _ = std::fs::remove_dir(&dir);
    let summary = peaks.iter().map(|(s, p)| format!("{} MiB: peak {} B", s >> 20, p)).collect::<Vec<_>>().join("; ");
    let base = peaks[0].1;
    for (_, p) in &peaks[1..] {
        if *p > base + 256 * 1024 + 2 * 512 * 1024 {
            o.push("C19:file-entry:reader-peak-grows-with-file", format!("Message::{} of a {} file: {summary}", if c.armor { "from_armor_file" } else { "from_file" }, if c.compression != 0 { "compressed" } else { "literal" }));
            break;
        }
    }
    o.class = format!("read<{}KiB", (peaks.last().map(|p| p.1).unwrap_or(0) / 65536 + 1) * 64);
    o.evals = peaks.len() as u64;
    o
}

#[derive(Clone, Debug, Hash, Serialize, Deserialize)]
struct Stream {
    name: String,
    cfg: MsgCfg,
    /// 0: library default SEIPDv1 mode, 1: Streaming, 2: CheckFirst with a 1 MiB limit
    v1_mode: u8,
    /// other options set on the same DecryptionOptions value: 0 none; 1 enable_gnupg_aead after
    /// the read mode; 2 before it; 3 enable_legacy after; 4 both after
    #[serde(default)]
    opt_order: u8,
}

fn stream_cases(tier: Tier) -> Vec<Stream> {
    let base = MsgCfg { source: 1, partial_exp: 0, ..Default::default() };
    let pw = vec![EskSpec::Password(0)];
    let mut v = vec![
        Stream { name: "literal".into(), cfg: base.clone(), v1_mode: 0, opt_order: 0 },
        Stream { name: "literal, 64 KiB partial chunks".into(), cfg: MsgCfg { partial_exp: 16, ..base.clone() }, v1_mode: 0, opt_order: 0 },
        Stream { name: "zlib".into(), cfg: MsgCfg { compression: 2, ..base.clone() }, v1_mode: 0, opt_order: 0 },
        Stream { name: "signed (one-pass)".into(), cfg: MsgCfg { signers: vec![(KeyKind::Ed25519V4, 0)], ..base.clone() }, v1_mode: 0, opt_order: 0 },
        Stream { name: "SEIPDv2 AES-128 OCB 64 KiB chunks".into(), cfg: MsgCfg { enc: Enc::V2(7, 2, 10), esks: pw.clone(), ..base.clone() }, v1_mode: 0, opt_order: 0 },
        Stream { name: "SEIPDv2 AES-256 GCM 64 B chunks".into(), cfg: MsgCfg { enc: Enc::V2(9, 3, 0), esks: pw.clone(), ..base.clone() }, v1_mode: 0, opt_order: 0 },
        Stream { name: "SEIPDv1 AES-128, reader in Streaming mode".into(), cfg: MsgCfg { enc: Enc::V1(7), esks: pw.clone(), ..base.clone() }, v1_mode: 1, opt_order: 0 },
        Stream { name: "SEIPDv1 AES-128, reader in CheckFirst mode with a 1 MiB limit".into(), cfg: MsgCfg { enc: Enc::V1(7), esks: pw.clone(), ..base.clone() }, v1_mode: 2, opt_order: 0 },
        Stream { name: "signed + zlib + SEIPDv2, armored".into(), cfg: MsgCfg { compression: 2, signers: vec![(KeyKind::Ed25519V4, 0)], enc: Enc::V2(7, 2, 6), esks: pw.clone(), armor: true, ..base.clone() }, v1_mode: 0, opt_order: 0 },
    ];
    // every CFB cipher in both non-default read modes (each cipher has its own decryptor arm)
    for (sym, name) in [(1u8, "IDEA"), (2, "TripleDES"), (3, "CAST5"), (4, "Blowfish"), (8, "AES-192"), (9, "AES-256"), (10, "Twofish"), (11, "Camellia-128"), (12, "Camellia-192"), (13, "Camellia-256")] {
        for (v1_mode, label) in [(1u8, "Streaming mode"), (2, "CheckFirst with a 1 MiB limit")] {
            v.push(Stream { name: format!("SEIPDv1 {name}, reader in {label}"), cfg: MsgCfg { enc: Enc::V1(sym), esks: pw.clone(), ..base.clone() }, v1_mode, opt_order: 0 });
        }
    }
    // the read mode must survive whatever other option is set on the same value, in any order
    for (v1_mode, label) in [(1u8, "Streaming mode"), (2, "CheckFirst with a 1 MiB limit")] {
        for opt_order in 1..=4u8 {
            v.push(Stream {
                name: format!("SEIPDv1 AES-128, reader in {label}, {}", ["", "then enable_gnupg_aead", "after enable_gnupg_aead", "then enable_legacy", "then enable_legacy and enable_gnupg_aead"][opt_order as usize]),
                cfg: MsgCfg { enc: Enc::V1(7), esks: pw.clone(), ..base.clone() },
                v1_mode,
                opt_order,
            });
        }
    }
    if tier == Tier::Thorough {
        v.push(Stream { name: "deflate".into(), cfg: MsgCfg { compression: 1, ..base.clone() }, v1_mode: 0, opt_order: 0 });
        v.push(Stream { name: "bzip2".into(), cfg: MsgCfg { compression: 3, ..base.clone() }, v1_mode: 0, opt_order: 0 });
        v.push(Stream { name: "SEIPDv2 AES-128 EAX 4 MiB chunks".into(), cfg: MsgCfg { enc: Enc::V2(7, 1, 16), esks: pw.clone(), ..base.clone() }, v1_mode: 0, opt_order: 0 });
        v.push(Stream { name: "two signers, text mode".into(), cfg: MsgCfg { signers: vec![(KeyKind::Ed25519V4, 0), (KeyKind::EcdsaP256V4, 0)], ..base }, v1_mode: 0, opt_order: 0 });
    }
    v
}

struct StreamRun {
    build_peak: usize,
    read_peak: usize,
    read_ok: bool,
    read_bytes: usize,
    verified: bool,
    err: String,
}

fn stream_once(c: &Stream, size: usize) -> StreamRun {
    let (w, r) = pipe(256 * 1024);
    let cfg = c.cfg.clone();
    let w2 = w.clone();
    let builder = std::thread::spawn(move || {
        let mut w = w;
        let (res, u) = measure(|| msg::build(&cfg, Pattern { left: size, i: 0 }, None, &mut w, 5));
        w.close();
        (res.map_err(|e| e.to_string()), u)
    });
    let cfg = c.cfg.clone();
    let mode = c.v1_mode;
    let opt_order = c.opt_order;
    let reader = std::thread::spawn(move || {
        let (res, u) = measure(|| -> Result<(usize, bool), String> {
            let src = BufReader::with_capacity(8192, r);
            let m = if cfg.armor { Message::from_armor(src).map_err(|e| e.to_string())?.0 } else { Message::from_bytes(src).map_err(|e| e.to_string())? };
            let mut m = if cfg.enc != Enc::None {
                let read_mode = match mode {
                    1 => Seipdv1ReadMode::Streaming,
                    2 => Seipdv1ReadMode::CheckFirst { max_message_size: 1024 * 1024 },
                    _ => Seipdv1ReadMode::default(),
                };
                let new = pgp::composed::DecryptionOptions::new;
                let opts = match opt_order {
                    1 => new().set_seipdv1_read_mode(read_mode).enable_gnupg_aead(),
                    2 => new().enable_gnupg_aead().set_seipdv1_read_mode(read_mode),
                    3 => new().set_seipdv1_read_mode(read_mode).enable_legacy(),
                    4 => new().set_seipdv1_read_mode(read_mode).enable_legacy().enable_gnupg_aead(),
                    _ => new().set_seipdv1_read_mode(read_mode),
                };
                let pw = Password::from(msg::PASSWORDS[0]);
                let ring = pgp::composed::TheRing { message_password: vec![&pw], decrypt_options: opts, ..Default::default() };
                m.decrypt_the_ring(ring, true).map_err(|e| e.to_string())?.0
            } else {
                m
            };
            if m.is_compressed() {
                m = m.decompress().map_err(|e| e.to_string())?;
            }
            if cfg.compression != 0 && m.is_signed() {
                m = m.decompress().map_err(|e| e.to_string())?;
            }
            let mut buf = [0u8; 4096];
            let mut total = 0usize;
            loop {
                match m.read(&mut buf) {
                    Ok(0) => break,
                    Ok(n) => total += n,
                    Err(e) => return Err(format!("read after {total} octets: {e}")),
                }
            }
            let mut verified = true;
            for (k, _) in &cfg.signers {
                let cert = common::cert(*k, 1);
                verified &= m.verify_nested(&[cert.primary_key.public_key()]).map(|v| v.iter().all(|r| matches!(r, pgp::composed::VerificationResult::Valid(_)))).unwrap_or(false);
            }
            Ok((total, verified))
        });
        (res, u)
    });
    let (rres, ru) = reader.join().expect("reader thread");
    // a reader that gave up leaves the builder blocked: the dropped PipeReader unblocks it
    let (bres, bu) = builder.join().expect("builder thread");
    drop(w2);
    let (read_ok, read_bytes, verified, err) = match (&rres, &bres) {
        (Ok((n, v)), _) => (true, *n, *v, String::new()),
        (Err(e), _) => (false, 0, false, e.clone()),
    };
    let _ = bres;
    StreamRun { build_peak: bu.peak, read_peak: ru.peak, read_ok, read_bytes, verified, err }
}

fn run_stream(tier: Tier, c: &Stream) -> Outcome {
    // warm certificates and lazily built tables outside the measured windows
    let _ = stream_once(c, 4096);
    let sizes: Vec<usize> = match tier {
        Tier::Quick => vec![1 << 20, 16 << 20],
        Tier::Thorough => vec![1 << 20, 16 << 20, 256 << 20],
    };
    let mut o = Outcome::ok("");
    let runs: Vec<(usize, StreamRun)> = sizes.iter().map(|s| (*s, stream_once(c, *s))).collect();
    let summary = runs.iter().map(|(s, r)| format!("{} MiB: build peak {} B, read peak {} B{}", s >> 20, r.build_peak, r.read_peak, if r.read_ok { String::new() } else { format!(" ({})", r.err) })).collect::<Vec<_>>().join("; ");
    // the buffers of the pipeline are sized by its largest unit (AEAD chunk, partial-body chunk):
    // "independent of the message size" is judged from the first message that fills them
    let chunk = match c.cfg.enc {
        Enc::V2(_, _, ch) => 1usize << (ch as usize + 6),
        _ => 0,
    };
    let partial = if c.cfg.partial_exp == 0 { 512 * 1024 } else { 1usize << c.cfg.partial_exp };
    let unit = chunk.max(partial);
    let base_i = runs.iter().position(|(s, _)| *s >= 2 * unit).unwrap_or(runs.len() - 1);
    let small = &runs[base_i].1;
    for (s, r) in &runs {
        if c.v1_mode == 2 {
            // 1 MiB limit: the 1 MiB message (plus framing) and larger ones exceed it
            if r.read_ok {
                o.push("C19:streaming:checkfirst-limit-not-enforced", format!("{}: a {} MiB message was released under a 1 MiB limit; {summary}", c.name, s >> 20));
            }
            if r.read_peak > 3 * 1024 * 1024 + 512 * 1024 {
                o.push("C19:streaming:checkfirst-buffers-beyond-limit", format!("{}: {summary}", c.name));
            }
        } else if !r.read_ok || r.read_bytes != *s || !r.verified {
            o.push("C19:streaming:roundtrip-broken", format!("{}: {} MiB: ok={} bytes={} verified={} {}", c.name, s >> 20, r.read_ok, r.read_bytes, r.verified, r.err));
        }
    }
    // bounded buffer: independent of the message size.  The allowance covers allocator size
    // classes and one more buffer of the pipeline's unit being alive at the peak (which buffers
    // coexist depends on how the sink drains; measured: +1 partial-chunk buffer for zlib at
    // 256 MiB) - growth with the message would be hundreds of units
    let allowance = 256 * 1024 + 2 * unit;
    for (_, r) in &runs[base_i + 1..] {
        if r.build_peak > small.build_peak + allowance {
            o.push("C19:streaming:builder-peak-grows-with-message", format!("{}: {summary}", c.name));
        }
        if c.v1_mode != 2 && r.read_peak > small.read_peak + allowance {
            o.push("C19:streaming:reader-peak-grows-with-message", format!("{}: {summary}", c.name));
        }
    }
    // absolute ceiling for every size: a small multiple of the largest unit + compression state
    let ceiling = 8 * 1024 * 1024 + 8 * chunk + 4 * partial;
    for (_, r) in &runs {
        if r.build_peak > ceiling || (c.v1_mode != 2 && r.read_peak > ceiling) {
            o.push("C19:streaming:peak-above-fixed-ceiling", format!("{}: ceiling {ceiling} B; {summary}", c.name));
            break;
        }
    }
    o.class = format!("build<{}KiB read<{}KiB", (runs.last().unwrap().1.build_peak / 65536 + 1) * 64, (runs.last().unwrap().1.read_peak / 65536 + 1) * 64);
    o.evals = runs.len() as u64;
    o
}

// ---------------------------------------------------------------------------------------------
// (d) key derivation ceilings

/// the documented ceiling: t <= 32, p <= 32, m <= 2 GiB (encoded 21)
fn inside_ceiling(t: u8, p: u8, m: u8) -> bool {
    t <= 32 && p <= 32 && m <= 21
}

/// boundary values of one parameter octet while another is swept completely
const ARGON_EDGE: [u8; 12] = [0, 1, 2, 4, 16, 21, 22, 31, 32, 33, 128, 255];

fn run_argon2(tier: Tier, t: u8) -> Outcome {
    // one case = one value of t; thorough: all 65536 (p, m) pairs; quick: p and m each swept
    // completely against the edge values of the other (and t itself takes all 256 values
    // against the edge x edge grid)
    let mut o = Outcome::ok("");
    let (mut refused, mut executed, mut skipped) = (0u64, 0u64, 0u64);
    let t_is_edge = ARGON_EDGE.contains(&t);
    // cheapest first: memory exponent ascending, then lanes
    for m in 0..=255u8 {
        for p in 0..=255u8 {
            if tier == Tier::Quick {
                let (pe, me) = (ARGON_EDGE.contains(&p), ARGON_EDGE.contains(&m));
                let keep = (pe && me) || (t_is_edge && (pe || me));
                if !keep {
                    continue;
                }
            }
            let s2k = StringToKey::Argon2 { salt: [7u8; 16], t, p, m_enc: m };
            if !inside_ceiling(t, p, m) {
                let (r, u) = measure(|| s2k.derive_key(b"password", 32));
                if r.is_ok() {
                    o.push("C19:argon2:parameters-beyond-ceiling-accepted", format!("Argon2 t={t} p={p} m=2^{m} KiB: derive_key ran to completion"));
                    // the remaining triples of this case would be executed at full cost by a
                    // library that accepts them: one witness is enough
                    o.evals = refused + executed + 1;
                    o.class = "beyond-ceiling-accepted".into();
                    return o;
                } else if u.peak > 64 * 1024 {
                    o.push("C19:argon2:refusal-not-cheap", format!("Argon2 t={t} p={p} m=2^{m} KiB: refused, but only after allocating {} B", u.peak));
                }
                refused += 1;
            } else if m <= 9 && t <= 3 && p <= 4 {
                // cheap enough to run: memory must stay within the declared m
                let (r, u) = measure(|| s2k.derive_key(b"password", 32));
                let legal = t >= 1 && p >= 1 && (1u64 << m) >= 8 * p as u64;
                if r.is_ok() != legal {
                    // RFC 9106: m >= 8p, t >= 1, p >= 1
                    o.push("C19:argon2:legal-parameters-verdict", format!("Argon2 t={t} p={p} m=2^{m} KiB: ok={} but legal={legal}", r.is_ok()));
                }
                if u.peak > (1usize << m) * 1024 + 256 * 1024 {
                    o.push("C19:argon2:memory-above-declared", format!("Argon2 t={t} p={p} m=2^{m} KiB: peak {} B", u.peak));
                }
                executed += 1;
            } else {
                skipped += 1;
            }
        }
    }
    o.evals = refused + executed;
    o.class = format!("refused={refused} executed={executed} inside-ceiling-not-executed={skipped}");
    o
}

#[derive(Clone, Debug, Hash, Serialize, Deserialize)]
struct Iter {
    count: u8,
    hash: u8,
    key_size: usize,
}

fn run_iterated(c: &Iter) -> Outcome {
    let hash = pgp::crypto::hash::HashAlgorithm::from(c.hash);
    let s2k = StringToKey::IteratedAndSalted { hash_alg: hash, salt: [3u8; 8], count: c.count };
    let t0 = thread_cpu_time();
    let (r, u) = measure(|| s2k.derive_key(b"password", c.key_size));
    let dt = thread_cpu_time() - t0;
    let mut o = Outcome::ok(if r.is_ok() { "derived" } else { "refused" });
    if u.peak > 64 * 1024 {
        o.push("C19:iterated-s2k:allocation-follows-count", format!("count octet {} (={} octets hashed) hash {} key {}: peak {} B", c.count, crate::reference::kdf::decode_count(c.count), c.hash, c.key_size, u.peak));
    }
    // linear in the count: at most ~25 ns per hashed octet per round even for the slowest hash
    let rounds = c.key_size.div_ceil(16).max(1);
    let budget = 0.05 + crate::reference::kdf::decode_count(c.count) as f64 * rounds as f64 * 60e-9;
    if dt > budget {
        o.push("C19:iterated-s2k:time-above-linear-budget", format!("count octet {} hash {} key {}: {:.3} s, budget {:.3} s", c.count, c.hash, c.key_size, dt, budget));
    }
    o
}

// ---------------------------------------------------------------------------------------------

pub fn check(ctx: &Ctx) {
    let tier = ctx.tier;
    let decl_rule = format!(
        "{} seed packets (every packet type / version the library and the models produce): EVERY length-like field found by the reference field map (MPI bit counts, curve OID length, v6 key material length, subpacket area lengths, subpacket lengths, salt / fingerprint / S2K parameter / ESK / file name / user attribute subpacket lengths) set to each value of a ladder reaching 2^32-1 (1-octet: 7F 80 FE FF; 2-octet: 7FFF 8000 FFF8 FFFF; 4-octet and variable-length forms: 2^16 2^20 2^24 2^31-1 2^31 2^32-1), and the packet header in every form declaring 2^16..2^32-1 (new 5-octet, legacy 4-octet, legacy indeterminate, partial first chunk 2^9..2^30) over the unchanged short body; parsed through PacketParser and the typed entry point for the tag; counting allocator: peak and largest single request <= peak of the unmodified artefact + 24 KiB + 4 x input; run in worker processes (an allocation request that aborts the process is attributed to its case)",
        decl_seeds().len()
    );
    worker::run_sharded(ctx, "declared_sizes", true, &decl_rule, decl_table().len() as u64, 250, Duration::from_secs(tier.pick(120, 600)), &decl_case_json);
    worker::run_sharded(
        ctx,
        "repetition",
        true,
        "25 repetition families (a cleartext document with n Hash: header lines, markers, padding, signatures, user ids, prefixed / one-pass signatures around a literal, prefixed signatures in front combined with skipped packets behind the data of a one-pass message, certificates with n user ids / certifications / subkeys, n certificates, armor header lines / leading text (slice source and 8 KiB-refill source) / blank lines / body lines, armored certificate with n headers, header sections that start with a whitespace-only line of FF / VT / NBSP, cleartext dash-escaped lines, subpackets in one area, user attribute packets), each at n, 2n, 8n (n = 25000 quick / 100000 thorough; signature-verifying families 1000..25000): allocation work (bytes, requests; deterministic) within x2.6 / x11, CPU time (best of 3, re-measured before it is believed) at 8n within x24 of n (linear x8, quadratic x64), peak <= 4 MiB + 96 x input; each family in its own watchdogged process (stack overflow / hang = finding)",
        FAMILIES.len() as u64,
        1,
        Duration::from_secs(tier.pick(120, 1200)),
        &family_case_json,
    );
    ctx.run_space(
        "streaming",
        true,
        "messages of 1 and 16 MiB (thorough: 256 MiB) produced by MessageBuilder::from_reader from an allocation-free source and consumed by Message::from_bytes / from_armor -> decrypt -> decompress -> 4 KiB reads -> verify through a fixed 256 KiB ring buffer between two threads, for 9 (13) configurations (literal, partial sizes, zlib/deflate/bzip2, one-pass signed, SEIPDv2 with 64 B / 64 KiB / 4 MiB chunks, SEIPDv1 in streaming mode and CheckFirst with a limit for each of the 11 CFB ciphers, option orders, armored stack): per-thread allocation peak at the larger sizes <= peak at the first size that fills the pipeline's largest unit (AEAD chunk / partial chunk) + 256 KiB + 2 units, and below a fixed ceiling (8 MiB + 8 x chunk + 4 x partial); SEIPDv1 CheckFirst with a 1 MiB limit must refuse every message above it while buffering <= 3.5 MiB",
        stream_cases(tier).into_par_iter(),
        |c| run_stream(tier, c),
    );
    ctx.run_space(
        "file_entry_points",
        true,
        "Message::from_file and Message::from_armor_file on files of 1 and 16 (thorough 64) MiB (literal, zlib) read with 4 KiB reads: allocation peak independent of the file size",
        vec![FileRead { armor: false, compression: 0 }, FileRead { armor: true, compression: 0 }, FileRead { armor: false, compression: 2 }].into_par_iter(),
        |c| run_file_read(tier, c),
    );
    worker::run_sharded(ctx, "argon2_ceiling", true, "Argon2 parameter triples (t, p, encoded m) through StringToKey::derive_key - thorough: ALL 2^24; quick: every value 0..255 of each octet against the 12 x 12 grid of edge values {0,1,2,4,16,21,22,31,32,33,128,255} of the other two (~100000 triples): every triple beyond the documented ceiling (t > 32 or p > 32 or m > 2^21 KiB) must be refused with < 64 KiB allocated; triples inside the ceiling are executed where cheap (m <= 2^9 KiB, t <= 3, p <= 4): verdict = RFC 9106 legality, peak <= declared m + 256 KiB; evaluations = triples executed or refused", 256, tier.pick(8, 4), Duration::from_secs(tier.pick(90, 600)), &|i| json!(i));
    let hashes: Vec<u8> = tier.pick(vec![2, 8], vec![1, 2, 3, 8, 9, 10, 11, 12, 14]);
    let iters: Vec<Iter> = (0..=255u8).flat_map(|count| hashes.iter().flat_map(move |h| [16usize, 32].into_iter().map(move |key_size| Iter { count, hash: *h, key_size }))).filter(|c| tier == Tier::Thorough || c.key_size == 32 || c.count % 16 == 15).collect();
    ctx.run_space(
        "iterated_s2k",
        true,
        "iterated+salted S2K for ALL 256 count octets x hash algorithms (quick: SHA-1, SHA-256; thorough: 9 algorithms) x key sizes 16/32: allocation peak < 64 KiB whatever the count (no count-sized buffer), CPU time within a linear budget (60 ns per hashed octet and round + 50 ms)",
        iters.into_par_iter(),
        run_iterated,
    );
    ctx.assume("CPU-time oracles use thread CPU time (schedstat), best of three, with a threshold between linear (x8) and quadratic (x64) growth on an 8x step; a machine under extreme load can only make a run slower, which the on-CPU clock discounts");
    ctx.assume("Argon2 triples inside the ceiling with m > 2^9 KiB are not executed (up to 2 GiB and minutes each); their count is reported");
    ctx.assume("nested containers deeper than the message grammar allows per call (decompress / decrypt are one layer per caller call) are caller-driven loops, not library recursion; one-pass / prefixed signature nesting is family 5 and 6");
}

pub fn replay(space: &str, case: &Value) -> Option<Outcome> {
    match space {
        "declared_sizes" => replay_as::<Decl>(case, run_decl),
        "repetition" => {
            let fam = case["family"].as_u64()? as usize;
            if let Some(n) = case["n"].as_u64() {
                // diagnostic: one size, one run
                let x = family_input(fam, n as usize);
                let t0 = thread_cpu_time();
                let (c, u) = measure(|| family_run(fam, &x));
                println!("family {fam} n={n}: {} B in, {c}, {:.1} ms, {u:?}", x.len(), (thread_cpu_time() - t0) * 1e3);
                return Some(Outcome::ok(c));
            }
            // the tier of the original run is not recorded: quick sizes reproduce growth findings
            Some(run_family(Tier::Quick, fam))
        }
        "streaming" => replay_as::<Stream>(case, |c| run_stream(Tier::Thorough, c)),
        "file_entry_points" => replay_as::<FileRead>(case, |c| run_file_read(Tier::Quick, c)),
        "argon2_ceiling" => Some(run_argon2(Tier::Thorough, case.as_u64()? as u8)),
        "iterated_s2k" => replay_as::<Iter>(case, run_iterated),
        _ => None,
    }
}
