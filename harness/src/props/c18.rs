//! C18 — recipients: every intended recipient can decrypt, nobody else gets plaintext.
//!
//! Recipient sets x every ordered selection of presented secrets (recipients and decoys) x entry
//! points; reference model: set arithmetic over (presented, recipients).

use std::{io::Read, sync::Arc};

use pgp::{
    composed::{DecryptionOptions, Message, PlainSessionKey, SignedSecretKey, TheRing},
    crypto::{hash::HashAlgorithm, sym::SymmetricKeyAlgorithm},
    types::{Password, S2kParams, StringToKey},
};
use rayon::prelude::*;
use serde::{Deserialize, Serialize};
use serde_json::Value;

use crate::{
    common::{
        self,
        msg::{self, Enc, EskSpec, MsgCfg},
        KeyKind,
    },
    engine::{replay_as, Ctx, Outcome, Tier},
    reference::codec::{self, Kind},
};

#[derive(Clone, Copy, Debug, Hash, PartialEq, Eq, Serialize, Deserialize)]
pub enum Secret {
    /// the recipient key number i of the message (as in cfg.esks), unlocked
    RecipientKey(usize),
    /// the same, locked with LOCK_PW; `pw`: 0 = no key password presented, 1 = wrong one,
    /// 2 = the right one, 3 = wrong then right
    LockedRecipientKey(usize, u8),
    /// an unrelated key of the same kind as recipient i (another seed)
    DecoyKey(usize),
    /// message password number i of the message
    RecipientPassword(usize),
    /// a password nobody encrypted to
    DecoyPassword,
    /// the real session key
    SessionKey,
    /// a wrong session key: 0 = same cipher other bytes, 1 = other cipher / length,
    /// 2 = right bytes but wrong variant (v3/v4 vs v6), 3 = right bytes wrong cipher id
    WrongSessionKey(u8),
}

impl Secret {
    fn is_recipient_secret(self) -> bool {
        matches!(
            self,
            Secret::RecipientKey(_)
                | Secret::LockedRecipientKey(_, 2)
                | Secret::LockedRecipientKey(_, 3)
                | Secret::RecipientPassword(_)
                | Secret::SessionKey
        )
    }
}

#[derive(Clone, Copy, Debug, Hash, PartialEq, Eq, Serialize, Deserialize)]
pub enum Entry {
    RingAbortEarly,
    RingCheckAll,
    /// decrypt / decrypt_with_password / decrypt_with_session_key (single secret only)
    Simple,
    /// decrypt_legacy (a single key)
    Legacy,
    /// decrypt_with_keys (keys and key passwords only)
    WithKeys,
}

#[derive(Clone, Debug, Hash, Serialize, Deserialize)]
pub struct Case {
    pub cfg: MsgCfg,
    pub presented: Vec<Secret>,
    pub entry: Entry,
    pub n: usize,
    /// forge the recipient id of PKESK number i to name the decoy key (the wrapped key stays)
    pub forge_id_to_decoy: Option<usize>,
}

const LOCK_PW: &str = "key-lock-pw";

fn locked(cert: &SignedSecretKey) -> SignedSecretKey {
    use rand::Rng;
    let mut c = cert.clone();
    let mut rng = crate::engine::rng(99);
    let mut iv = vec![0u8; 16];
    rng.fill(&mut iv[..]);
    let params = S2kParams::Cfb {
        sym_alg: SymmetricKeyAlgorithm::AES128,
        s2k: StringToKey::new_iterated(&mut rng, HashAlgorithm::Sha256, 0),
        iv: iv.into(),
    };
    for s in c.secret_subkeys.iter_mut() {
        s.key
            .set_password_with_s2k(&Password::from(LOCK_PW), params.clone())
            .expect("lock subkey");
    }
    c.primary_key
        .set_password_with_s2k(&Password::from(LOCK_PW), params)
        .expect("lock primary");
    c
}

fn wrong_session_key(cfg: &MsgCfg, seed: u64, how: u8) -> PlainSessionKey {
    let real = msg::session_key(cfg, seed).expect("encrypted message");
    let (bytes, v6) = match &real {
        PlainSessionKey::V3_4 { key, .. } => (key.as_ref().to_vec(), false),
        PlainSessionKey::V6 { key } | PlainSessionKey::V5 { key } => (key.as_ref().to_vec(), true),
    };
    let sym = match cfg.enc {
        Enc::V1(s) | Enc::V2(s, _, _) => s,
        Enc::None => 7,
    };
    let mk = |b: Vec<u8>, v6: bool, sym: u8| {
        if v6 {
            PlainSessionKey::V6 { key: b.into() }
        } else {
            PlainSessionKey::V3_4 {
                sym_alg: SymmetricKeyAlgorithm::from(sym),
                key: b.into(),
            }
        }
    };
    match how {
        0 => {
            let mut b = bytes;
            // not the low bit: it is a parity bit in (Triple)DES keys, i.e. the same key
            b[0] ^= 0x10;
            mk(b, v6, sym)
        }
        1 => mk(vec![0x55; if bytes.len() == 16 { 32 } else { 16 }], v6, if sym == 7 { 9 } else { 7 }),
        2 => mk(bytes, !v6, sym),
        _ => mk(bytes, v6, if sym == 7 { 11 } else { 7 }),
    }
}

struct Presented {
    keys: Vec<Arc<SignedSecretKey>>,
    locked_keys: Vec<SignedSecretKey>,
    key_pws: Vec<Password>,
    msg_pws: Vec<Password>,
    sks: Vec<PlainSessionKey>,
}

fn decoy_cert(kind: KeyKind) -> Arc<SignedSecretKey> {
    common::cert(kind, 4242)
}

fn gather(c: &Case, seed: u64) -> Presented {
    let mut p = Presented {
        keys: vec![],
        locked_keys: vec![],
        key_pws: vec![],
        msg_pws: vec![],
        sks: vec![],
    };
    let kind_of = |i: usize| match c.cfg.esks[i] {
        EskSpec::Key(k, _) => k,
        _ => KeyKind::Ed25519V4,
    };
    for s in &c.presented {
        match *s {
            Secret::RecipientKey(i) => p.keys.push(common::cert(kind_of(i), 3)),
            Secret::LockedRecipientKey(i, pw) => {
                p.locked_keys.push(locked(&common::cert(kind_of(i), 3)));
                match pw {
                    1 => p.key_pws.push(Password::from("not-the-lock-pw")),
                    2 => p.key_pws.push(Password::from(LOCK_PW)),
                    3 => {
                        p.key_pws.push(Password::from("not-the-lock-pw"));
                        p.key_pws.push(Password::from(LOCK_PW));
                    }
                    _ => {}
                }
            }
            Secret::DecoyKey(i) => p.keys.push(decoy_cert(kind_of(i))),
            Secret::RecipientPassword(i) => p.msg_pws.push(Password::from(msg::PASSWORDS[i % 3])),
            Secret::DecoyPassword => p.msg_pws.push(Password::from("nobody's password")),
            Secret::SessionKey => p.sks.push(msg::session_key(&c.cfg, seed).expect("sk")),
            Secret::WrongSessionKey(h) => p.sks.push(wrong_session_key(&c.cfg, seed, h)),
        }
    }
    p
}

fn run(c: &Case) -> Outcome {
    let seed = 3000 + c.n as u64;
    let (bytes, payload) = match build_message_simple(c, seed) {
        Ok(x) => x,
        Err(e) => return Outcome::bad("C18:build-error", format!("{:?}: {e}", c.cfg)),
    };
    let p = gather(c, seed);
    let msg = match Message::from_bytes(&bytes[..]) {
        Ok(m) => m,
        Err(e) => return Outcome::bad("C18:own-message-rejected", e.to_string()),
    };
    // expected by set arithmetic
    let forged = c.forge_id_to_decoy;
    let recipient_present = c.presented.iter().any(|s| match *s {
        Secret::RecipientKey(i) | Secret::LockedRecipientKey(i, 2) | Secret::LockedRecipientKey(i, 3) => {
            // a recipient whose PKESK was re-addressed to the decoy no longer finds it
            // (unless it was anonymous)
            Some(i) != forged
        }
        Secret::WrongSessionKey(3) => matches!(c.cfg.enc, Enc::V2(..)),
        other => other.is_recipient_secret(),
    });
    let is_v2 = matches!(c.cfg.enc, Enc::V2(..));
    // shape 3 (right bytes, other cipher id) does not exist for v6 session keys: it IS the key
    let really_wrong = |s: &Secret| matches!(s, Secret::WrongSessionKey(h) if !(is_v2 && *h == 3));
    let has_wrong_sk = c.presented.iter().any(really_wrong);
    let has_right_sk = c.presented.iter().any(|s| *s == Secret::SessionKey || (is_v2 && *s == Secret::WrongSessionKey(3)));
    let other_real = c.presented.iter().any(|s| {
        matches!(
            s,
            Secret::RecipientKey(_) | Secret::LockedRecipientKey(_, 2) | Secret::LockedRecipientKey(_, 3) | Secret::RecipientPassword(_)
        )
    });
    // abort_early short-circuits on the FIRST presented session key
    let first_sk_wrong = c
        .presented
        .iter()
        .find(|s| matches!(s, Secret::SessionKey | Secret::WrongSessionKey(_)))
        .map(really_wrong)
        .unwrap_or(false);

    #[derive(PartialEq, Debug)]
    enum Expect {
        Plaintext,
        Error,
        /// conflict must be reported (check-all) -- an error
        Conflict,
    }
    let expect = match c.entry {
        Entry::RingCheckAll => {
            if has_wrong_sk && (has_right_sk || other_real) {
                Expect::Conflict
            } else if recipient_present {
                Expect::Plaintext
            } else {
                Expect::Error
            }
        }
        Entry::RingAbortEarly | Entry::Simple | Entry::Legacy | Entry::WithKeys => {
            if has_wrong_sk || has_right_sk {
                if first_sk_wrong {
                    Expect::Error
                } else {
                    Expect::Plaintext
                }
            } else if recipient_present {
                Expect::Plaintext
            } else {
                Expect::Error
            }
        }
    };

    // run
    let key_refs: Vec<&SignedSecretKey> = p.keys.iter().map(|k| &**k).chain(p.locked_keys.iter()).collect();
    let res: Result<Message<'_>, String> = match c.entry {
        Entry::Simple => match c.presented[0] {
            Secret::RecipientKey(_) | Secret::DecoyKey(_) => msg.decrypt(&Password::empty(), key_refs[0]).map_err(|e| e.to_string()),
            Secret::LockedRecipientKey(_, _) => {
                let pw = p.key_pws.last().map(|p| p.read().to_vec()).unwrap_or_default();
                msg.decrypt(&Password::from(&pw[..]), key_refs[0]).map_err(|e| e.to_string())
            }
            Secret::RecipientPassword(_) | Secret::DecoyPassword => msg.decrypt_with_password(&p.msg_pws[0]).map_err(|e| e.to_string()),
            Secret::SessionKey | Secret::WrongSessionKey(_) => msg.decrypt_with_session_key(p.sks[0].clone()).map_err(|e| e.to_string()),
        },
        Entry::Legacy => {
            let pw = p.key_pws.last().map(|p| p.read().to_vec()).unwrap_or_default();
            msg.decrypt_legacy(&Password::from(&pw[..]), key_refs[0]).map_err(|e| e.to_string())
        }
        Entry::WithKeys => msg.decrypt_with_keys(p.key_pws.iter().collect(), key_refs.clone()).map_err(|e| e.to_string()),
        Entry::RingAbortEarly | Entry::RingCheckAll => {
            let ring = TheRing {
                secret_keys: key_refs.clone(),
                key_passwords: p.key_pws.iter().collect(),
                message_password: p.msg_pws.iter().collect(),
                session_keys: p.sks.clone(),
                decrypt_options: DecryptionOptions::new(),
            };
            msg.decrypt_the_ring(ring, c.entry == Entry::RingAbortEarly)
                .map(|(m, _)| m)
                .map_err(|e| e.to_string())
        }
    };
    let (released, end_err): (Vec<u8>, Option<String>) = match res {
        Err(e) => (vec![], Some(format!("decrypt: {e}"))),
        Ok(mut m) => {
            let mut out = Vec::new();
            match m.read_to_end(&mut out) {
                Ok(_) => (out, None),
                Err(e) => (out, Some(format!("read: {e}"))),
            }
        }
    };
    let ctx = format!(
        "enc {:?} esks {:?} presented {:?} entry {:?} forged {:?}",
        c.cfg.enc, c.cfg.esks, c.presented, c.entry, c.forge_id_to_decoy
    );
    let mut o = Outcome::ok(format!("{expect:?}"));
    // "...or, for integrity-protected password packets, unrelated passwords": with SKESK v4 (no
    // integrity) an unrelated password presented alongside may win a packet by false accept; the
    // property then only demands that no WRONG plaintext comes out.
    let v4_decoy_pw = !is_v2
        && c.presented.contains(&Secret::DecoyPassword)
        && c.cfg.esks.iter().any(|e| matches!(e, EskSpec::Password(_)));
    if v4_decoy_pw && expect == Expect::Plaintext && end_err.is_some() && released.is_empty() {
        return Outcome::ok("skesk-v4-with-unrelated-password:error-tolerated");
    }
    match expect {
        Expect::Plaintext => {
            if end_err.is_some() || released != payload {
                let class = if end_err.as_deref().map(|e| e.contains("inconsistent session keys")).unwrap_or(false) {
                    "spurious-conflict"
                } else {
                    "no-plaintext"
                };
                o.push(
                    format!("C18:recipient-cannot-decrypt:{class}"),
                    format!("{ctx}: {:?}, {} of {} bytes", end_err, released.len(), payload.len()),
                );
            }
        }
        Expect::Error | Expect::Conflict => {
            if end_err.is_none() {
                let class = if expect == Expect::Conflict {
                    "conflicting-secrets-not-reported"
                } else {
                    "non-recipient-gets-a-clean-result"
                };
                o.push(
                    format!("C18:{class}"),
                    format!("{ctx}: read {} bytes to a clean end (plaintext equal: {})", released.len(), released == payload),
                );
            } else if !released.is_empty() && !(is_v2 && payload.starts_with(&released)) {
                o.push(
                    "C18:plaintext-released-to-non-recipient",
                    format!("{ctx}: {} bytes released before {:?}", released.len(), end_err),
                );
            }
        }
    }
    o
}

/// Message bytes; with a forged recipient id the ESK packets are re-assembled and the rest of the
/// stream (from the container's tag octet) is copied verbatim.
fn build_message_simple(c: &Case, seed: u64) -> Result<(Vec<u8>, Vec<u8>), String> {
    let payload = msg::payload(c.n, false);
    let bytes = msg::build_vec(&c.cfg, &payload, seed).map_err(|e| e.to_string())?;
    let Some(i) = c.forge_id_to_decoy else {
        return Ok((bytes, payload));
    };
    let EskSpec::Key(kind, _) = c.cfg.esks[i] else {
        return Err("forge target is not a key".into());
    };
    use pgp::types::KeyDetails;
    let decoy = decoy_cert(kind);
    let sub = &decoy.secret_subkeys[0].key;
    // walk the leading ESK packets by hand (all have fixed new-format lengths)
    let mut pos = 0usize;
    let mut out = Vec::new();
    let mut pk_index = 0usize;
    while pos < bytes.len() {
        let tag = bytes[pos] & 0x3F;
        if bytes[pos] & 0xC0 != 0xC0 || !(tag == 1 || tag == 3) {
            break;
        }
        let l0 = bytes[pos + 1] as usize;
        let (hlen, blen) = if l0 < 192 {
            (2, l0)
        } else if l0 < 224 {
            (3, ((l0 - 192) << 8) + bytes[pos + 2] as usize + 192)
        } else {
            return Err("unexpected ESK framing".into());
        };
        let mut body = bytes[pos + hlen..pos + hlen + blen].to_vec();
        if tag == 1 {
            if pk_index == i {
                let d = codec::decode_packet(1, &body).map_err(|e| e.to_string())?;
                if let Some(f) = d.fields.iter().find(|f| f.kind == Kind::KeyId) {
                    body[f.start..f.end].copy_from_slice(sub.legacy_key_id().as_ref());
                } else if let Some(f) = d.fields.iter().find(|f| f.kind == Kind::Fingerprint) {
                    body[f.start..f.end].copy_from_slice(sub.fingerprint().as_bytes());
                } else {
                    return Err("no recipient field to forge".into());
                }
            }
            pk_index += 1;
        }
        out.extend_from_slice(&bytes[pos..pos + hlen]);
        out.extend_from_slice(&body);
        pos += hlen + blen;
    }
    out.extend_from_slice(&bytes[pos..]);
    Ok((out, payload))
}

#[derive(Clone, Debug, Hash, Serialize, Deserialize)]
pub struct FalseAcceptCase {
    pub sym: u8,
    /// search salts until password A false-accepts SKESK B
    pub max_tries: u32,
}

/// SKESK v4 carries no integrity: another recipient's SKESK can decrypt "plausibly" under my
/// password.  Search deterministically for such a message, then decrypt with my password alone.
fn run_false_accept(c: &FalseAcceptCase) -> Outcome {
    use pgp::packet::SymKeyEncryptedSessionKey;
    let alg = SymmetricKeyAlgorithm::from(c.sym);
    let pw_a = Password::from("password-A");
    let pw_b = Password::from("password-B");
    let payload = msg::payload(100, false);
    for t in 0..c.max_tries {
        let session = alg.new_session_key(crate::engine::rng(t as u64));
        let s2k_b = StringToKey::new_iterated(crate::engine::rng(7000 + t as u64), HashAlgorithm::Sha256, 0);
        let esk_b = SymKeyEncryptedSessionKey::encrypt_v4(&pw_b, &session, s2k_b, alg).expect("skesk");
        // does A's password false-accept B's packet?
        let accepts = pgp::composed::decrypt_session_key_with_password(&esk_b, &pw_a).is_ok();
        if !accepts {
            continue;
        }
        // build the 2-password message: B's SKESK first, then A's
        let mut b = pgp::composed::MessageBuilder::from_bytes("", payload.clone()).seipd_v1(crate::engine::rng(1), alg);
        b.set_session_key(session.clone()).expect("sk");
        // the builder derives its own SKESKs; we need B's exact packet: assemble by hand
        let s2k_a = StringToKey::new_iterated(crate::engine::rng(9000 + t as u64), HashAlgorithm::Sha256, 0);
        let esk_a = SymKeyEncryptedSessionKey::encrypt_v4(&pw_a, &session, s2k_a, alg).expect("skesk");
        let container = b.to_vec(crate::engine::rng(2)).expect("container");
        use pgp::packet::PacketTrait;
        let mut stream = Vec::new();
        esk_b.to_writer_with_header(&mut stream).expect("ser");
        esk_a.to_writer_with_header(&mut stream).expect("ser");
        stream.extend_from_slice(&container);
        let m = Message::from_bytes(&stream[..]).expect("parse");
        return match m.decrypt_with_password(&pw_a) {
            Ok(mut m) => {
                let mut out = Vec::new();
                match m.read_to_end(&mut out) {
                    Ok(_) if out == payload => Outcome::ok(format!("false-accept-found-after-{t}-tries:recipient-still-decrypts")),
                    other => Outcome::bad(
                        "C18:recipient-cannot-decrypt:skesk-v4-false-accept",
                        format!("cipher {}: password A opens its own SKESK but also false-accepts B's (try {t}): read {:?}", c.sym, other.map(|_| out.len())),
                    ),
                }
            }
            Err(e) => Outcome::bad(
                "C18:recipient-cannot-decrypt:skesk-v4-false-accept",
                format!(
                    "cipher {}: message to passwords B and A; B's SKESK v4 decrypts plausibly under A's password (salt try {t}); decrypt_with_password(A) fails: {e}",
                    c.sym
                ),
            ),
        };
    }
    Outcome::trivial("no-false-accept-within-budget")
}

fn selections(cands: &[Secret], max: usize) -> Vec<Vec<Secret>> {
    fn rec(c: &[Secret], max: usize, cur: &mut Vec<Secret>, out: &mut Vec<Vec<Secret>>) {
        if !cur.is_empty() {
            out.push(cur.clone());
        }
        if cur.len() == max {
            return;
        }
        for s in c {
            if !cur.contains(s) {
                cur.push(*s);
                rec(c, max, cur, out);
                cur.pop();
            }
        }
    }
    let mut out = Vec::new();
    rec(cands, max, &mut Vec::new(), &mut out);
    out
}

/// RSA recipients: ciphertexts whose integer value has leading zero octets are stored as shorter
/// MPIs and must decrypt like any other.
#[derive(Clone, Debug, Hash, Serialize, Deserialize)]
pub struct RsaCase {
    pub v6: bool,
    /// first rng seed of a block of 256 encryptions
    pub block: u64,
}

fn run_rsa(c: &RsaCase) -> Outcome {
    use pgp::packet::PublicKeyEncryptedSessionKey;
    use pgp::types::{DecryptionKey, EskType, PkeskBytes};
    let cert = common::cert(KeyKind::Rsa2048V4, 3);
    let sub = &cert.secret_subkeys[0].key;
    let session: Vec<u8> = (0..16u8).map(|i| i.wrapping_mul(11).wrapping_add(5)).collect();
    let raw: pgp::composed::RawSessionKey = session.clone().into();
    let mut o = Outcome::ok("");
    let (mut short, mut tried) = (0u64, 0u64);
    for seed in c.block * 256..(c.block + 1) * 256 {
        let pk = if c.v6 {
            PublicKeyEncryptedSessionKey::from_session_key_v6(crate::engine::rng(0x5A00 + seed), &raw, sub.public_key())
        } else {
            PublicKeyEncryptedSessionKey::from_session_key_v3(crate::engine::rng(0x5A00 + seed), &raw, pgp::crypto::sym::SymmetricKeyAlgorithm::AES128, sub.public_key())
        };
        let Ok(pk) = pk else {
            o.push("C18:rsa:encrypt-error", format!("seed {seed}"));
            break;
        };
        let Ok(values) = pk.values() else { continue };
        let len = match values {
            PkeskBytes::Rsa { mpi } => mpi.as_ref().len(),
            _ => 256,
        };
        // every short ciphertext, and every 64th ordinary one as the control
        if len >= 256 && seed % 64 != 0 {
            continue;
        }
        tried += 1;
        if len < 256 {
            short += 1;
        }
        let typ = if c.v6 { EskType::V6 } else { EskType::V3_4 };
        match sub.decrypt(&Password::empty(), values, typ) {
            Ok(Ok(sk)) => {
                let k = match &sk {
                    pgp::composed::PlainSessionKey::V3_4 { key, .. } | pgp::composed::PlainSessionKey::V6 { key } | pgp::composed::PlainSessionKey::V5 { key } => key.as_ref().to_vec(),
                };
                if k != session {
                    o.push("C18:rsa:recipient-decrypts-to-another-key", format!("seed {seed}, ciphertext MPI of {len} octets"));
                }
            }
            Ok(Err(e)) | Err(e) => o.push("C18:recipient-cannot-decrypt:rsa-ciphertext", format!("seed {seed}: RSA ciphertext MPI of {len} octets (modulus 256): {e}")),
        }
    }
    o.evals = tried.max(1);
    o.class = if short > 0 { "short-and-ordinary-ciphertexts-decrypt".into() } else { "ordinary-ciphertexts-decrypt".into() };
    o.nontrivial = short > 0;
    o
}

/// One operation on an encrypting message builder.
#[derive(Clone, Copy, Debug, Hash, PartialEq, Eq, Serialize, Deserialize)]
pub enum BuilderOp {
    /// encrypt_to_key(recipient key i)
    Key(u8),
    /// encrypt_to_key_anonymous(recipient key i)
    AnonKey(u8),
    /// encrypt_with_password(password i)
    Pw(u8),
    /// set_session_key(fixed key number i of the right length)
    SetSessionKey(u8),
    /// set_session_key with a key of the wrong length
    SetBadSessionKey,
}

#[derive(Clone, Debug, Hash, Serialize, Deserialize)]
pub struct SeqCase {
    pub v2: bool,
    pub ops: Vec<BuilderOp>,
}

/// E3: every sequence of recipient / session-key operations on one builder.  Whatever the order,
/// and whichever operations the builder refuses: every recipient whose operation was ACCEPTED
/// opens the finished message.
fn run_seq(c: &SeqCase) -> Outcome {
    use pgp::composed::MessageBuilder;
    use pgp::crypto::aead::{AeadAlgorithm, ChunkSize};
    let kinds = if c.v2 { [KeyKind::Ed25519V6, KeyKind::EcdsaP256V6] } else { [KeyKind::Ed25519V4, KeyKind::EcdsaP256V4] };
    let certs: Vec<_> = kinds.iter().map(|k| common::cert(*k, 3)).collect();
    let payload = b"sequence payload".to_vec();
    let b0 = MessageBuilder::from_bytes("", payload.clone());
    let mut accepted: Vec<BuilderOp> = Vec::new();
    macro_rules! drive {
        ($b:expr, $v2:tt) => {{
            for (i, op) in c.ops.iter().enumerate() {
                let rng = crate::engine::rng(600 + i as u64);
                let ok = match *op {
                    BuilderOp::Key(k) => $b.encrypt_to_key(rng, certs[k as usize].secret_subkeys[0].key.public_key()).is_ok(),
                    BuilderOp::AnonKey(k) => $b.encrypt_to_key_anonymous(rng, certs[k as usize].secret_subkeys[0].key.public_key()).is_ok(),
                    BuilderOp::Pw(p) => {
                        let s2k = StringToKey::new_iterated(crate::engine::rng(700 + i as u64), HashAlgorithm::Sha256, 0);
                        let pw = Password::from(msg::PASSWORDS[p as usize % 3]);
                        drive!(@pw $b, $v2, rng, s2k, &pw)
                    }
                    BuilderOp::SetSessionKey(n) => $b.set_session_key(vec![0x60 + n; 16].into()).is_ok(),
                    BuilderOp::SetBadSessionKey => $b.set_session_key(vec![0x77; 15].into()).is_ok(),
                };
                if ok {
                    accepted.push(*op);
                }
            }
            $b.to_vec(crate::engine::rng(999)).map_err(|e| e.to_string())
        }};
        (@pw $b:expr, true, $rng:expr, $s2k:expr, $pw:expr) => {
            $b.encrypt_with_password($rng, $s2k, $pw).is_ok()
        };
        (@pw $b:expr, false, $rng:expr, $s2k:expr, $pw:expr) => {{
            let _ = &$rng;
            $b.encrypt_with_password($s2k, $pw).is_ok()
        }};
    }
    let built = if c.v2 {
        let mut b = b0.seipd_v2(crate::engine::rng(5), SymmetricKeyAlgorithm::AES128, AeadAlgorithm::Ocb, ChunkSize::default());
        drive!(b, true)
    } else {
        let mut b = b0.seipd_v1(crate::engine::rng(5), SymmetricKeyAlgorithm::AES128);
        drive!(b, false)
    };
    let what = format!("SEIPDv{} builder, operations {:?} (accepted: {:?})", if c.v2 { 2 } else { 1 }, c.ops, accepted);
    if accepted.contains(&BuilderOp::SetBadSessionKey) {
        return Outcome::bad("C18:builder-sequence:session-key-of-wrong-length-accepted", what);
    }
    let bytes = match built {
        Ok(b) => b,
        // a builder without any recipient may refuse to finish
        Err(_) if !accepted.iter().any(|o| matches!(o, BuilderOp::Key(_) | BuilderOp::AnonKey(_) | BuilderOp::Pw(_))) => return Outcome::ok("no-recipient:refused"),
        Err(e) => return Outcome::bad("C18:builder-sequence:build-error", format!("{what}: {e}")),
    };
    let mut o = Outcome::ok(format!("{} accepted", accepted.len()));
    // several SKESK v4 packets: one password can make another packet look plausible (recorded
    // finding); the sequences use at most one password for SEIPDv1
    for op in &accepted {
        let opened: Result<Vec<u8>, String> = (|| {
            let m = Message::from_bytes(&bytes[..]).map_err(|e| e.to_string())?;
            let mut m = match *op {
                BuilderOp::Key(k) | BuilderOp::AnonKey(k) => m.decrypt(&Password::empty(), &certs[k as usize]).map_err(|e| e.to_string())?,
                BuilderOp::Pw(p) => m.decrypt_with_password(&Password::from(msg::PASSWORDS[p as usize % 3])).map_err(|e| e.to_string())?,
                _ => return Ok(payload.clone()),
            };
            let mut out = Vec::new();
            m.read_to_end(&mut out).map_err(|e| e.to_string())?;
            Ok(out)
        })();
        o.evals += 1;
        match opened {
            Ok(d) if d == payload => {}
            other => o.push("C18:builder-sequence:accepted-recipient-cannot-decrypt", format!("{what}: recipient of {op:?}: {:?}", other.map(|d| d.len()))),
        }
    }
    o
}

pub fn check(ctx: &Ctx) {
    // the former thorough bounds take seconds: they are the quick tier now; `deep` = thorough
    let quick = false;
    #[allow(unused_variables)]
    let deep = ctx.tier == Tier::Thorough;
    let v4_keys = [KeyKind::Ed25519V4, KeyKind::Ed25519LegacyV4, KeyKind::EcdsaP256V4, KeyKind::Rsa2048V4];
    let v6_keys = [KeyKind::Ed25519V6, KeyKind::Ed448V6, KeyKind::EcdsaP256V6];
    for k in v4_keys.iter().chain(v6_keys.iter()) {
        common::cert(*k, 3);
        decoy_cert(*k);
    }
    let mut cases = Vec::new();
    let mut cfgs: Vec<MsgCfg> = Vec::new();
    let base = |enc: Enc, esks: Vec<EskSpec>| MsgCfg {
        source: 0,
        compression: 0,
        enc,
        esks,
        signers: vec![],
        text: false,
        armor: false,
        checksum: true,
        partial_exp: 9,
    };
    for (enc, keys) in [(Enc::V1(9), &v4_keys[..]), (Enc::V2(7, 2, 0), &v6_keys[..])] {
        // single recipients
        for &k in keys {
            for anon in [false, true] {
                cfgs.push(base(enc, vec![EskSpec::Key(k, anon)]));
            }
        }
        for s2k in 0..3u8 {
            cfgs.push(base(enc, vec![EskSpec::Password(s2k)]));
        }
        // mixed sets
        cfgs.push(base(enc, vec![EskSpec::Key(keys[0], false), EskSpec::Key(keys[1], false)]));
        cfgs.push(base(enc, vec![EskSpec::Key(keys[0], true), EskSpec::Key(keys[2], false), EskSpec::Password(0)]));
        cfgs.push(base(enc, vec![EskSpec::Key(keys[1], false), EskSpec::Password(1), EskSpec::Password(2)]));
        cfgs.push(base(enc, vec![EskSpec::Password(0), EskSpec::Password(1), EskSpec::Password(2)]));
        if !quick {
            cfgs.push(base(enc, vec![EskSpec::Key(keys[0], false), EskSpec::Key(keys[1], true), EskSpec::Key(keys[2], false)]));
            // every ordered pair of recipient keys, and every key next to every password kind
            for &a in keys {
                for &b in keys {
                    if a != b {
                        cfgs.push(base(enc, vec![EskSpec::Key(a, false), EskSpec::Key(b, false)]));
                    }
                }
                for s2k in 0..3u8 {
                    cfgs.push(base(enc, vec![EskSpec::Password(s2k), EskSpec::Key(a, true)]));
                }
            }
        }
    }
    // every other SEIPDv1 cipher (64-bit and 128-bit blocks): a password alone, and a key next to a password
    for sym in [1u8, 2, 3, 4, 7, 8, 10, 11, 12, 13] {
        cfgs.push(base(Enc::V1(sym), vec![EskSpec::Password(0)]));
        cfgs.push(base(Enc::V1(sym), vec![EskSpec::Key(KeyKind::Ed25519V4, false), EskSpec::Password(1)]));
    }
    // SEIPDv2 to a v4 key (v6 PKESK for a v4 X25519 key)
    cfgs.push(base(Enc::V2(9, 1, 0), vec![EskSpec::Key(KeyKind::Ed25519V4, false), EskSpec::Password(0)]));
    // ... addressed and anonymous, for every v4 key kind
    for &k in &v4_keys {
        for anon in [false, true] {
            cfgs.push(base(Enc::V2(7, 2, 0), vec![EskSpec::Key(k, anon)]));
        }
    }
    for cfg in &cfgs {
        let mut cands: Vec<Secret> = Vec::new();
        let mut first_key: Option<usize> = None;
        for (i, e) in cfg.esks.iter().enumerate() {
            match e {
                EskSpec::Key(..) => {
                    cands.push(Secret::RecipientKey(i));
                    if first_key.is_none() {
                        first_key = Some(i);
                        cands.push(Secret::DecoyKey(i));
                    }
                }
                EskSpec::Password(_) => cands.push(Secret::RecipientPassword(i)),
            }
        }
        cands.push(Secret::DecoyPassword);
        cands.push(Secret::SessionKey);
        cands.push(Secret::WrongSessionKey(0));
        let max = if quick { 2 } else if deep { 4 } else { 3 };
        for sel in selections(&cands, max) {
            for entry in [Entry::RingAbortEarly, Entry::RingCheckAll] {
                cases.push(Case {
                    cfg: cfg.clone(),
                    presented: sel.clone(),
                    entry,
                    n: 100,
                    forge_id_to_decoy: None,
                });
            }
            if sel.len() == 1 {
                cases.push(Case {
                    cfg: cfg.clone(),
                    presented: sel.clone(),
                    entry: Entry::Simple,
                    n: 700,
                    forge_id_to_decoy: None,
                });
            }
            if sel.iter().all(|s| matches!(s, Secret::RecipientKey(_) | Secret::DecoyKey(_))) {
                cases.push(Case { cfg: cfg.clone(), presented: sel.clone(), entry: Entry::WithKeys, n: 300, forge_id_to_decoy: None });
                if sel.len() == 1 {
                    cases.push(Case { cfg: cfg.clone(), presented: sel.clone(), entry: Entry::Legacy, n: 300, forge_id_to_decoy: None });
                }
            }
        }
        // locked recipient keys with every key-password situation
        if let Some(i) = first_key {
            for pw in 0..4u8 {
                for entry in [Entry::RingAbortEarly, Entry::RingCheckAll, Entry::Simple, Entry::Legacy, Entry::WithKeys] {
                    if matches!(entry, Entry::Simple | Entry::Legacy) && pw == 3 {
                        continue;
                    }
                    cases.push(Case {
                        cfg: cfg.clone(),
                        presented: vec![Secret::LockedRecipientKey(i, pw)],
                        entry,
                        n: 50,
                        forge_id_to_decoy: None,
                    });
                    if entry == Entry::Legacy {
                        continue;
                    }
                    cases.push(Case {
                        cfg: cfg.clone(),
                        presented: vec![Secret::DecoyKey(i), Secret::LockedRecipientKey(i, pw)],
                        entry: if entry == Entry::Simple { Entry::RingCheckAll } else { entry },
                        n: 50,
                        forge_id_to_decoy: None,
                    });
                }
            }
            // the other wrong-session-key shapes
            for h in 1..4u8 {
                for entry in [Entry::RingAbortEarly, Entry::RingCheckAll, Entry::Simple] {
                    cases.push(Case {
                        cfg: cfg.clone(),
                        presented: vec![Secret::WrongSessionKey(h)],
                        entry,
                        n: 50,
                        forge_id_to_decoy: None,
                    });
                }
                cases.push(Case {
                    cfg: cfg.clone(),
                    presented: vec![Secret::RecipientKey(i), Secret::WrongSessionKey(h)],
                    entry: Entry::RingCheckAll,
                    n: 50,
                    forge_id_to_decoy: None,
                });
            }
            // decoy named in the recipient field (addressed PKESK only)
            if matches!(cfg.esks[i], EskSpec::Key(_, false)) {
                for presented in [
                    vec![Secret::DecoyKey(i)],
                    vec![Secret::DecoyKey(i), Secret::DecoyPassword],
                    vec![Secret::RecipientKey(i)],
                ] {
                    for entry in [Entry::RingAbortEarly, Entry::RingCheckAll] {
                        cases.push(Case {
                            cfg: cfg.clone(),
                            presented: presented.clone(),
                            entry,
                            n: 50,
                            forge_id_to_decoy: Some(i),
                        });
                    }
                }
            }
        }
    }
    ctx.run_space(
        "recipient_sets_x_presented_secrets",
        true,
        "messages to recipient sets (each public-key algorithm addressed/anonymous; passwords x 3 S2K kinds; mixed sets of 2-3, thorough: every ordered pair of recipient keys and every key next to every password kind; SEIPDv1 + v3 PKESK/v4 SKESK (AES-256; a password and key+password also under each of the other 10 ciphers incl. the 64-bit-block ones) and SEIPDv2 + v6, the latter also to every v4 key kind addressed and anonymous) x every ordered selection of up to 3 (thorough 4) presented secrets out of {recipient keys, an unrelated key of the same kind, recipient passwords, an unrelated password, the real session key, a wrong session key} x decrypt_the_ring abort_early on/off (+ decrypt / decrypt_with_password / decrypt_with_session_key / decrypt_legacy for single secrets, decrypt_with_keys for key-only selections); locked recipient keys with no / wrong / right / wrong+right key password; wrong session keys of 4 shapes; a decoy key forged into the PKESK recipient field. Oracle (set arithmetic): a presented recipient secret => the plaintext; none => an error and no plaintext byte (SEIPDv2: at most a prefix); check-all with a wrong session key next to a good secret => an error.",
        cases.into_par_iter(),
        run,
    );

    let mut fa = Vec::new();
    for sym in [7u8, 9, 3] {
        fa.push(FalseAcceptCase { sym, max_tries: if deep { 3000 } else { 1200 } });
    }
    ctx.run_space(
        "skesk_v4_false_accept",
        true,
        "two-password SEIPDv1 messages: deterministic search over S2K salts (seeds 0..) for a message in which recipient A's password makes B's SKESK v4 decrypt to a plausible (cipher id, key length) pair; then decrypt_with_password(A) must still return the plaintext",
        fa.into_par_iter(),
        run_false_accept,
    );
    common::cert(KeyKind::Rsa2048V4, 3);
    let mut rc = Vec::new();
    for v6 in [false, true] {
        for block in 0..if deep { 160u64 } else { 12 } {
            rc.push(RsaCase { v6, block });
        }
    }
    ctx.run_space(
        "rsa_ciphertext_lengths",
        true,
        "an RSA-2048 recipient x 3072 (thorough 40960) encryptions per PKESK version with consecutive rng seeds: EVERY ciphertext whose integer has leading zero octets (a shorter MPI; about 1 in 256) and every 64th ordinary one is decrypted by the recipient key and must give the session key",
        rc.into_par_iter(),
        run_rsa,
    );
    // builder operation sequences
    let mut qc = Vec::new();
    for v2 in [false, true] {
        let mut alphabet = vec![BuilderOp::Key(0), BuilderOp::AnonKey(1), BuilderOp::Key(1), BuilderOp::Pw(0), BuilderOp::SetSessionKey(1), BuilderOp::SetSessionKey(2), BuilderOp::SetBadSessionKey];
        if v2 {
            alphabet.push(BuilderOp::Pw(1));
        }
        let max = if deep { 5 } else { 3 };
        let mut seqs: Vec<Vec<BuilderOp>> = vec![vec![]];
        let mut frontier: Vec<Vec<BuilderOp>> = vec![vec![]];
        for _ in 0..max {
            let mut next = Vec::new();
            for s in &frontier {
                for op in &alphabet {
                    let mut s2 = s.clone();
                    s2.push(*op);
                    next.push(s2);
                }
            }
            seqs.extend(next.iter().cloned());
            frontier = next;
        }
        for ops in seqs {
            qc.push(SeqCase { v2, ops });
        }
    }
    ctx.run_space(
        "builder_operation_sequences",
        true,
        "E3: EVERY sequence of up to 3 (thorough 5) operations out of {encrypt_to_key(A), encrypt_to_key_anonymous(B), encrypt_to_key(B), encrypt_with_password(p) (SEIPDv2: two passwords), set_session_key(k1), set_session_key(k2), set_session_key(wrong length)} on one SEIPDv1 / SEIPDv2 builder, whichever of them the builder refuses: every recipient whose operation was accepted opens the finished message; a session key of the wrong length is never accepted",
        qc.into_par_iter(),
        run_seq,
    );
    ctx.assume("RingResult slots are not part of the oracle (the property does not speak of them)");
}

pub fn replay(space: &str, case: &Value) -> Option<Outcome> {
    match space {
        "recipient_sets_x_presented_secrets" => replay_as(case, run),
        "skesk_v4_false_accept" => replay_as(case, run_false_accept),
        "rsa_ciphertext_lengths" => replay_as(case, run_rsa),
        "builder_operation_sequences" => replay_as(case, run_seq),
        _ => None,
    }
}
