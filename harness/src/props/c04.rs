//! C04 — hostile input never panics: every processing entry point returns Ok or Err.
//!
//! Exhaustive small-scope byte strings and single-octet deviations of seed artefacts at every
//! entry point, plus structure-aware artefacts behind valid cryptography.  All sweeps run in
//! worker sub-processes: a panic is caught in the worker, an abort / stack overflow / hang kills
//! or times out the worker and is bisected down to the single case.

use std::{
    io::{BufReader, Read},
    time::Duration,
};

use pgp::{
    armor::Dearmor,
    base64::{Base64Decoder, Base64Reader},
    composed::{
        CleartextSignedMessage, DecryptionOptions, Deserializable, DetachedSignature, Message,
        PlainSessionKey, SignedPublicKey, SignedSecretKey, TheRing,
    },
    crypto::sym::SymmetricKeyAlgorithm,
    packet::PacketParser,
    ser::Serialize as _,
    types::{DecryptionKey, EncryptionKey, EskType, KeyDetails, Password, PkeskBytes},
};
use serde_json::{json, Value};

use crate::{
    common::{self, KeyKind},
    engine::{worker, Ctx, Outcome, Tier},
    reference::{
        crypto as cm,
        frame::frame_min,
        kdf::{self, S2k},
    },
};

pub const ENTRY_POINTS: [&str; 13] = [
    "PacketParser+serialise",
    "Message::from_bytes+read",
    "Message::from_armor+read",
    "SignedPublicKey::from_bytes+verify_bindings",
    "SignedSecretKey::from_bytes+verify_bindings",
    "SignedPublicKey::from_armor_single",
    "DetachedSignature::from_bytes+verify",
    "CleartextSignedMessage::from_armor+verify",
    "Dearmor",
    "Base64Decoder<Base64Reader>",
    "SignedPublicKey::from_bytes_many",
    "empty-buffer reads",
    "Message::from_bytes+decrypt attempts",
];

thread_local! {
    static STAGE: std::cell::Cell<u32> = const { std::cell::Cell::new(0) };
}
const STAGES: [&str; 12] = ["parsed", "decrypted", "decompressed", "read-ok", "read-err", "verified", "key-parsed", "bindings-ok", "unlocked", "serialised", "esk-decrypted", "dearmored"];
fn dbg<T, E: std::fmt::Debug>(r: Result<T, E>) -> Result<T, E> {
    if let Err(e) = &r {
        if std::env::var_os("C04_DEBUG").is_some() {
            eprintln!("  [debug] error: {e:?}");
        }
    }
    r
}
fn mark(bit: usize) {
    STAGE.with(|s| s.set(s.get() | (1 << bit)));
}
fn stage_reset() {
    STAGE.with(|s| s.set(0));
}
fn stage_class() -> String {
    let v = STAGE.with(|s| s.get());
    let names: Vec<&str> = STAGES.iter().enumerate().filter(|(i, _)| v & (1 << i) != 0).map(|(_, n)| *n).collect();
    if names.is_empty() {
        "rejected-at-parse".into()
    } else {
        names.join("+")
    }
}

fn drain_message(mut m: Message<'_>, depth: usize) {
    mark(0);
    if depth > 8 {
        return;
    }
    let key = common::cert(KeyKind::Ed25519V4, 1);
    if m.is_encrypted() {
        // try every kind of secret; errors are fine
        let pw = Password::from("pw-one");
        let ring = TheRing {
            secret_keys: vec![&key],
            message_password: vec![&pw],
            session_keys: vec![PlainSessionKey::V3_4 { sym_alg: SymmetricKeyAlgorithm::AES128, key: vec![1u8; 16].into() }],
            decrypt_options: DecryptionOptions::new().enable_legacy().enable_gnupg_aead(),
            ..Default::default()
        };
        if let Ok((m2, _)) = m.decrypt_the_ring(ring, true) {
            mark(1);
            drain_message(m2, depth + 1);
        }
        return;
    }
    if m.is_compressed() {
        if let Ok(m2) = m.decompress() {
            mark(2);
            drain_message(m2, depth + 1);
        }
        return;
    }
    // accessors on the freshly parsed message
    let _ = m.literal_data_header().map(|h| h.file_name().len());
    let _ = m.is_one_pass_signed();
    let _ = m.verify(key.primary_key.public_key());
    let mut sink = Vec::new();
    let mut buf = [0u8; 4096];
    let mut failed = false;
    for _ in 0..100_000 {
        match m.read(&mut buf) {
            Ok(0) => {
                mark(3);
                break;
            }
            Err(_) => {
                mark(4);
                failed = true;
                break;
            }
            Ok(n) => sink.extend_from_slice(&buf[..n.min(16)]),
        }
    }
    // verifying is demanded to return whatever reading did; reading again after a failure is
    // what every `Read` adaptor may do.  Plain accessors of a message whose reading failed are
    // not among the operations the property names and are only driven after a successful read.
    if m.verify(key.primary_key.public_key()).is_ok() {
        mark(5);
    }
    let _ = m.verify_nested(&[key.primary_key.public_key()]);
    let _ = m.read(&mut buf);
    if !failed {
        let _ = m.literal_data_header().map(|h| h.file_name().len());
        let _ = m.is_one_pass_signed();
    }
}

fn exercise_public(k: &SignedPublicKey) {
    mark(6);
    if k.verify_bindings().is_ok() {
        mark(7);
    }
    if k.to_bytes().is_ok() {
        mark(9);
    }
    let _ = k.write_len();
    let _ = k.to_armored_string(None.into());
    let _ = k.fingerprint();
    let _ = k.legacy_key_id();
    // encrypting to whatever came in
    let raw: pgp::composed::RawSessionKey = vec![3u8; 16].into();
    let _ = pgp::packet::PublicKeyEncryptedSessionKey::from_session_key_v3(crate::engine::rng(1), &raw, SymmetricKeyAlgorithm::AES128, &k.primary_key);
    for s in &k.public_subkeys {
        let _ = pgp::packet::PublicKeyEncryptedSessionKey::from_session_key_v6(crate::engine::rng(1), &raw, &s.key);
    }
}

fn exercise_secret(k: &SignedSecretKey) {
    mark(6);
    if k.verify_bindings().is_ok() {
        mark(7);
    }
    if k.to_bytes().is_ok() {
        mark(9);
    }
    let _ = k.write_len();
    let p = k.to_public_key();
    let _ = p.verify_bindings();
    if matches!(k.primary_key.unlock(&Password::from("pw"), |_, _| Ok(())), Ok(Ok(()))) {
        mark(8);
    }
    for s in &k.secret_subkeys {
        let _ = s.key.unlock(&Password::empty(), |_, _| Ok(()));
    }
    // signing with whatever came in
    let _ = DetachedSignature::sign_binary_data(crate::engine::rng(1), &k.primary_key, &Password::empty(), pgp::crypto::hash::HashAlgorithm::Sha256, &b"x"[..]);
}

/// Run one entry point over `x`.  Returning normally is the property; panics are caught by the
/// caller, everything else kills the worker.
pub fn run_entry(ep: usize, x: &[u8]) {
    let key = common::cert(KeyKind::Ed25519V4, 1);
    let pk = key.primary_key.public_key();
    match ep {
        0 => {
            for (i, p) in PacketParser::new(x).enumerate() {
                if let Ok(p) = p {
                    mark(0);
                    if p.to_bytes().is_ok() {
                        mark(9);
                    }
                    let _ = p.write_len();
                }
                if i > 64 {
                    break;
                }
            }
        }
        1 => {
            if let Ok(m) = Message::from_bytes(x) {
                drain_message(m, 0);
            }
        }
        2 => {
            if let Ok((m, _)) = Message::from_armor(x) {
                drain_message(m, 0);
            }
        }
        3 => {
            if let Ok(k) = SignedPublicKey::from_bytes(x) {
                exercise_public(&k);
            }
        }
        4 => {
            if let Ok(k) = SignedSecretKey::from_bytes(x) {
                exercise_secret(&k);
            }
        }
        5 => {
            if let Ok((k, _)) = SignedPublicKey::from_armor_single(x) {
                exercise_public(&k);
            }
            if let Ok((k, _)) = SignedSecretKey::from_armor_single(x) {
                exercise_secret(&k);
            }
        }
        6 => {
            if let Ok(s) = DetachedSignature::from_bytes(x) {
                mark(0);
                if s.verify(pk, b"x").is_ok() {
                    mark(5);
                }
                let _ = s.verify(pk, b"data");
                let _ = s.to_bytes();
                let _ = s.to_armored_string(None.into());
            }
            if let Ok((s, _)) = DetachedSignature::from_armor_single(x) {
                mark(0);
                if s.verify(pk, b"x").is_ok() {
                    mark(5);
                }
                let _ = s.verify(pk, b"data");
            }
        }
        7 => {
            if let Ok((m, _)) = CleartextSignedMessage::from_armor(x) {
                mark(0);
                if m.verify(pk).is_ok() {
                    mark(5);
                }
                let _ = m.signed_text();
                let _ = m.to_armored_string(None.into());
            }
            if let Ok(s) = std::str::from_utf8(x) {
                if let Ok((m, _)) = CleartextSignedMessage::from_string(s) {
                    let _ = m.verify(pk);
                }
            }
        }
        8 => {
            let mut d = Dearmor::new(BufReader::new(x));
            let mut out = Vec::new();
            if d.read_to_end(&mut out).is_ok() {
                mark(11);
            }
            let _ = d.crc24_status();
            let mut d = Dearmor::with_options(BufReader::new(x), pgp::armor::DearmorOptions::new().enable_crc24_check());
            let _ = d.read_to_end(&mut out);
            let _ = Dearmor::new(BufReader::new(x)).read_only_header();
        }
        9 => {
            let mut d = Base64Decoder::new(Base64Reader::new(x));
            let mut out = Vec::new();
            if d.read_to_end(&mut out).is_ok() && !out.is_empty() {
                mark(11);
            }
        }
        10 => {
            for (i, k) in SignedPublicKey::from_bytes_many(x).into_iter().flatten().enumerate() {
                if let Ok(k) = k {
                    let _ = k.verify_bindings();
                }
                if i > 16 {
                    break;
                }
            }
            if let Ok((it, _)) = SignedSecretKey::from_armor_many(x) {
                for (i, k) in it.enumerate() {
                    if let Ok(k) = k {
                        let _ = k.verify_bindings();
                    }
                    if i > 16 {
                        break;
                    }
                }
            }
        }
        11 => {
            // a zero-length read is legal (std::io::Read): it must return, then reading goes on
            let mut e: [u8; 0] = [];
            let mut buf = [0u8; 7];
            let mut r = Base64Reader::new(x);
            let _ = r.read(&mut e);
            let _ = r.read(&mut buf);
            let _ = r.read(&mut e);
            let mut d = Base64Decoder::new(Base64Reader::new(x));
            let _ = d.read(&mut e);
            let _ = d.read(&mut buf);
            let mut a = Dearmor::new(BufReader::new(x));
            let _ = a.read(&mut e);
            let _ = a.read(&mut buf);
            let _ = a.read(&mut e);
            if let Ok(mut m) = Message::from_bytes(x) {
                let _ = m.read(&mut e);
                let _ = m.read(&mut buf);
                let _ = m.read(&mut e);
            }
            let mut n = pgp::normalize_lines::NormalizedReader::new(x, pgp::line_writer::LineBreak::Crlf);
            let _ = n.read(&mut e);
            let _ = n.read(&mut buf);
        }
        _ => {
            // the non-default SEIPDv1 read mode, with every kind of secret
            if let Ok(m) = Message::from_bytes(x) {
                if m.is_encrypted() {
                    let pw = Password::from("pw-one");
                    let ring = TheRing {
                        secret_keys: vec![&key],
                        message_password: vec![&pw],
                        session_keys: vec![PlainSessionKey::V3_4 { sym_alg: SymmetricKeyAlgorithm::AES128, key: vec![1u8; 16].into() }],
                        decrypt_options: DecryptionOptions::new().enable_legacy().set_seipdv1_read_mode(pgp::types::Seipdv1ReadMode::Streaming),
                        ..Default::default()
                    };
                    if let Ok((m2, _)) = m.decrypt_the_ring(ring, false) {
                        mark(1);
                        drain_message(m2, 1);
                    }
                }
            }
            if let Ok(m) = Message::from_bytes(x) {
                if m.is_encrypted() {
                    let _ = Message::from_bytes(x).map(|m| m.decrypt_with_password(&Password::from("pw-one")).map(|m| drain_message(m, 1)));
                    let _ = Message::from_bytes(x).map(|m| m.decrypt(&Password::empty(), &key).map(|m| drain_message(m, 1)));
                    let _ = Message::from_bytes(x).map(|m| m.decrypt_with_session_key(PlainSessionKey::V6 { key: vec![2u8; 16].into() }).map(|m| drain_message(m, 1)));
                }
            }
        }
    }
}

// ---------------------------------------------------------------------------------------------
// spaces (indexable)

/// seed artefacts for single-octet substitution: (description, bytes, entry points)
fn seeds() -> &'static Vec<(String, Vec<u8>, Vec<usize>)> {
    static S: std::sync::OnceLock<Vec<(String, Vec<u8>, Vec<usize>)>> = std::sync::OnceLock::new();
    S.get_or_init(|| {
        let mut v: Vec<(String, Vec<u8>, Vec<usize>)> = Vec::new();
        for (desc, tag, body) in crate::props::c05::seed_packets() {
            if body.len() > 600 {
                continue;
            }
            let eps: Vec<usize> = match tag {
                5 | 7 => vec![0, 4],
                6 | 14 => vec![0, 3],
                2 => vec![0, 6],
                1 | 3 | 4 | 8 | 9 | 11 | 18 | 20 => vec![0, 1],
                _ => vec![0],
            };
            v.push((desc, frame_min(tag, &body), eps));
        }
        // composite artefacts
        let cert = common::cert(KeyKind::Ed25519V4, 1);
        let public = cert.to_public_key();
        v.push(("v4 certificate".into(), public.to_bytes().unwrap(), vec![3, 10]));
        v.push(("v4 secret certificate".into(), cert.to_bytes().unwrap(), vec![4]));
        let cert6 = common::cert(KeyKind::Ed25519V6, 1);
        v.push(("v6 certificate".into(), cert6.to_public_key().to_bytes().unwrap(), vec![3]));
        v.push(("v6 secret certificate".into(), cert6.to_bytes().unwrap(), vec![4]));
        v.push(("armored certificate".into(), public.to_armored_bytes(None.into()).unwrap(), vec![5, 8]));
        use crate::common::msg::{self, Enc, EskSpec, MsgCfg};
        for (name, cfg) in [
            ("signed message", MsgCfg { signers: vec![(KeyKind::Ed25519V4, 0)], ..Default::default() }),
            ("compressed signed message", MsgCfg { compression: 1, signers: vec![(KeyKind::Ed25519V4, 0)], ..Default::default() }),
            ("password message v1", MsgCfg { enc: Enc::V1(7), esks: vec![EskSpec::Password(0)], ..Default::default() }),
            ("password message v2", MsgCfg { enc: Enc::V2(7, 2, 0), esks: vec![EskSpec::Password(0)], ..Default::default() }),
            ("key message v1", MsgCfg { enc: Enc::V1(7), esks: vec![EskSpec::Key(KeyKind::Ed25519V4, false)], ..Default::default() }),
            ("armored signed message", MsgCfg { armor: true, signers: vec![(KeyKind::Ed25519V4, 0)], ..Default::default() }),
        ] {
            if let Ok(b) = msg::build_vec(&cfg, b"seed", 2) {
                let eps = if cfg.armor { vec![2, 8] } else if cfg.enc != Enc::None { vec![1, 12] } else { vec![1] };
                v.push((name.into(), b, eps));
            }
        }
        if let Ok(m) = CleartextSignedMessage::sign(crate::engine::rng(1), "clear\n- text", &cert.primary_key, &Password::empty()) {
            v.push(("cleartext document".into(), m.to_armored_bytes(None.into()).unwrap(), vec![7]));
        }
        if let Ok(s) = DetachedSignature::sign_binary_data(crate::engine::rng(1), &cert.primary_key, &Password::empty(), pgp::crypto::hash::HashAlgorithm::Sha256, &b"x"[..]) {
            v.push(("armored signature".into(), s.to_armored_bytes(None.into()).unwrap(), vec![6, 8, 9]));
        }
        v
    })
}

const SUB_VALUES_QUICK: usize = 10;

fn sub_value(orig: u8, k: usize, all: bool) -> u8 {
    if all {
        k as u8
    } else {
        [0x00, 0x01, 0x7F, 0x80, 0xFF, orig ^ 0x01, orig ^ 0x80, orig.wrapping_add(1), orig ^ 0x40, orig.wrapping_sub(1)][k]
    }
}

/// index tables for the substitution space: prefix sums over (seed, entry point, position, value)
fn subst_layout(tier: Tier) -> &'static (Vec<(usize, usize, u64)>, u64) {
    static Q: std::sync::OnceLock<(Vec<(usize, usize, u64)>, u64)> = std::sync::OnceLock::new();
    static T: std::sync::OnceLock<(Vec<(usize, usize, u64)>, u64)> = std::sync::OnceLock::new();
    let cell = if tier == Tier::Quick { &Q } else { &T };
    cell.get_or_init(|| {
        let per = if tier == Tier::Quick { SUB_VALUES_QUICK as u64 } else { 256 };
        let mut table = Vec::new();
        let mut total = 0u64;
        for (si, (_, bytes, eps)) in seeds().iter().enumerate() {
            for &ep in eps {
                // substitutions + truncations
                let n = bytes.len() as u64 * per + bytes.len() as u64;
                table.push((si, ep, total));
                total += n;
            }
        }
        (table, total)
    })
}

fn subst_case(tier: Tier, idx: u64) -> (usize, usize, Vec<u8>, String) {
    let (table, _) = subst_layout(tier);
    let per = if tier == Tier::Quick { SUB_VALUES_QUICK as u64 } else { 256 };
    let pos = table.partition_point(|(_, _, start)| *start <= idx) - 1;
    let (si, ep, start) = table[pos];
    let (desc, bytes, _) = &seeds()[si];
    let off = idx - start;
    let nsub = bytes.len() as u64 * per;
    if off < nsub {
        let p = (off / per) as usize;
        let k = (off % per) as usize;
        let mut b = bytes.clone();
        b[p] = sub_value(bytes[p], k, tier != Tier::Quick);
        (si, ep, b, format!("{desc}: octet {p} = {:#04x}", sub_value(bytes[p], k, tier != Tier::Quick)))
    } else {
        let len = (off - nsub) as usize;
        (si, ep, bytes[..len].to_vec(), format!("{desc}: truncated to {len} octets"))
    }
}

fn small_string(idx: u64) -> Vec<u8> {
    // 0 -> "", 1..=256 -> 1 octet, next 65536 -> 2 octets, next 2^24 -> 3 octets
    if idx == 0 {
        vec![]
    } else if idx <= 256 {
        vec![(idx - 1) as u8]
    } else if idx <= 256 + 65536 {
        let v = idx - 257;
        vec![(v >> 8) as u8, v as u8]
    } else {
        let v = idx - 257 - 65536;
        vec![(v >> 16) as u8, (v >> 8) as u8, v as u8]
    }
}

fn small_count(tier: Tier) -> u64 {
    match tier {
        Tier::Quick => 1 + 256 + 65536,
        Tier::Thorough => 1 + 256 + 65536 + (1 << 24),
    }
}

fn out(viol: Option<(String, String)>, class: &str) -> Outcome {
    match viol {
        Some((s, w)) => Outcome::bad(s, w),
        None => Outcome::ok(class),
    }
}

fn guarded_entry(ep: usize, x: &[u8], what: &str) -> Outcome {
    stage_reset();
    match crate::engine::guarded(|| run_entry(ep, x)) {
        Ok(()) => {
            let c = stage_class();
            if c == "rejected-at-parse" {
                Outcome::trivial(c)
            } else {
                Outcome::ok(c)
            }
        }
        Err((loc, msg)) => out(
            Some((
                format!("C04:panic@{}:{}", crate::engine::loc_file(&loc), ENTRY_POINTS[ep]),
                format!("{what}: {} panics at {loc}: {}", ENTRY_POINTS[ep], msg.chars().take(160).collect::<String>()),
            )),
            "",
        ),
    }
}

// ---- structure-aware artefacts

#[derive(Clone, Debug)]
struct PkPlain {
    key: KeyKind,
    v6: bool,
    len: usize,
    first: u8,
    good_checksum: bool,
}

fn pk_plain_cases(tier: Tier) -> &'static Vec<PkPlain> {
    static Q: std::sync::OnceLock<Vec<PkPlain>> = std::sync::OnceLock::new();
    static T: std::sync::OnceLock<Vec<PkPlain>> = std::sync::OnceLock::new();
    (if tier == Tier::Quick { &Q } else { &T }).get_or_init(|| pk_plain_cases_build(tier))
}

fn pk_plain_cases_build(tier: Tier) -> Vec<PkPlain> {
    let mut v = Vec::new();
    for key in [KeyKind::Rsa2048V4, KeyKind::EcdsaP256V4, KeyKind::Ed25519LegacyV4, KeyKind::EcdsaP521V4, KeyKind::Ed25519V4, KeyKind::Ed25519V6, KeyKind::Ed448V6] {
        for v6 in [false, true] {
            for len in 0..=40usize {
                let firsts: Vec<u8> = if tier == Tier::Thorough || matches!(len, 1 | 2 | 3 | 17 | 19 | 33 | 35) {
                    (0..=255).collect()
                } else {
                    vec![0, 1, 7, 9, 13, 255]
                };
                let firsts = if key == KeyKind::Rsa2048V4 && tier == Tier::Quick { vec![0, 7, 9, 255] } else { firsts };
                for first in firsts {
                    if len == 0 && first != 0 {
                        continue;
                    }
                    for good_checksum in [true, false] {
                        v.push(PkPlain { key, v6, len, first, good_checksum });
                    }
                }
            }
        }
    }
    v
}

fn run_pk_plain(c: &PkPlain) -> Outcome {
    let cert = common::cert(c.key, 3);
    let sub = &cert.secret_subkeys[0].key;
    let mut plain: Vec<u8> = (0..c.len).map(|i| (i as u8).wrapping_mul(7)).collect();
    if c.len > 0 {
        plain[0] = c.first;
    }
    if c.good_checksum && c.len >= 3 {
        // last two octets = checksum of the key part (v3: after the algorithm octet)
        let start = if c.v6 { 0 } else { 1 };
        let end = c.len - 2;
        if end >= start {
            let sum = kdf::checksum16(&plain[start..end]);
            plain[end] = sum[0];
            plain[end + 1] = sum[1];
        }
    }
    let typ = if c.v6 { EskType::V6 } else { EskType::V3_4 };
    let what = format!("{c:?}");
    let r = crate::engine::guarded(|| {
        let esk = sub.public_key().encrypt(crate::engine::rng(1), &plain, typ);
        match esk {
            Ok(esk) => {
                let typ2 = if c.v6 { EskType::V6 } else { EskType::V3_4 };
                let d = sub.decrypt(&Password::empty(), &esk, typ2);
                match d {
                    Ok(Ok(_)) => "decrypts",
                    _ => "rejected",
                }
            }
            Err(_) => "encrypt-refused",
        }
    });
    match r {
        Ok(class) => Outcome::ok(class),
        Err((loc, msg)) => Outcome::bad(
            format!("C04:panic@{}:pkesk-plaintext", crate::engine::loc_file(&loc)),
            format!("attacker-chosen session-key plaintext inside a valid PKESK: {what}: panic at {loc}: {}", msg.chars().take(120).collect::<String>()),
        ),
    }
}

#[derive(Clone, Debug)]
struct PkFields {
    /// 0 X25519 v4 cert, 1 X25519 v6 cert, 2 X448, 3 ECDH P-256, 4 ECDH Cv25519
    alg: u8,
    v6: bool,
    wrapped_len: usize,
    /// through a whole message (PKESK + SEIPD) instead of the key trait
    via_message: bool,
    wildcard: bool,
}

fn pk_fields_cases() -> &'static Vec<PkFields> {
    static C: std::sync::OnceLock<Vec<PkFields>> = std::sync::OnceLock::new();
    C.get_or_init(pk_fields_build)
}

fn pk_fields_build() -> Vec<PkFields> {
    let mut v = Vec::new();
    for alg in 0..5u8 {
        for v6 in [false, true] {
            for wrapped_len in 0..=48usize {
                for via_message in [false, true] {
                    for wildcard in [false, true] {
                        if wildcard && !via_message {
                            continue;
                        }
                        v.push(PkFields { alg, v6, wrapped_len, via_message, wildcard });
                    }
                }
            }
        }
    }
    v
}

fn run_pk_fields(c: &PkFields) -> Outcome {
    let kind = match c.alg {
        0 => KeyKind::Ed25519V4,
        1 => KeyKind::Ed25519V6,
        2 => KeyKind::Ed448V6,
        3 => KeyKind::EcdsaP256V4,
        _ => KeyKind::Ed25519LegacyV4,
    };
    let cert = common::cert(kind, 3);
    let sub = &cert.secret_subkeys[0].key;
    let wrapped: Vec<u8> = (0..c.wrapped_len).map(|i| 0xA0 ^ i as u8).collect();
    let sym = (!c.v6).then_some(SymmetricKeyAlgorithm::AES128);
    let values = match c.alg {
        0 | 1 => PkeskBytes::X25519 { ephemeral: [9u8; 32], session_key: wrapped.clone().into(), sym_alg: sym },
        2 => PkeskBytes::X448 { ephemeral: [9u8; 56], session_key: wrapped.clone().into(), sym_alg: sym },
        _ => {
            // a valid ephemeral point: take the recipient's own public point
            let body = sub.public_key().to_bytes().unwrap_or_default();
            let d = crate::reference::codec::decode_packet(14, &body).ok();
            let point = d
                .and_then(|d| d.fields.iter().find(|f| f.kind == crate::reference::codec::Kind::MpiBody).map(|f| body[f.start..f.end].to_vec()))
                .unwrap_or_else(|| vec![4; 65]);
            PkeskBytes::Ecdh { public_point: pgp::types::Mpi::from_slice(&point), encrypted_session_key: wrapped.clone().into() }
        }
    };
    let what = format!("{c:?}");
    stage_reset();
    let r = crate::engine::guarded(|| {
        if !c.via_message {
            let typ = if c.v6 { EskType::V6 } else { EskType::V3_4 };
            if matches!(sub.decrypt(&Password::empty(), &values, typ), Ok(Ok(_))) {
                mark(10);
            }
        } else {
            // assemble the PKESK packet by hand
            let mut body = Vec::new();
            if c.v6 {
                body.push(6);
                if c.wildcard {
                    body.push(0);
                } else {
                    let fp = sub.fingerprint();
                    body.push(1 + fp.len() as u8);
                    body.push(if kind.is_v6() { 6 } else { 4 });
                    body.extend_from_slice(fp.as_bytes());
                }
            } else {
                body.push(3);
                if c.wildcard {
                    body.extend_from_slice(&[0u8; 8]);
                } else {
                    body.extend_from_slice(sub.legacy_key_id().as_ref());
                }
            }
            body.push(u8::from(sub.algorithm()));
            let _ = values.to_writer(&mut body);
            let mut stream = frame_min(1, &body);
            let inner = frame_min(11, b"b\0\0\0\0\0x");
            if c.v6 {
                stream.extend_from_slice(&frame_min(18, &cm::seipdv2_body(7, 2, 0, &[1; 32], &[2u8; 16], &inner)));
            } else {
                let mut b = vec![1u8];
                b.extend_from_slice(&cm::seipdv1_encrypt(7, &[2u8; 16], &[3u8; 16], &inner));
                stream.extend_from_slice(&frame_min(18, &b));
            }
            if let Ok(m) = dbg(Message::from_bytes(&stream[..])) {
                mark(0);
                if let Ok(m) = dbg(m.decrypt(&Password::empty(), &cert)) {
                    mark(1);
                    drain_message(m, 1);
                }
            };
        }
    });
    match r {
        Ok(()) => Outcome::ok(stage_class()),
        Err((loc, msg)) => Outcome::bad(
            format!("C04:panic@{}:pkesk-ciphertext-fields", crate::engine::loc_file(&loc)),
            format!("PKESK with a wrapped session key of {} octets ({what}): panic at {loc}: {}", c.wrapped_len, msg.chars().take(120).collect::<String>()),
        ),
    }
}

#[derive(Clone, Debug)]
struct SkPlain {
    alg: u8,
    len: usize,
}

fn run_sk_plain(c: &SkPlain) -> Outcome {
    // SKESK v4 whose decryption under the presented password yields (alg octet, key of `len`)
    let s2k = S2k::Iterated { hash: 8, salt: [1, 2, 3, 4, 5, 6, 7, 8], count: 0 };
    let keyb: Vec<u8> = (0..c.len).map(|i| i as u8).collect();
    let skesk = kdf::skesk_v4(7, &s2k, b"pw-one", Some((c.alg, &keyb)));
    let inner = frame_min(11, b"b\0\0\0\0\0x");
    let mut b = vec![1u8];
    // where the decrypted (algorithm, key) pair is usable, the container really is encrypted
    // under it, so that the whole pipeline runs; otherwise the container is under another key
    match cm::sym_params(c.alg) {
        Some((bs, ks)) if ks == c.len => b.extend_from_slice(&cm::seipdv1_encrypt(c.alg, &keyb, &vec![3u8; bs], &inner)),
        _ => b.extend_from_slice(&cm::seipdv1_encrypt(7, &[2u8; 16], &[3u8; 16], &inner)),
    }
    let mut stream = frame_min(3, &skesk);
    stream.extend_from_slice(&frame_min(18, &b));
    stage_reset();
    let r = crate::engine::guarded(|| {
        if let Ok(m) = dbg(Message::from_bytes(&stream[..])) {
            mark(0);
            if let Ok(m) = dbg(m.decrypt_with_password(&Password::from("pw-one"))) {
                mark(1);
                drain_message(m, 1);
            }
        }
    });
    match r {
        Ok(()) => Outcome::ok(stage_class()),
        Err((loc, msg)) => Outcome::bad(
            format!("C04:panic@{}:skesk-v4-plaintext", crate::engine::loc_file(&loc)),
            format!("SKESK v4 decrypting to algorithm octet {} and a {}-octet key: panic at {loc}: {}", c.alg, c.len, msg.chars().take(120).collect::<String>()),
        ),
    }
}

#[derive(Clone, Debug)]
struct V2Header {
    sym: u8,
    aead: u8,
    chunk: u8,
    sk_len: usize,
}

fn v2_header_cases(tier: Tier) -> &'static Vec<V2Header> {
    static Q: std::sync::OnceLock<Vec<V2Header>> = std::sync::OnceLock::new();
    static T: std::sync::OnceLock<Vec<V2Header>> = std::sync::OnceLock::new();
    (if tier == Tier::Quick { &Q } else { &T }).get_or_init(|| v2_header_cases_build(tier))
}

fn v2_header_cases_build(tier: Tier) -> Vec<V2Header> {
    let mut v = Vec::new();
    for sym in 0..=255u8 {
        for aead in 0..=255u8 {
            if tier == Tier::Quick && !(sym <= 14 || sym % 16 == 0 || sym >= 250) && !(aead <= 4 || aead >= 250 || aead == 100) {
                continue;
            }
            v.push(V2Header { sym, aead, chunk: 0, sk_len: 16 });
        }
    }
    for chunk in 0..=255u8 {
        for (sym, aead) in [(7u8, 2u8), (9, 1), (8, 3)] {
            v.push(V2Header { sym, aead, chunk, sk_len: if sym == 7 { 16 } else if sym == 8 { 24 } else { 32 } });
        }
    }
    for sk_len in 0..=40usize {
        for (sym, aead) in [(7u8, 2u8), (9, 1), (8, 3), (7, 0), (0, 2)] {
            v.push(V2Header { sym, aead, chunk: 0, sk_len });
        }
    }
    v
}

fn run_v2_header(c: &V2Header) -> Outcome {
    let valid = matches!(c.sym, 7..=9) && matches!(c.aead, 1..=3) && cm::sym_params(c.sym).map(|p| p.1) == Some(c.sk_len) && c.chunk <= 16;
    let body = if valid {
        // a genuine encryption of a literal packet under these parameters
        cm::seipdv2_body(c.sym, c.aead, c.chunk, &[7u8; 32], &vec![4u8; c.sk_len], &frame_min(11, b"b\0\0\0\0\0x"))
    } else {
        let mut body = vec![2u8, c.sym, c.aead, c.chunk];
        body.extend_from_slice(&[7u8; 32]);
        body.extend_from_slice(&[0x55u8; 40]);
        body
    };
    let stream = frame_min(18, &body);
    stage_reset();
    let r = crate::engine::guarded(|| {
        if let Ok(m) = dbg(Message::from_bytes(&stream[..])) {
            mark(0);
            if let Ok(m) = dbg(m.decrypt_with_session_key(PlainSessionKey::V6 { key: vec![4u8; c.sk_len].into() })) {
                mark(1);
                drain_message(m, 1);
            }
        }
        // the packet-level decryptor as well
        if let Ok(chunk) = pgp::crypto::aead::ChunkSize::try_from(c.chunk) {
            if let Ok(mut d) = pgp::packet::StreamDecryptor::v2(SymmetricKeyAlgorithm::from(c.sym), pgp::crypto::aead::AeadAlgorithm::from(c.aead), chunk, &[7u8; 32], &vec![4u8; c.sk_len], &body[36..]) {
                let mut out = Vec::new();
                let _ = d.read_to_end(&mut out);
            }
        }
    });
    match r {
        Ok(()) => Outcome::ok(stage_class()),
        Err((loc, msg)) => Outcome::bad(
            format!("C04:panic@{}:seipdv2-header", crate::engine::loc_file(&loc)),
            format!("SEIPDv2 header cipher {} AEAD {} chunk {} with a {}-octet session key: panic at {loc}: {}", c.sym, c.aead, c.chunk, c.sk_len, msg.chars().take(120).collect::<String>()),
        ),
    }
}

/// inner streams: small strings and substituted seeds as the plaintext of valid containers
fn run_inner(tier: Tier, idx: u64) -> Outcome {
    let n_small = 1 + 256 + 65536u64;
    let inner: Vec<u8> = if idx < n_small {
        small_string(idx)
    } else {
        // every 97th substitution case of the seed space (all of them in the thorough tier would
        // repeat space (a2); the container path is what differs)
        let (_, total) = subst_layout(Tier::Quick);
        let j = ((idx - n_small) * 97) % total;
        subst_case(Tier::Quick, j).2
    };
    let _ = tier;
    let layer = idx % 5;
    let sk = [2u8; 16];
    let wrapped: Vec<u8> = match layer {
        0 => {
            let mut b = vec![1u8];
            b.extend_from_slice(&cm::seipdv1_encrypt(7, &sk, &[3u8; 16], &inner));
            frame_min(18, &b)
        }
        1 => frame_min(18, &cm::seipdv2_body(7, 2, 0, &[1; 32], &sk, &inner)),
        2 => {
            // compressed (zlib) inside SEIPDv2
            let mut e = flate2::write::ZlibEncoder::new(Vec::new(), flate2::Compression::fast());
            use std::io::Write;
            let _ = e.write_all(&inner);
            let mut c = vec![2u8];
            c.extend_from_slice(&e.finish().unwrap_or_default());
            frame_min(18, &cm::seipdv2_body(7, 2, 0, &[1; 32], &sk, &frame_min(8, &c)))
        }
        3 => {
            // deflate, nested twice, not encrypted
            let comp = |d: &[u8]| -> Vec<u8> {
                let mut e = flate2::write::DeflateEncoder::new(Vec::new(), flate2::Compression::fast());
                use std::io::Write;
                let _ = e.write_all(d);
                let mut c = vec![1u8];
                c.extend_from_slice(&e.finish().unwrap_or_default());
                frame_min(8, &c)
            };
            comp(&comp(&inner))
        }
        _ => {
            // uncompressed "compression" layer
            let mut c = vec![0u8];
            c.extend_from_slice(&inner);
            frame_min(8, &c)
        }
    };
    stage_reset();
    let r = crate::engine::guarded(|| {
        if let Ok(m) = Message::from_bytes(&wrapped[..]) {
            if layer == 0 {
                // the same container read in streaming mode
                if let Ok(ms) = Message::from_bytes(&wrapped[..]) {
                    let ring = TheRing {
                        session_keys: vec![PlainSessionKey::V3_4 { sym_alg: SymmetricKeyAlgorithm::AES128, key: sk.to_vec().into() }],
                        decrypt_options: DecryptionOptions::new().set_seipdv1_read_mode(pgp::types::Seipdv1ReadMode::Streaming),
                        ..Default::default()
                    };
                    if let Ok((m2, _)) = ms.decrypt_the_ring(ring, true) {
                        drain_message(m2, 1);
                    }
                }
            }
            let m = if m.is_encrypted() {
                let key = if layer == 0 {
                    PlainSessionKey::V3_4 { sym_alg: SymmetricKeyAlgorithm::AES128, key: sk.to_vec().into() }
                } else {
                    PlainSessionKey::V6 { key: sk.to_vec().into() }
                };
                match m.decrypt_with_session_key(key) {
                    Ok(m) => {
                        mark(1);
                        m
                    }
                    Err(_) => return,
                }
            } else {
                m
            };
            drain_message(m, 1);
        }
    });
    match r {
        Ok(()) => Outcome::ok(stage_class()),
        Err((loc, msg)) => Outcome::bad(
            format!("C04:panic@{}:inner-stream", crate::engine::loc_file(&loc)),
            format!("attacker-chosen packet stream {} inside container layer {layer}: panic at {loc}: {}", hex::encode(&inner[..inner.len().min(40)]), msg.chars().take(120).collect::<String>()),
        ),
    }
}

fn inner_count(tier: Tier) -> u64 {
    1 + 256 + 65536 + if tier == Tier::Quick { 20_000 } else { 200_000 }
}


// ---- ECDH PKESK: attacker-chosen padded plaintext behind a valid key wrap

#[derive(Clone, Debug)]
struct EcdhPad {
    key: KeyKind,
    v6: bool,
    /// length of the wrapped plaintext (a multiple of 8)
    len: usize,
    last: u8,
    /// true: every octet equals `last`; false: a counting pattern that ends in `last`
    uniform: bool,
}

fn ecdh_pad_cases() -> &'static Vec<EcdhPad> {
    static C: std::sync::OnceLock<Vec<EcdhPad>> = std::sync::OnceLock::new();
    C.get_or_init(|| {
        let mut v = Vec::new();
        for key in [KeyKind::EcdsaP256V4, KeyKind::Ed25519LegacyV4, KeyKind::EcdsaP256V6] {
            for len in [8usize, 16, 24, 32, 40, 48] {
                for last in 0..=255u8 {
                    for uniform in [false, true] {
                        v.push(EcdhPad { key, v6: key.is_v6(), len, last, uniform });
                    }
                }
            }
        }
        v
    })
}

fn run_ecdh_pad(c: &EcdhPad) -> Outcome {
    let cert = common::cert(c.key, 3);
    let sub = &cert.secret_subkeys[0].key;
    let pub_body = sub.public_key().to_bytes().unwrap_or_default();
    let Some((point, kek, _)) = kdf::ecdh_model_agree(&pub_body, sub.fingerprint().as_bytes(), 3, 0) else {
        return Outcome::trivial("curve-not-modelled");
    };
    let mut m: Vec<u8> = (0..c.len).map(|i| if c.uniform { c.last } else { (i as u8).wrapping_mul(29).wrapping_add(7) }).collect();
    m[c.len - 1] = c.last;
    let Some(w) = kdf::aes_kw_wrap(&kek, &m) else { return Outcome::trivial("wrap-refused") };
    let values = PkeskBytes::Ecdh { public_point: pgp::types::Mpi::from_slice(&point), encrypted_session_key: w.into() };
    stage_reset();
    let r = crate::engine::guarded(|| {
        let typ = if c.v6 { EskType::V6 } else { EskType::V3_4 };
        if matches!(dbg(sub.decrypt(&Password::empty(), &values, typ)), Ok(Ok(_))) {
            mark(10);
        }
    });
    match r {
        Ok(()) => Outcome::ok(stage_class()),
        Err((loc, msg)) => Outcome::bad(
            format!("C04:panic@{}:ecdh-padding", crate::engine::loc_file(&loc)),
            format!("ECDH PKESK whose validly wrapped plaintext is {} octets ending in {:#04x} ({c:?}): panic at {loc}: {}", c.len, c.last, msg.chars().take(120).collect::<String>()),
        ),
    }
}

// ---- signature values of every MPI length behind a correct digest prefix

#[derive(Clone, Debug)]
struct SigLen {
    key: KeyKind,
    r_len: usize,
    s_len: usize,
}

fn sig_len_cases(tier: Tier) -> &'static Vec<SigLen> {
    static Q: std::sync::OnceLock<Vec<SigLen>> = std::sync::OnceLock::new();
    static T: std::sync::OnceLock<Vec<SigLen>> = std::sync::OnceLock::new();
    (if tier == Tier::Quick { &Q } else { &T }).get_or_init(|| {
        let mut v = Vec::new();
        for key in [KeyKind::Ed25519LegacyV4, KeyKind::EcdsaP256V4, KeyKind::EcdsaP384V4, KeyKind::EcdsaP521V4, KeyKind::EcdsaK256V4, KeyKind::EcdsaP256V6, KeyKind::Rsa2048V4] {
            let max = match key {
                KeyKind::EcdsaP384V4 => 52,
                KeyKind::EcdsaP521V4 => 70,
                KeyKind::Rsa2048V4 => 260,
                _ => 36,
            };
            for r_len in 0..=max {
                if key == KeyKind::Rsa2048V4 {
                    if r_len < 250 && r_len > 4 && tier == Tier::Quick {
                        continue;
                    }
                    v.push(SigLen { key, r_len, s_len: 0 });
                    continue;
                }
                for s_len in 0..=max {
                    // the quick tier: full cross product near the field size, the axes elsewhere
                    let near = |x: usize| x + 3 >= max - 4 && x <= max;
                    if tier == Tier::Quick && !(near(r_len) && near(s_len)) && !(r_len == max - 4 || s_len == max - 4 || r_len <= 1 || s_len <= 1) {
                        continue;
                    }
                    v.push(SigLen { key, r_len, s_len });
                }
            }
        }
        v
    })
}

fn run_sig_len(c: &SigLen) -> Outcome {
    use crate::common::sigs;
    let cert = common::cert(c.key, 1);
    let pk = cert.primary_key.public_key();
    let hash = match c.key {
        KeyKind::EcdsaP384V4 => pgp::crypto::hash::HashAlgorithm::Sha384,
        KeyKind::EcdsaP521V4 => pgp::crypto::hash::HashAlgorithm::Sha512,
        _ => pgp::crypto::hash::HashAlgorithm::Sha256,
    };
    let v6 = c.key.is_v6();
    let doc = b"document";
    // a genuine signature gives the packet layout, the issuer subpackets and the digest prefix
    let salt = vec![0x44u8; 16];
    let mut hashed = sigs::raw_subpacket(2, false, &common::NOW.to_be_bytes());
    let mut fp = vec![if v6 { 6u8 } else { 4 }];
    fp.extend_from_slice(pk.fingerprint().as_bytes());
    hashed.extend_from_slice(&sigs::raw_subpacket(33, false, &fp));
    let Ok(genuine) = sigs::craft_signature(&cert.primary_key, if v6 { 6 } else { 4 }, 0, hash, &hashed, &[], &salt, &[&doc[..]]) else {
        return Outcome::trivial("raw-signer-refuses");
    };
    let Ok(d) = crate::reference::codec::decode_packet(2, &genuine) else { return Outcome::trivial("reference cannot decode") };
    let crate::reference::codec::Summary::Signature(si) = &d.summary else { return Outcome::trivial("not a signature") };
    // replace the signature material by MPIs of the chosen lengths (top bit of the first octet set)
    let mut body = genuine[..si.sig_material.0].to_vec();
    let mpi = |n: usize, fill: u8| -> Vec<u8> {
        let mut v = ((n * 8) as u16).to_be_bytes().to_vec();
        v.extend((0..n).map(|i| if i == 0 { 0x80 | fill } else { fill.wrapping_add(i as u8) }));
        v
    };
    body.extend_from_slice(&mpi(c.r_len, 0x21));
    if c.key != KeyKind::Rsa2048V4 {
        body.extend_from_slice(&mpi(c.s_len, 0x53));
    }
    stage_reset();
    let r = crate::engine::guarded(|| {
        if let Ok(sig) = dbg(sigs::sig_from_body(&body)) {
            mark(0);
            if sig.verify(pk, &doc[..]).is_ok() {
                mark(5);
            }
            // and as an inline signature
            let mut lit = vec![b'b', 0, 0, 0, 0, 0];
            lit.extend_from_slice(doc);
            let stream = [frame_min(2, &body), frame_min(11, &lit)].concat();
            if let Ok(m) = Message::from_bytes(&stream[..]) {
                drain_message_with(m, pk);
            };
        }
    });
    match r {
        Ok(()) => Outcome::ok(stage_class()),
        Err((loc, msg)) => Outcome::bad(
            format!("C04:panic@{}:signature-mpi-lengths", crate::engine::loc_file(&loc)),
            format!("{:?} signature with a correct digest prefix whose MPIs are {} and {} octets long: panic at {loc}: {}", c.key, c.r_len, c.s_len, msg.chars().take(120).collect::<String>()),
        ),
    }
}

fn drain_message_with(mut m: Message<'_>, pk: &dyn pgp::types::VerifyingKey) {
    let mut buf = [0u8; 4096];
    for _ in 0..10_000 {
        match m.read(&mut buf) {
            Ok(0) | Err(_) => break,
            Ok(_) => {}
        }
    }
    let _ = m.verify(pk);
}

// ---- CFB containers (SEIPDv1, SED) cut at every length

#[derive(Clone, Debug)]
struct CfbLen {
    sym: u8,
    /// false: SEIPDv1 (tag 18), true: legacy SED (tag 9)
    sed: bool,
    /// length of the container body that is kept (of a valid container)
    keep: usize,
    /// 0: default read mode, 1: Streaming, 2: CheckFirst with a 16-octet limit
    mode: u8,
    /// length of the literal data inside
    data: usize,
}

fn cfb_len_cases(tier: Tier) -> Vec<CfbLen> {
    static CACHE: std::sync::OnceLock<[Vec<CfbLen>; 2]> = std::sync::OnceLock::new();
    let c = CACHE.get_or_init(|| {
        let mk = |tier: Tier| {
            let mut v = Vec::new();
            for sym in [1u8, 2, 3, 4, 7, 8, 9, 10, 11, 12, 13] {
                let (bs, _) = cm::sym_params(sym).expect("cipher");
                for sed in [false, true] {
                    for data in tier.pick(vec![0usize, 5], vec![0usize, 5, 40]) {
                        // prefix + literal packet (+ MDC)
                        let full = bs + 2 + 8 + data + if sed { 0 } else { 22 };
                        for keep in 0..=full {
                            for mode in 0..3u8 {
                                v.push(CfbLen { sym, sed, keep, mode, data });
                            }
                        }
                    }
                }
            }
            v
        };
        [mk(Tier::Quick), mk(Tier::Thorough)]
    });
    c[if tier == Tier::Quick { 0 } else { 1 }].clone()
}

fn run_cfb_len(c: &CfbLen) -> Outcome {
    let (bs, ks) = cm::sym_params(c.sym).expect("cipher");
    let sk = vec![6u8; ks];
    let prefix: Vec<u8> = (0..bs).map(|i| 0x31 + i as u8).collect();
    let mut lit = vec![b'b', 0, 0, 0, 0, 0];
    lit.extend(std::iter::repeat(b'q').take(c.data));
    let inner = frame_min(11, &lit);
    let stream = if c.sed {
        let full = cm::sed_encrypt(c.sym, &sk, &prefix, &inner);
        frame_min(9, &full[..c.keep.min(full.len())])
    } else {
        let full = cm::seipdv1_encrypt(c.sym, &sk, &prefix, &inner);
        let mut b = vec![1u8];
        b.extend_from_slice(&full[..c.keep.min(full.len())]);
        frame_min(18, &b)
    };
    stage_reset();
    let r = crate::engine::guarded(|| {
        let mut opts = DecryptionOptions::new().enable_legacy();
        opts = match c.mode {
            1 => opts.set_seipdv1_read_mode(pgp::types::Seipdv1ReadMode::Streaming),
            2 => opts.set_seipdv1_read_mode(pgp::types::Seipdv1ReadMode::CheckFirst { max_message_size: 16 }),
            _ => opts,
        };
        if let Ok(m) = dbg(Message::from_bytes(&stream[..])) {
            mark(0);
            let ring = TheRing {
                session_keys: vec![PlainSessionKey::V3_4 { sym_alg: SymmetricKeyAlgorithm::from(c.sym), key: sk.clone().into() }],
                decrypt_options: opts,
                ..Default::default()
            };
            if let Ok((m2, _)) = dbg(m.decrypt_the_ring(ring, true)) {
                mark(1);
                drain_message(m2, 1);
            }
        }
        // the packet-level decryptors
        if !c.sed {
            let body = &stream[stream.len() - c.keep.min(stream.len())..];
            let mode = match c.mode {
                1 => pgp::types::Seipdv1ReadMode::Streaming,
                2 => pgp::types::Seipdv1ReadMode::CheckFirst { max_message_size: 16 },
                _ => Default::default(),
            };
            if let Ok(mut d) = SymmetricKeyAlgorithm::from(c.sym).stream_decryptor_protected(mode, &sk, body) {
                let mut out = Vec::new();
                let _ = d.read_to_end(&mut out);
            }
        }
    });
    match r {
        Ok(()) => Outcome::ok(stage_class()),
        Err((loc, msg)) => Outcome::bad(
            format!("C04:panic@{}:cfb-container-length", crate::engine::loc_file(&loc)),
            format!("{} container, cipher {}, read mode {}: body cut to {} octets (literal of {} octets inside): panic at {loc}: {}", if c.sed { "SED" } else { "SEIPDv1" }, c.sym, c.mode, c.keep, c.data, msg.chars().take(120).collect::<String>()),
        ),
    }
}

// ---- iterators over damaged inputs come to an end

#[derive(Clone, Debug)]
struct ManyCase {
    /// index of the artefact
    art: usize,
    /// 0: the artefact cut at `pos`; 1: the octet at `pos` replaced by '!'; 2: the artefact cut at
    /// `pos` and followed by the tail of another block type; 3: cut at `pos`, 40 octets of garbage
    how: u8,
    pos: usize,
}

fn many_artefacts() -> &'static Vec<(String, Vec<u8>)> {
    static A: std::sync::OnceLock<Vec<(String, Vec<u8>)>> = std::sync::OnceLock::new();
    A.get_or_init(|| {
        let c1 = common::cert(KeyKind::Ed25519V4, 1);
        let c2 = common::cert(KeyKind::Ed25519V6, 1);
        let mut v = Vec::new();
        let p1 = c1.to_public_key();
        let p2 = c2.to_public_key();
        let ring_bin = [p1.to_bytes().expect("ser"), p2.to_bytes().expect("ser")].concat();
        let armor = |typ: pgp::armor::BlockType, data: &[u8]| -> Vec<u8> {
            let mut out = Vec::new();
            pgp::armor::write(&RawBytes(data.to_vec()), typ, &mut out, None, true).expect("armor");
            out
        };
        v.push(("armored public key ring (2 certificates)".to_string(), armor(pgp::armor::BlockType::PublicKey, &ring_bin)));
        v.push(("armored secret key".to_string(), armor(pgp::armor::BlockType::PrivateKey, &c1.to_bytes().expect("ser"))));
        let sig = DetachedSignature::sign_binary_data(crate::engine::rng(1), &c1.primary_key, &Password::empty(), pgp::crypto::hash::HashAlgorithm::Sha256, &b"x"[..]).expect("sign");
        let sig_bin = [sig.to_bytes().expect("ser"), sig.to_bytes().expect("ser")].concat();
        v.push(("armored signature block (2 signatures)".to_string(), armor(pgp::armor::BlockType::Signature, &sig_bin)));
        v.push(("binary public key ring (2 certificates)".to_string(), ring_bin));
        v.push(("binary signatures (2)".to_string(), sig_bin));
        v
    })
}

struct RawBytes(Vec<u8>);
impl pgp::ser::Serialize for RawBytes {
    fn to_writer<W: std::io::Write>(&self, w: &mut W) -> pgp::errors::Result<()> {
        w.write_all(&self.0)?;
        Ok(())
    }
    fn write_len(&self) -> usize {
        self.0.len()
    }
}

fn many_cases(_tier: Tier) -> &'static Vec<ManyCase> {
    static C: std::sync::OnceLock<Vec<ManyCase>> = std::sync::OnceLock::new();
    C.get_or_init(|| {
        let mut v = Vec::new();
        for (art, (_, bytes)) in many_artefacts().iter().enumerate() {
            for pos in 0..=bytes.len() {
                for how in 0..4u8 {
                    if how == 1 && pos == bytes.len() {
                        continue;
                    }
                    v.push(ManyCase { art, how, pos });
                }
            }
        }
        v
    })
}

fn run_many(c: &ManyCase) -> Outcome {
    let (name, bytes) = &many_artefacts()[c.art];
    let mut x = bytes[..c.pos].to_vec();
    match c.how {
        0 => {}
        1 => {
            x = bytes.clone();
            x[c.pos] = b'!';
        }
        2 => x.extend_from_slice(b"\n=AAAA\n-----END PGP MESSAGE-----\n"),
        _ => x.extend((0..40u8).map(|i| i.wrapping_mul(41) | 0x21)),
    }
    // an iterator over n octets has at most n + 1 items to give
    let cap = x.len() + 8;
    let mut endless: Option<&'static str> = None;
    let r = crate::engine::guarded(|| {
        macro_rules! exhaust {
            ($name:expr, $it:expr) => {{
                let mut n = 0usize;
                for _ in $it {
                    n += 1;
                    if n > cap {
                        endless = endless.or(Some($name));
                        break;
                    }
                }
            }};
        }
        exhaust!("PacketParser", PacketParser::new(&x[..]));
        exhaust!("PacketParser<Dearmor>", PacketParser::new(BufReader::new(Dearmor::new(BufReader::new(&x[..])))));
        if let Ok(it) = SignedPublicKey::from_bytes_many(&x[..]) {
            exhaust!("SignedPublicKey::from_bytes_many", it);
        }
        if let Ok(it) = SignedSecretKey::from_bytes_many(&x[..]) {
            exhaust!("SignedSecretKey::from_bytes_many", it);
        }
        if let Ok(it) = DetachedSignature::from_bytes_many(&x[..]) {
            exhaust!("DetachedSignature::from_bytes_many", it);
        }
        if let Ok((it, _)) = SignedPublicKey::from_armor_many(&x[..]) {
            exhaust!("SignedPublicKey::from_armor_many", it);
        }
        if let Ok((it, _)) = SignedSecretKey::from_armor_many(&x[..]) {
            exhaust!("SignedSecretKey::from_armor_many", it);
        }
        if let Ok((it, _)) = DetachedSignature::from_armor_many(&x[..]) {
            exhaust!("DetachedSignature::from_armor_many", it);
        }
        if let Ok(text) = std::str::from_utf8(&x) {
            if let Ok((it, _)) = SignedPublicKey::from_string_many(text) {
                exhaust!("SignedPublicKey::from_string_many", it);
            }
        }
        if let Ok((it, _)) = SignedPublicKey::from_reader_many(&x[..]) {
            exhaust!("SignedPublicKey::from_reader_many", it);
        }
        if let Ok((it, _)) = pgp::composed::PublicOrSecret::from_reader_many(&x[..]) {
            exhaust!("PublicOrSecret::from_reader_many", it);
        }
        if let Ok((it, _)) = pgp::composed::PublicOrSecret::from_armor_many(&x[..]) {
            exhaust!("PublicOrSecret::from_armor_many", it);
        }
    });
    let what = format!("{name}, {} at octet {} of {}", ["cut", "one octet replaced by '!'", "cut and closed with the tail of another block type", "cut and followed by 40 octets of garbage"][c.how as usize], c.pos, bytes.len());
    match r {
        Err((loc, msg)) => Outcome::bad(
            format!("C04:panic@{}:many-iterators", crate::engine::loc_file(&loc)),
            format!("{what}: panic at {loc}: {}", msg.chars().take(120).collect::<String>()),
        ),
        Ok(()) => match endless {
            Some(it) => Outcome::bad(format!("C04:iterator-never-ends:{it}"), format!("{what}: more than {cap} items from an input of {} octets", x.len())),
            None => Outcome::ok("ends"),
        },
    }
}

// ---- armor tails: every short checksum / footer line

fn tail_alphabet() -> [&'static [u8]; 7] {
    [b"A", b"=", b"/", b"z", b"-", b" ", b"\r"]
}

fn armor_tail_total() -> u64 {
    // all strings of length 0..5 over the 7-symbol alphabet
    (0..=5u32).map(|l| 7u64.pow(l)).sum::<u64>() * 2
}

fn armor_tail_case(idx: u64) -> (bool, Vec<u8>) {
    let per = armor_tail_total() / 2;
    let with_eq = idx >= per;
    let mut i = idx % per;
    let mut len = 0u32;
    while i >= 7u64.pow(len) {
        i -= 7u64.pow(len);
        len += 1;
    }
    let mut out = Vec::new();
    for _ in 0..len {
        out.extend_from_slice(tail_alphabet()[(i % 7) as usize]);
        i /= 7;
    }
    (with_eq, out)
}

fn run_armor_tail(idx: u64) -> Outcome {
    let (with_eq, tail) = armor_tail_case(idx);
    let mut x = b"-----BEGIN PGP MESSAGE-----\n\nyxJiAAAAAABwYXlsb2Fk\n".to_vec();
    if with_eq {
        x.push(b'=');
    }
    x.extend_from_slice(&tail);
    x.extend_from_slice(b"\n-----END PGP MESSAGE-----\n");
    stage_reset();
    let r = crate::engine::guarded(|| {
        for crc in [false, true] {
            let mut opt = pgp::armor::DearmorOptions::default();
            if crc {
                opt = opt.enable_crc24_check();
            }
            let mut d = Dearmor::with_options(BufReader::new(&x[..]), opt);
            let mut out = Vec::new();
            if d.read_to_end(&mut out).is_ok() {
                mark(11);
            }
        }
        if let Ok((m, _)) = Message::from_armor(&x[..]) {
            drain_message(m, 0);
        }
        if let Ok(t) = std::str::from_utf8(&x) {
            let _ = pgp::composed::Any::from_string(t);
        }
    });
    match r {
        Ok(()) => Outcome::ok(stage_class()),
        Err((loc, msg)) => Outcome::bad(
            format!("C04:panic@{}:armor-tail", crate::engine::loc_file(&loc)),
            format!("armored message whose line after the body is {:?}: panic at {loc}: {}", String::from_utf8_lossy(&[if with_eq { &b"="[..] } else { &b""[..] }, &tail[..]].concat()), msg.chars().take(120).collect::<String>()),
        ),
    }
}

// ---- hostile data under a text-mode signature

#[derive(Clone, Debug)]
struct TextData {
    len: usize,
    pattern: u8,
    /// 0 detached signature verify, 1 cleartext framework, 2 prefixed message
    carrier: u8,
}

const TEXT_PATTERNS: [&str; 8] = [
    "x... ending in CR",
    "x... ending in CR LF",
    "x... with CR LF across every 512 multiple, ending in CR",
    "x... with LF at every 512 multiple, ending in CR",
    "all CR",
    "all LF",
    "CR LF CR LF ...",
    "x... with CR at 511 mod 512",
];

fn text_data(len: usize, pattern: u8) -> Vec<u8> {
    let mut d = vec![b'x'; len];
    match pattern {
        0 => {
            if len > 0 {
                d[len - 1] = b'\r';
            }
        }
        1 => {
            if len > 1 {
                d[len - 2] = b'\r';
                d[len - 1] = b'\n';
            }
        }
        2 | 3 => {
            let mut k = 512;
            while k < len {
                if pattern == 2 {
                    d[k - 1] = b'\r';
                }
                d[k] = b'\n';
                k += 512;
            }
            if len > 0 {
                d[len - 1] = b'\r';
            }
        }
        4 => d.fill(b'\r'),
        5 => d.fill(b'\n'),
        6 => {
            for (i, b) in d.iter_mut().enumerate() {
                *b = if i % 2 == 0 { b'\r' } else { b'\n' };
            }
        }
        _ => {
            let mut k = 511;
            while k < len {
                d[k] = b'\r';
                k += 512;
            }
        }
    }
    d
}

fn text_lens(tier: Tier) -> Vec<usize> {
    let mut v: Vec<usize> = (0..=if tier == Tier::Quick { 40usize } else { 600 }).collect();
    for k in 1..=if tier == Tier::Quick { 4usize } else { 17 } {
        let c = 512 * k;
        v.extend(c - 3..=c + 3);
    }
    v
}

fn text_data_cases(tier: Tier) -> &'static Vec<TextData> {
    static Q: std::sync::OnceLock<Vec<TextData>> = std::sync::OnceLock::new();
    static T: std::sync::OnceLock<Vec<TextData>> = std::sync::OnceLock::new();
    (if tier == Tier::Quick { &Q } else { &T }).get_or_init(|| {
        let mut v = Vec::new();
        for len in text_lens(tier) {
            for pattern in 0..TEXT_PATTERNS.len() as u8 {
                for carrier in 0..3u8 {
                    v.push(TextData { len, pattern, carrier });
                }
            }
        }
        v
    })
}

fn run_text_data(c: &TextData) -> Outcome {
    // a text-mode signature (made over other data: hashing happens before the signature check,
    // and the data is the attacker's)
    let cert = common::cert(KeyKind::Ed25519V4, 1);
    let pk = cert.primary_key.public_key();
    let data = text_data(c.len, c.pattern);
    stage_reset();
    let r = crate::engine::guarded(|| {
        let Ok(sig) = DetachedSignature::sign_text_data(crate::engine::rng(1), &cert.primary_key, &Password::empty(), pgp::crypto::hash::HashAlgorithm::Sha256, &b"other"[..]) else { return };
        match c.carrier {
            0 => {
                mark(0);
                if sig.verify(pk, &data[..]).is_ok() {
                    mark(5);
                }
                let _ = sig.signature.verify(pk, &data[..]);
            }
            1 => {
                // a hostile cleartext document around the signature
                let Ok(text) = String::from_utf8(data.clone()) else { return };
                let mut doc = String::from("-----BEGIN PGP SIGNED MESSAGE-----\nHash: SHA256\n\n");
                doc.push_str(&text);
                doc.push('\n');
                doc.push_str(&sig.to_armored_string(None.into()).unwrap_or_default());
                if let Ok((m, _)) = CleartextSignedMessage::from_string(&doc) {
                    mark(0);
                    if m.verify(pk).is_ok() {
                        mark(5);
                    }
                    let _ = m.signed_text();
                }
            }
            _ => {
                let mut lit = vec![b'u', 0, 0, 0, 0, 0];
                lit.extend_from_slice(&data);
                let stream = [frame_min(2, &sig.signature.to_bytes().unwrap_or_default()), frame_min(11, &lit)].concat();
                if let Ok(m) = Message::from_bytes(&stream[..]) {
                    drain_message(m, 0);
                };
            }
        }
    });
    match r {
        Ok(()) => Outcome::ok(stage_class()),
        Err((loc, msg)) => Outcome::bad(
            format!("C04:panic@{}:text-signature-data", crate::engine::loc_file(&loc)),
            format!("text-mode signature over {} octets of data ({}), carrier {}: panic at {loc}: {}", c.len, TEXT_PATTERNS[c.pattern as usize], ["detached", "cleartext", "prefixed message"][c.carrier as usize], msg.chars().take(120).collect::<String>()),
        ),
    }
}

// ---- LibrePGP / GnuPG OCB packet (tag 20) behind the opt-in

#[derive(Clone, Debug)]
struct Gnupg {
    sym: u8,
    aead: u8,
    chunk: u8,
    /// None: the session key comes out of the vector's SKESK v5 (AES-128) under its password;
    /// Some(n): a caller-supplied V5 session key of n octets
    sk_len: Option<usize>,
}

fn gnupg_cases(tier: Tier) -> &'static Vec<Gnupg> {
    static Q: std::sync::OnceLock<Vec<Gnupg>> = std::sync::OnceLock::new();
    static T: std::sync::OnceLock<Vec<Gnupg>> = std::sync::OnceLock::new();
    (if tier == Tier::Quick { &Q } else { &T }).get_or_init(|| gnupg_cases_build(tier))
}

fn gnupg_cases_build(tier: Tier) -> Vec<Gnupg> {
    let mut v = Vec::new();
    for via_skesk in [true, false] {
        for sym in 0..=255u8 {
            for aead in 0..=255u8 {
                if tier == Tier::Quick && !(aead <= 4 || aead >= 254) {
                    continue;
                }
                if !via_skesk && tier == Tier::Quick && !(sym <= 14 || sym >= 254) {
                    continue;
                }
                v.push(Gnupg { sym, aead, chunk: 14, sk_len: if via_skesk { None } else { Some(16) } });
            }
        }
    }
    for chunk in 0..=255u8 {
        v.push(Gnupg { sym: 7, aead: 2, chunk, sk_len: None });
        v.push(Gnupg { sym: 7, aead: 1, chunk, sk_len: Some(16) });
    }
    for len in 0..=40usize {
        for (sym, aead) in [(7u8, 2u8), (8, 2), (9, 2), (7, 1), (9, 1), (9, 3), (0, 2), (7, 0), (1, 2), (2, 2)] {
            v.push(Gnupg { sym, aead, chunk: 14, sk_len: Some(len) });
        }
    }
    v
}

fn run_gnupg(c: &Gnupg) -> Outcome {
    // LibrePGP test vector: SKESK v5 (AES-128, OCB, password "password") + OCB packet
    let skesk5 = cm::hexd("c33d05070203089f0b7da3e5ea64779099e326e5400a90936cefb4e8eba08c6773716d1f2714540a38fcac529949dac529d3de31e15b4aeb729e330033dbed");
    let mut ocb = cm::hexd("d4490107020e5ed2bc1e470abe8f1d644c7a6c8a567b0f7701196611a154ba9c2574cd056284a8ef68035c623d93cc708a43211bb6eaf2b27f7c18d571bcd83b20add3a08b73af15b9a098");
    ocb[3] = c.sym;
    ocb[4] = c.aead;
    ocb[5] = c.chunk;
    let stream = if c.sk_len.is_none() { [skesk5, ocb].concat() } else { ocb };
    stage_reset();
    let r = crate::engine::guarded(|| {
        let Ok(m) = dbg(Message::from_bytes(&stream[..])) else { return };
        mark(0);
        let pw = Password::from("password");
        let opts = DecryptionOptions::new().enable_gnupg_aead();
        let ring = match c.sk_len {
            None => TheRing { message_password: vec![&pw], decrypt_options: opts, ..Default::default() },
            Some(n) => TheRing { session_keys: vec![PlainSessionKey::V5 { key: vec![0x11u8; n].into() }], decrypt_options: opts, ..Default::default() },
        };
        if let Ok((m, _)) = dbg(m.decrypt_the_ring(ring, true)) {
            mark(1);
            drain_message(m, 1);
        }
    });
    match r {
        Ok(()) => Outcome::ok(stage_class()),
        Err((loc, msg)) => Outcome::bad(
            format!("C04:panic@{}:gnupg-aead-header", crate::engine::loc_file(&loc)),
            format!("GnuPG OCB packet with cipher {} AEAD {} chunk {} and {}: panic at {loc}: {}", c.sym, c.aead, c.chunk, match c.sk_len { None => "the session key of a valid SKESK v5 (AES-128)".to_string(), Some(n) => format!("a {n}-octet V5 session key") }, msg.chars().take(120).collect::<String>()),
        ),
    }
}

// ---- attacker-chosen secret key material behind a valid checksum / valid protection

struct SecBase {
    desc: String,
    tag: u8,
    v6: bool,
    public: Vec<u8>,
    material: Vec<u8>,
    /// a PKESK for the genuine key (encryption subkeys only)
    esk: Option<PkeskBytes>,
}

const ALL_KINDS: [KeyKind; 10] = [
    KeyKind::Ed25519V4,
    KeyKind::Ed25519V6,
    KeyKind::Ed25519LegacyV4,
    KeyKind::Ed448V6,
    KeyKind::EcdsaP256V4,
    KeyKind::EcdsaP256V6,
    KeyKind::EcdsaP384V4,
    KeyKind::EcdsaP521V4,
    KeyKind::EcdsaK256V4,
    KeyKind::Rsa2048V4,
];

fn sec_bases() -> &'static Vec<SecBase> {
    static S: std::sync::OnceLock<Vec<SecBase>> = std::sync::OnceLock::new();
    S.get_or_init(|| {
        let mut v = Vec::new();
        for kind in ALL_KINDS {
            let cert = common::cert(kind, 3);
            let mut one = |tag: u8, body: Vec<u8>, esk: Option<PkeskBytes>, what: &str| {
                let Ok(d) = crate::reference::codec::decode_packet(tag, &body) else { return };
                let crate::reference::codec::Summary::Key(k) = d.summary else { return };
                let Some((s, e)) = k.secret_part else { return };
                if body[s] != 0 {
                    return;
                }
                let v6 = k.version == 6;
                let end = if v6 { e } else { e - 2 };
                v.push(SecBase { desc: format!("{kind:?} {what}"), tag, v6, public: body[..s].to_vec(), material: body[s + 1..end].to_vec(), esk });
            };
            one(5, cert.primary_key.to_bytes().unwrap_or_default(), None, "primary");
            let sub = &cert.secret_subkeys[0].key;
            let typ = if kind.is_v6() { EskType::V6 } else { EskType::V3_4 };
            let mut plain = vec![7u8];
            plain.extend_from_slice(&[5u8; 16]);
            plain.extend_from_slice(&kdf::checksum16(&[5u8; 16]));
            let plain = if kind.is_v6() { plain[1..].to_vec() } else { plain };
            let esk = sub.public_key().encrypt(crate::engine::rng(2), &plain, typ).ok();
            one(7, sub.to_bytes().unwrap_or_default(), esk, "encryption subkey");
        }
        v
    })
}

const SEC_VALUES: usize = 6;
fn sec_per_base(b: &SecBase, tier: Tier) -> u64 {
    let per = if tier == Tier::Quick { SEC_VALUES as u64 } else { 256 };
    let l = b.material.len() as u64;
    (l * per + l + 257) * 2
}

fn sec_case(tier: Tier, idx: u64) -> (usize, bool, Vec<u8>, String) {
    let mut off = idx;
    for (bi, b) in sec_bases().iter().enumerate() {
        let n = sec_per_base(b, tier);
        if off >= n {
            off -= n;
            continue;
        }
        let locked = off % 2 == 1;
        let off = off / 2;
        let per = if tier == Tier::Quick { SEC_VALUES as u64 } else { 256 };
        let l = b.material.len() as u64;
        let (m, what) = if off < l * per {
            let p = (off / per) as usize;
            let k = (off % per) as usize;
            let val = if tier == Tier::Quick { [0x00, 0x01, 0x7F, 0x80, 0xFF, b.material[p] ^ 0x01][k] } else { k as u8 };
            let mut m = b.material.clone();
            m[p] = val;
            (m, format!("secret material octet {p} = {val:#04x}"))
        } else if off < l * per + l {
            let n = (off - l * per) as usize;
            (b.material[..n].to_vec(), format!("secret material truncated to {n} octets"))
        } else {
            let i = off - l * per - l;
            (small_string(i), format!("secret material = {}", hex::encode(small_string(i))))
        };
        return (bi, locked, m, format!("{} ({}): {what}", b.desc, if locked { "locked, usage 254" } else { "unprotected" }));
    }
    unreachable!("index out of range")
}

fn sec_total(tier: Tier) -> u64 {
    sec_bases().iter().map(|b| sec_per_base(b, tier)).sum()
}

fn run_sec(tier: Tier, idx: u64) -> Outcome {
    let (bi, locked, material, what) = sec_case(tier, idx);
    let b = &sec_bases()[bi];
    let mut body = b.public.clone();
    if locked {
        let s2k = S2k::Iterated { hash: 8, salt: [9, 8, 7, 6, 5, 4, 3, 2], count: 0 };
        body.push(254);
        body.push(7);
        body.extend_from_slice(&s2k.to_bytes());
        let iv = [0x21u8; 16];
        let blob = kdf::protect_254(7, &s2k, &iv, b"pw", &material);
        if b.v6 {
            // v6: length of the S2K specifier precedes it, and a count of all parameter octets
            let spec = s2k.to_bytes();
            body.truncate(b.public.len());
            body.push(254);
            body.push((1 + 1 + spec.len() + iv.len()) as u8);
            body.push(7);
            body.push(spec.len() as u8);
            body.extend_from_slice(&spec);
        }
        body.extend_from_slice(&iv);
        body.extend_from_slice(&blob);
    } else {
        body.push(0);
        body.extend_from_slice(&material);
        if !b.v6 {
            body.extend_from_slice(&kdf::checksum16(&material));
        }
    }
    let stream = frame_min(b.tag, &body);
    let pw = if locked { Password::from("pw") } else { Password::empty() };
    stage_reset();
    let r = crate::engine::guarded(|| {
        for p in PacketParser::new(&stream[..]) {
            let Ok(p) = dbg(p) else { continue };
            mark(0);
            if p.to_bytes().is_ok() {
                mark(9);
            }
            let digest = [0x42u8; 64];
            match p {
                pgp::packet::Packet::SecretKey(k) => {
                    mark(6);
                    if matches!(dbg(k.unlock(&pw, |_, _| Ok(()))), Ok(Ok(()))) {
                        mark(8);
                    }
                    use pgp::types::SigningKey;
                    let h = k.hash_alg();
                    if dbg(k.sign(&pw, h, &digest[..h.digest_size().unwrap_or(32)])).is_ok() {
                        mark(5);
                    }
                    let _ = k.to_bytes();
                }
                pgp::packet::Packet::SecretSubkey(k) => {
                    mark(6);
                    if matches!(dbg(k.unlock(&pw, |_, _| Ok(()))), Ok(Ok(()))) {
                        mark(8);
                    }
                    if let Some(esk) = &b.esk {
                        let typ = if b.v6 { EskType::V6 } else { EskType::V3_4 };
                        if matches!(dbg(k.decrypt(&pw, esk, typ)), Ok(Ok(_))) {
                            mark(10);
                        }
                    }
                    let _ = k.to_bytes();
                }
                _ => {}
            }
        }
    });
    match r {
        Ok(()) => Outcome::ok(format!("{}-{}:{}", if b.v6 { "v6" } else { "v4" }, if locked { "locked" } else { "plain" }, stage_class())),
        Err((loc, msg)) => Outcome::bad(
            format!("C04:panic@{}:secret-material", crate::engine::loc_file(&loc)),
            format!("{what}: panic at {loc}: {}", msg.chars().take(120).collect::<String>()),
        ),
    }
}

// ---------------------------------------------------------------------------------------------

fn space_total(tier: Tier, space: &str) -> u64 {
    match space {
        "small_strings" => small_count(tier) * ENTRY_POINTS.len() as u64,
        "seed_substitutions" => subst_layout(tier).1,
        "pkesk_plaintext" => pk_plain_cases(tier).len() as u64,
        "pkesk_ciphertext_fields" => pk_fields_cases().len() as u64,
        "skesk_v4_plaintext" => 256 * 41,
        "seipdv2_header" => v2_header_cases(tier).len() as u64,
        "inner_streams" => inner_count(tier),
        "secret_material" => sec_total(tier),
        "gnupg_aead_header" => gnupg_cases(tier).len() as u64,
        "ecdh_padding" => ecdh_pad_cases().len() as u64,
        "signature_mpi_lengths" => sig_len_cases(tier).len() as u64,
        "text_signature_data" => text_data_cases(tier).len() as u64,
        "cfb_container_lengths" => cfb_len_cases(tier).len() as u64,
        "many_iterators_end" => many_cases(tier).len() as u64,
        "armor_tail_lines" => armor_tail_total(),
        _ => 0,
    }
}

fn case_json(tier: Tier, space: &str, idx: u64) -> Value {
    match space {
        "small_strings" => {
            let n = small_count(tier);
            json!({"entry": ENTRY_POINTS[(idx / n) as usize], "bytes": hex::encode(small_string(idx % n)), "index": idx})
        }
        "seed_substitutions" => {
            let (_, ep, b, what) = subst_case(tier, idx);
            json!({"entry": ENTRY_POINTS[ep], "what": what, "bytes": hex::encode(b), "index": idx})
        }
        "pkesk_plaintext" => json!({"index": idx, "case": format!("{:?}", pk_plain_cases(tier)[idx as usize])}),
        "pkesk_ciphertext_fields" => json!({"index": idx, "case": format!("{:?}", pk_fields_cases()[idx as usize])}),
        "skesk_v4_plaintext" => json!({"index": idx, "alg": idx / 41, "len": idx % 41}),
        "seipdv2_header" => json!({"index": idx, "case": format!("{:?}", v2_header_cases(tier)[idx as usize])}),
        "secret_material" => json!({"index": idx, "case": sec_case(tier, idx).3}),
        "gnupg_aead_header" => json!({"index": idx, "case": format!("{:?}", gnupg_cases(tier)[idx as usize])}),
        "ecdh_padding" => json!({"index": idx, "case": format!("{:?}", ecdh_pad_cases()[idx as usize])}),
        "signature_mpi_lengths" => json!({"index": idx, "case": format!("{:?}", sig_len_cases(tier)[idx as usize])}),
        "text_signature_data" => json!({"index": idx, "case": format!("{:?}", text_data_cases(tier)[idx as usize])}),
        "cfb_container_lengths" => json!({"index": idx, "case": format!("{:?}", cfb_len_cases(tier)[idx as usize])}),
        "many_iterators_end" => json!({"index": idx, "case": format!("{:?}", many_cases(tier)[idx as usize])}),
        "armor_tail_lines" => json!({"index": idx, "case": format!("{:?}", armor_tail_case(idx))}),
        _ => json!({"index": idx}),
    }
}

fn run_case(tier: Tier, space: &str, idx: u64) -> Outcome {
    match space {
        "small_strings" => {
            let n = small_count(tier);
            let ep = (idx / n) as usize;
            let x = small_string(idx % n);
            guarded_entry(ep, &x, &format!("input {}", hex::encode(&x)))
        }
        "seed_substitutions" => {
            let (_, ep, b, what) = subst_case(tier, idx);
            guarded_entry(ep, &b, &what)
        }
        "pkesk_plaintext" => run_pk_plain(&pk_plain_cases(tier)[idx as usize]),
        "pkesk_ciphertext_fields" => run_pk_fields(&pk_fields_cases()[idx as usize]),
        "skesk_v4_plaintext" => run_sk_plain(&SkPlain { alg: (idx / 41) as u8, len: (idx % 41) as usize }),
        "seipdv2_header" => run_v2_header(&v2_header_cases(tier)[idx as usize]),
        "inner_streams" => run_inner(tier, idx),
        "secret_material" => run_sec(tier, idx),
        "gnupg_aead_header" => run_gnupg(&gnupg_cases(tier)[idx as usize]),
        "ecdh_padding" => run_ecdh_pad(&ecdh_pad_cases()[idx as usize]),
        "signature_mpi_lengths" => run_sig_len(&sig_len_cases(tier)[idx as usize]),
        "text_signature_data" => run_text_data(&text_data_cases(tier)[idx as usize]),
        "cfb_container_lengths" => run_cfb_len(&cfb_len_cases(tier)[idx as usize]),
        "many_iterators_end" => run_many(&many_cases(tier)[idx as usize]),
        "armor_tail_lines" => run_armor_tail(idx),
        _ => Outcome::trivial("unknown space"),
    }
}

pub fn worker(tier: Tier, space: &str, start: u64, end: u64) -> Option<Value> {
    if space_total(tier, space) == 0 {
        return None;
    }
    // worker processes run their shard sequentially
    Some(worker::child_run(start, end, |i| case_json(tier, space, i), |i| run_case(tier, space, i)))
}

pub fn check(ctx: &Ctx) {
    let tier = ctx.tier;
    let spaces: [(&str, &str, u64); 15] = [
        ("armor_tail_lines", "an armored message whose line between body and END line is EVERY string of length 0..5 over {A, =, /, z, -, blank, CR}, with and without a leading '=' (checksum lines of every length and padding, stray characters): Dearmor with and without the CRC check, Message::from_armor + read, Any::from_string", 5_000),
        ("many_iterators_end", "armored key rings / secret keys / signature blocks and their binary forms, cut at EVERY offset, with one octet replaced at every offset, closed with the tail of another block type, or followed by garbage: every iterator over them (PacketParser, PacketParser over Dearmor, from_bytes_many / from_armor_many / from_string_many / from_reader_many of SignedPublicKey, SignedSecretKey, DetachedSignature, PublicOrSecret) is run to its end - it must end within input length + 8 items", 2_000),
        ("cfb_container_lengths", "valid SEIPDv1 and legacy SED containers (made by the reference model, 11 ciphers, literal of 0 / 5 (thorough 40) octets) cut to EVERY length 0..full - inside the CFB prefix, inside the data, inside the MDC - x read mode {default, Streaming, CheckFirst with a 16-octet limit}, through decrypt_the_ring with the session key + drain, and through stream_decryptor_protected", 2_000),
        ("signature_mpi_lengths", "signatures with a CORRECT digest prefix and issuer (so that verification reaches the public-key code) whose signature MPIs have every length 0..36 (P-384: 52, P-521: 70) in all (r, s) pairs (quick: full cross product around the field size, the axes elsewhere) for EdDSA-legacy, ECDSA P-256 v4/v6, P-384, P-521, secp256k1, and RSA with 0..260 octets: Signature::verify and the inline message path", 2_000),
        ("ecdh_padding", "ECDH PKESK (P-256 v4/v6, Curve25519-legacy) made by the reference model (own ephemeral key, RFC 9580 11.5 KDF, RFC 3394 wrap) around an attacker-chosen plaintext: every length 8..48 (multiples of 8) x every final (padding) octet 0..255 x uniform / patterned fill, through DecryptionKey::decrypt v3 / v6", 1_000),
        ("text_signature_data", "attacker-chosen data under a text-mode signature (hashing precedes the signature check): every length 0..40 (thorough 0..600) and every length within 3 of each multiple of 512 up to 2048 (8704) x 8 line-ending patterns (trailing CR / CR LF, CR LF or LF on every 512 edge with a trailing CR, all CR, all LF, alternating, CR just before every edge) x carrier {detached verify, cleartext document, prefixed message}", 2_000),
        ("gnupg_aead_header", "LibrePGP / GnuPG OCB packet (tag 20, opt-in enabled) from the published test vector with its cipher x AEAD octets over all 256 x 256 pairs (quick: AEAD edge values), chunk octet 0..255, behind the vector's valid SKESK v5 (so that a genuine 16-octet session key meets every cipher octet) and with caller-supplied V5 session keys of every length 0..40", 10_000),
        ("secret_material", "attacker-chosen secret key material behind a valid checksum (unprotected, v4 16-bit checksum / v6 none) and behind valid usage-254 protection under the presented password (CFB + SHA-1 computed by the reference model), for the primary and the encryption subkey of all 10 key kinds (Ed25519 v4/v6/legacy, Ed448, ECDSA P-256 v4/v6, P-384, P-521, secp256k1, RSA-2048; X25519, X448, ECDH, RSA subkeys): every position of the genuine material set to 6 values (thorough: 256), every truncation, every string of length <= 1; parsed, re-serialised, unlocked, then used to sign a digest (primaries) or to decrypt a PKESK made for the genuine key (subkeys)", 3_000),
        ("small_strings", "EVERY byte string of length 0..2 (thorough: 0..3) at each of 13 entry points (PacketParser + re-serialisation, Message::from_bytes / from_armor + decrypt attempts + decompress + read + verify, SignedPublicKey / SignedSecretKey::from_bytes (+ verify_bindings, serialise, unlock, encrypt-to, sign-with), from_armor_single, from_bytes_many, DetachedSignature, CleartextSignedMessage, Dearmor (with and without CRC check), Base64Decoder<Base64Reader>, zero-length reads on every reader)", 40_000),
        ("seed_substitutions", "~230 seed artefacts (every packet type and version as produced by the library and the models, certificates, armored and cleartext documents, signed / compressed / encrypted messages): every position set to 10 adversarial values (thorough: all 256) and every truncation, at the entry points that apply to the artefact, followed by re-serialisation / verification / decryption attempts", 20_000),
        ("pkesk_plaintext", "attacker-chosen session-key plaintext inside a cryptographically valid PKESK v3 and v6 for a held RSA, ECDH P-256, ECDH P-521, Curve25519-legacy, X25519 (v4 and v6 certificate) and X448 key: every length 0..40 x first octet (all 256 for the critical lengths; all in thorough) x right/wrong checksum, encrypted with EncryptionKey::encrypt and decrypted with DecryptionKey::decrypt", 3_000),
        ("pkesk_ciphertext_fields", "PKESK ciphertext fields for X25519 (v4 and v6 certificate), X448, ECDH P-256, ECDH Curve25519: wrapped session key of every length 0..48, v3 and v6, through DecryptionKey::decrypt and through a whole message (PKESK + SEIPD) addressed to the held key and as wildcard", 500),
        ("skesk_v4_plaintext", "SKESK v4 packets (built by the reference model) whose decryption under the presented password yields every algorithm octet 0..255 x every key length 0..40, in front of a SEIPDv1 container, through decrypt_with_password + read", 2_000),
        ("seipdv2_header", "SEIPDv2 packets with cipher x AEAD over all 256 x 256 pairs (quick: ~12000 pairs covering all defined / boundary ids), chunk-size octet 0..255, session keys of every length 0..40, through Message::decrypt_with_session_key and packet::StreamDecryptor::v2", 20_000),
        ("inner_streams", "attacker-chosen inner packet streams (every byte string of length <= 2 and a 1/97 sample of the substituted seeds - the sample is exhaustive over its own index set) as the plaintext of valid SEIPDv1 / SEIPDv2 / zlib-in-SEIPDv2 / nested deflate / uncompressed containers, driven through decrypt -> decompress -> read -> verify", 20_000),
    ];
    for (space, rule, shard) in spaces {
        let total = space_total(tier, space);
        worker::run_sharded(
            ctx,
            space,
            true,
            rule,
            total,
            shard,
            Duration::from_secs(if tier == Tier::Quick { 120 } else { 900 }),
            &|i| case_json(tier, space, i),
        );
    }
    ctx.assume("'for all byte strings' is decided up to length 2 (3) and for all single-octet deviations of the seeds; deeper random exploration is the business of the repository's fuzz targets (another technique family)");
    ctx.assume("SKESK / S2K parameter sweeps with Argon2 memory exponents 13..21 are not executed here (gigabytes per case); refusal of excessive parameters is C19's subject");
}

pub fn replay(space: &str, case: &Value) -> Option<Outcome> {
    let idx = case["index"].as_u64()?;
    // replay files do not record the tier: try the quick layout first, then thorough
    for tier in [Tier::Quick, Tier::Thorough] {
        if idx < space_total(tier, space) {
            let cj = case_json(tier, space, idx);
            let same = |k: &str| case.get(k).is_none() || cj.get(k) == case.get(k);
            if same("bytes") && same("case") {
                return Some(run_case(tier, space, idx));
            }
        }
    }
    None
}
