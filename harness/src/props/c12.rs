//! C12 — symmetric and KDF constructions match RFC 9580 (interoperable ciphertext).
//!
//! Both directions for every construction: what the library emits is opened by the reference
//! model (compositions of primitive crates written from the RFC text); what the model emits is
//! accepted by the library; KDF outputs are compared directly.

use std::io::Read;

use pgp::{
    composed::{PlainSessionKey, RawSessionKey},
    crypto::{
        aead::{AeadAlgorithm, ChunkSize},
        hash::HashAlgorithm,
        sym::SymmetricKeyAlgorithm,
    },
    packet::{
        Packet, PacketParser, PublicKeyEncryptedSessionKey, StreamDecryptor,
        SymEncryptedProtectedData, SymKeyEncryptedSessionKey,
    },
    ser::Serialize as _,
    types::{
        DecryptionKey, EskType, KeyDetails, Password, S2kParams, Seipdv1ReadMode, StringToKey,
    },
};
use rayon::prelude::*;
use serde::{Deserialize, Serialize};
use serde_json::Value;

use crate::{
    common::{self, KeyKind},
    engine::{replay_as, Ctx, Outcome, Tier},
    reference::{
        codec::{self, Kind, Summary},
        crypto as cm,
        frame::frame_min,
        kdf::{self, S2k},
    },
};

const HASH_IDS: [u8; 9] = [1, 2, 3, 8, 9, 10, 11, 12, 14];
const CFB_CIPHERS: [u8; 11] = [1, 2, 3, 4, 7, 8, 9, 10, 11, 12, 13];

fn lib_s2k(s: &S2k) -> StringToKey {
    match s {
        S2k::Simple { hash } => StringToKey::Simple {
            hash_alg: HashAlgorithm::from(*hash),
        },
        S2k::Salted { hash, salt } => StringToKey::Salted {
            hash_alg: HashAlgorithm::from(*hash),
            salt: *salt,
        },
        S2k::Iterated { hash, salt, count } => StringToKey::IteratedAndSalted {
            hash_alg: HashAlgorithm::from(*hash),
            salt: *salt,
            count: *count,
        },
        S2k::Argon2 { salt, t, p, m_enc } => StringToKey::Argon2 {
            salt: *salt,
            t: *t,
            p: *p,
            m_enc: *m_enc,
        },
    }
}

fn password(len: usize) -> Vec<u8> {
    (0..len).map(|i| b'a' + ((i * 7 + i / 26) % 26) as u8).collect()
}

#[derive(Clone, Debug, Hash, Serialize, Deserialize)]
pub struct S2kCase {
    /// 0 simple, 1 salted, 3 iterated, 4 argon2
    pub typ: u8,
    pub hash: u8,
    pub count: u8,
    pub t: u8,
    pub p: u8,
    pub m_enc: u8,
    pub size: usize,
    pub pwlen: usize,
}

fn s2k_of(c: &S2kCase) -> S2k {
    let salt8 = [0x11, 0x22, 0x33, 0x44, 0x55, 0x66, 0x77, c.count];
    match c.typ {
        0 => S2k::Simple { hash: c.hash },
        1 => S2k::Salted { hash: c.hash, salt: salt8 },
        3 => S2k::Iterated {
            hash: c.hash,
            salt: salt8,
            count: c.count,
        },
        _ => S2k::Argon2 {
            salt: [0xA5; 16],
            t: c.t,
            p: c.p,
            m_enc: c.m_enc,
        },
    }
}

fn run_s2k(c: &S2kCase) -> Outcome {
    let s = s2k_of(c);
    let pw = password(c.pwlen);
    let want = kdf::s2k_derive(&s, &pw, c.size);
    let got = lib_s2k(&s).derive_key(&pw, c.size);
    let name = match c.typ {
        0 => "simple",
        1 => "salted",
        3 => "iterated",
        _ => "argon2",
    };
    match (want, got) {
        (Some(w), Ok(g)) => {
            if w == g.as_ref() {
                let mut o = Outcome::ok(format!("{name}:equal"));
                // multi-round derivations are the interesting ones
                o.nontrivial = true;
                o
            } else {
                let digest_len = kdf::hasher(c.hash).map(|h| h.output_size()).unwrap_or(0);
                let first_bad = w.iter().zip(g.as_ref().iter()).position(|(a, b)| a != b).unwrap_or(0);
                let class = if c.typ != 4 && digest_len > 0 && first_bad >= digest_len {
                    "later-context-differs"
                } else {
                    "differs"
                };
                Outcome::bad(
                    format!("C12:s2k:{name}:{class}"),
                    format!("{c:?}: library {} RFC {} (first difference at octet {first_bad})", hex::encode(g.as_ref()), hex::encode(&w)),
                )
            }
        }
        (Some(_), Err(e)) => Outcome::bad(format!("C12:s2k:{name}:library-refuses"), format!("{c:?}: {e}")),
        (None, Ok(_)) => Outcome::ok(format!("{name}:model-has-no-value")),
        (None, Err(_)) => Outcome::ok(format!("{name}:both-refuse")),
    }
}

#[derive(Clone, Debug, Hash, Serialize, Deserialize)]
pub struct SkeskCase {
    pub v6: bool,
    pub sym: u8,
    pub aead: u8,
    /// 1 salted, 3 iterated, 4 argon2
    pub s2k_typ: u8,
    pub hash: u8,
    pub count: u8,
    pub pwlen: usize,
    /// v4 only: the cipher of the session key carried inside (0 = the SKESK's own cipher)
    #[serde(default)]
    pub inner: u8,
}

fn parse_one(tag: u8, body: &[u8]) -> Result<Packet, String> {
    let framed = frame_min(tag, body);
    match PacketParser::new(&framed[..]).next() {
        Some(Ok(p)) => Ok(p),
        Some(Err(e)) => Err(e.to_string()),
        None => Err("no packet".into()),
    }
}

fn run_skesk(c: &SkeskCase) -> Outcome {
    let (_, ks) = cm::sym_params(c.sym).expect("cipher");
    if c.inner != 0 && !c.v6 {
        // RFC 9580 5.3.1: the encrypted session key names its own cipher, which need not be the
        // one that protects it
        let (_, iks) = cm::sym_params(c.inner).expect("cipher");
        let session: Vec<u8> = (0..iks).map(|i| (i as u8).wrapping_mul(29).wrapping_add(3)).collect();
        let pw = password(c.pwlen);
        let s = s2k_of(&S2kCase { typ: c.s2k_typ, hash: c.hash, count: c.count, t: 1, p: 1, m_enc: 4, size: ks, pwlen: c.pwlen });
        let body = kdf::skesk_v4(c.sym, &s, &pw, Some((c.inner, &session)));
        let mut o = Outcome::ok("foreign-inner-cipher:opened");
        match parse_one(3, &body) {
            Ok(Packet::SymKeyEncryptedSessionKey(p)) => match p
                .s2k()
                .ok_or_else(|| pgp::errors::Error::from(std::io::Error::other("no s2k")))
                .and_then(|k| k.derive_key(&pw, ks))
                .and_then(|k| p.decrypt(k))
            {
                Ok(PlainSessionKey::V3_4 { ref key, ref sym_alg }) if key.as_ref() == &session[..] && u8::from(*sym_alg) == c.inner => {}
                Ok(ref other) => o.push("C12:skesk-v4:library-decrypts-model-packet-to-other-key", format!("{c:?}: {other:?}")),
                Err(e) => o.push("C12:skesk-v4:library-cannot-open-model-packet", format!("{c:?} (session key of cipher {} inside a SKESK of cipher {}): {e}", c.inner, c.sym)),
            },
            Ok(_) => o.push("C12:skesk-v4:model-packet-parsed-as-other-type", format!("{c:?}")),
            Err(e) => o.push("C12:skesk-v4:library-cannot-parse-model-packet", format!("{c:?}: {e}")),
        }
        return o;
    }
    let session: Vec<u8> = (0..ks).map(|i| (i as u8).wrapping_mul(29).wrapping_add(3)).collect();
    let pw = password(c.pwlen);
    let s = s2k_of(&S2kCase {
        typ: c.s2k_typ,
        hash: c.hash,
        count: c.count,
        t: 1,
        p: 1,
        m_enc: 4,
        size: ks,
        pwlen: c.pwlen,
    });
    let weak = matches!(c.hash, 1 | 2 | 3) && c.s2k_typ != 4;
    let mut o = Outcome::ok("both-directions");
    let name = if c.v6 { "skesk-v6" } else { "skesk-v4" };
    // model -> library
    let body = if c.v6 {
        let iv: Vec<u8> = (0..cm::aead_nonce_len(c.aead).unwrap()).map(|i| 0xB0 + i as u8).collect();
        kdf::skesk_v6(c.sym, c.aead, &s, &iv, &pw, &session)
    } else {
        kdf::skesk_v4(c.sym, &s, &pw, Some((c.sym, &session)))
    };
    match parse_one(3, &body) {
        Ok(Packet::SymKeyEncryptedSessionKey(p)) => match p
            .s2k()
            .ok_or_else(|| pgp::errors::Error::from(std::io::Error::other("no s2k")))
            .and_then(|k| k.derive_key(&pw, ks))
            .and_then(|k| p.decrypt(k))
        {
            Ok(sk) => {
                let (key, alg) = match &sk {
                    PlainSessionKey::V3_4 { key, sym_alg } => (key.as_ref().to_vec(), Some(u8::from(*sym_alg))),
                    PlainSessionKey::V6 { key } => (key.as_ref().to_vec(), None),
                    PlainSessionKey::V5 { key } => (key.as_ref().to_vec(), None),
                };
                if key != session || (!c.v6 && alg != Some(c.sym)) {
                    o.push(format!("C12:{name}:library-decrypts-model-packet-to-other-key"), format!("{c:?}"));
                }
            }
            Err(e) => o.push(format!("C12:{name}:library-cannot-open-model-packet"), format!("{c:?}: {e}")),
        },
        Ok(_) => o.push(format!("C12:{name}:model-packet-parsed-as-other-type"), format!("{c:?}")),
        Err(e) => o.push(format!("C12:{name}:library-cannot-parse-model-packet"), format!("{c:?}: {e}")),
    }
    // library -> model (the library refuses to *generate* with MD5/SHA-1/RIPEMD S2K hashes)
    if !weak {
        let raw: RawSessionKey = session.clone().into();
        let pwd = Password::from(&pw[..]);
        let pkt = if c.v6 {
            SymKeyEncryptedSessionKey::encrypt_v6(
                crate::engine::rng(5),
                &pwd,
                &raw,
                lib_s2k(&s),
                SymmetricKeyAlgorithm::from(c.sym),
                AeadAlgorithm::from(c.aead),
            )
        } else {
            SymKeyEncryptedSessionKey::encrypt_v4(&pwd, &raw, lib_s2k(&s), SymmetricKeyAlgorithm::from(c.sym))
        };
        match pkt {
            Ok(p) => {
                let body = p.to_bytes().expect("ser");
                let got = if c.v6 {
                    kdf::skesk_v6_open(&body, &pw)
                } else {
                    kdf::skesk_v4_open(&body, &pw).and_then(|(a, k)| (a == c.sym).then_some(k))
                };
                if got.as_deref() != Some(&session[..]) {
                    o.push(format!("C12:{name}:model-cannot-open-library-packet"), format!("{c:?}: body {}", hex::encode(&body)));
                }
                if !c.v6 {
                    // v4 is deterministic: byte equality with the model encoding
                    let want = kdf::skesk_v4(c.sym, &s, &pw, Some((c.sym, &session)));
                    if body != want {
                        o.push(format!("C12:{name}:bytes-differ-from-model"), format!("{c:?}"));
                    }
                }
            }
            Err(e) => o.push(format!("C12:{name}:library-refuses-to-encrypt"), format!("{c:?}: {e}")),
        }
    }
    o
}

#[derive(Clone, Debug, Hash, Serialize, Deserialize)]
pub struct SeipdCase {
    pub v2: bool,
    pub sym: u8,
    pub aead: u8,
    pub chunk: u8,
    pub n: usize,
}

fn run_seipd(c: &SeipdCase) -> Outcome {
    let (bs, ks) = cm::sym_params(c.sym).expect("cipher");
    let key: Vec<u8> = (0..ks).map(|i| (i as u8).wrapping_mul(73).wrapping_add(9)).collect();
    let pt: Vec<u8> = (0..c.n).map(|i| (i as u8).wrapping_mul(151).wrapping_add(c.chunk)).collect();
    let mut o = Outcome::ok("bytes-equal+both-directions");
    if c.v2 {
        let salt = [0x3Cu8; 32];
        let want = cm::seipdv2_body(c.sym, c.aead, c.chunk, &salt, &key, &pt);
        // library encryptor, fixed salt: byte for byte
        let mut src = &pt[..];
        match SymEncryptedProtectedData::encrypt_seipdv2_stream(
            SymmetricKeyAlgorithm::from(c.sym),
            AeadAlgorithm::from(c.aead),
            ChunkSize::try_from(c.chunk).expect("chunk"),
            &key,
            salt,
            &mut src,
        ) {
            Ok(mut enc) => {
                let mut got = vec![2u8, c.sym, c.aead, c.chunk];
                got.extend_from_slice(&salt);
                if let Err(e) = enc.read_to_end(&mut got) {
                    o.push("C12:seipdv2:library-encrypt-error", format!("{c:?}: {e}"));
                } else if got != want {
                    let at = got.iter().zip(want.iter()).position(|(a, b)| a != b).unwrap_or(got.len().min(want.len()));
                    let where_ = if got.len() != want.len() {
                        "length"
                    } else if at >= want.len() - 16 {
                        "final-tag"
                    } else {
                        "chunk"
                    };
                    o.push(
                        format!("C12:seipdv2:ciphertext-differs-from-rfc:{where_}"),
                        format!("{c:?}: {} vs {} octets, first difference at {at}", got.len(), want.len()),
                    );
                }
            }
            Err(e) => o.push("C12:seipdv2:library-encrypt-error", format!("{c:?}: {e}")),
        }
        // library decryptor on the model's bytes
        match StreamDecryptor::v2(
            SymmetricKeyAlgorithm::from(c.sym),
            AeadAlgorithm::from(c.aead),
            ChunkSize::try_from(c.chunk).expect("chunk"),
            &salt,
            &key,
            &want[36..],
        ) {
            Ok(mut d) => {
                let mut out = Vec::new();
                match d.read_to_end(&mut out) {
                    Ok(_) if out == pt => {}
                    other => o.push("C12:seipdv2:library-cannot-open-model-ciphertext", format!("{c:?}: {other:?}")),
                }
            }
            Err(e) => o.push("C12:seipdv2:library-cannot-open-model-ciphertext", format!("{c:?}: {e}")),
        }
    } else {
        // library -> model
        match SymmetricKeyAlgorithm::from(c.sym).encrypt_protected(crate::engine::rng(9), &key, &pt) {
            Ok(ct) => {
                match cm::seipdv1_decrypt(c.sym, &key, &ct) {
                    Ok(p) if p == pt => {}
                    other => o.push("C12:seipdv1:model-cannot-open-library-ciphertext", format!("{c:?}: {other:?}")),
                }
                // the prefix: bs random octets followed by a repetition of the last two
                let mut head = ct[..bs + 2].to_vec();
                cm::cfb_decrypt(c.sym, &key, &vec![0u8; bs], &mut head);
                if head[bs - 2..bs] != head[bs..bs + 2] {
                    o.push("C12:seipdv1:prefix-repeat-octets-wrong", format!("{c:?}"));
                }
                // byte equality given the same random prefix
                let want = cm::seipdv1_encrypt(c.sym, &key, &head[..bs], &pt);
                if want != ct {
                    o.push("C12:seipdv1:ciphertext-differs-from-rfc", format!("{c:?}"));
                }
            }
            Err(e) => o.push("C12:seipdv1:library-encrypt-error", format!("{c:?}: {e}")),
        }
        // model -> library (both read modes)
        let prefix: Vec<u8> = (0..bs).map(|i| 0x90 + i as u8).collect();
        let ct = cm::seipdv1_encrypt(c.sym, &key, &prefix, &pt);
        for mode in [Seipdv1ReadMode::default(), Seipdv1ReadMode::Streaming] {
            match StreamDecryptor::v1(SymmetricKeyAlgorithm::from(c.sym), mode, &key, &ct[..]) {
                Ok(mut d) => {
                    let mut out = Vec::new();
                    match d.read_to_end(&mut out) {
                        Ok(_) if out == pt => {}
                        other => o.push("C12:seipdv1:library-cannot-open-model-ciphertext", format!("{c:?} {mode:?}: {other:?}")),
                    }
                }
                Err(e) => o.push("C12:seipdv1:library-cannot-open-model-ciphertext", format!("{c:?}: {e}")),
            }
        }
    }
    o
}

#[derive(Clone, Debug, Hash, Serialize, Deserialize)]
pub struct LockCase {
    pub key: KeyKind,
    /// false: primary, true: encryption subkey
    pub subkey: bool,
    pub usage: u8,
    pub sym: u8,
    pub aead: u8,
    pub s2k_typ: u8,
    pub hash: u8,
    pub count: u8,
}

struct SecretPacket {
    tag: u8,
    version: u8,
    public: Vec<u8>,
    material: Vec<u8>,
}

fn plain_packet(c: &LockCase) -> SecretPacket {
    let cert = common::cert(c.key, 1);
    let (tag, body) = if c.subkey {
        (7u8, cert.secret_subkeys[0].key.to_bytes().expect("ser"))
    } else {
        (5u8, cert.primary_key.to_bytes().expect("ser"))
    };
    let d = codec::decode_packet(tag, &body).expect("decode own key");
    let Summary::Key(k) = d.summary else { panic!("not a key") };
    let (s, e) = k.secret_part.expect("secret part");
    let end = if k.version == 6 { e } else { e - 2 };
    SecretPacket {
        tag,
        version: k.version,
        public: body[..k.public_end].to_vec(),
        material: body[s + 1..end].to_vec(),
    }
}

fn run_lock(c: &LockCase) -> Outcome {
    let sp = plain_packet(c);
    let pw = b"correct horse";
    let (bs, _) = cm::sym_params(c.sym).expect("cipher");
    let s = s2k_of(&S2kCase {
        typ: c.s2k_typ,
        hash: c.hash,
        count: c.count,
        t: 1,
        p: 1,
        m_enc: 4,
        size: 0,
        pwlen: 0,
    });
    let iv_len = if c.usage == 253 { cm::aead_nonce_len(c.aead).unwrap() } else { bs };
    let iv: Vec<u8> = (0..iv_len).map(|i| 0x70 + i as u8).collect();
    let tag_octet = 0xC0 | sp.tag;
    let name = format!("usage{}", c.usage);
    let mut o = Outcome::ok("both-directions");
    // ---- model-protected packet, read by the library
    let blob = match c.usage {
        253 => kdf::protect_253(tag_octet, sp.version, c.sym, c.aead, &s, &iv, pw, &sp.public, &sp.material),
        254 => kdf::protect_254(c.sym, &s, &iv, pw, &sp.material),
        _ => kdf::protect_255(c.sym, &s, &iv, pw, &sp.material),
    };
    let s2kb = s.to_bytes();
    let mut body = sp.public.clone();
    let usage_octet = match c.usage {
        253 | 254 | 255 => c.usage,
        _ => c.sym, // legacy: the cipher id is the usage octet
    };
    body.push(usage_octet);
    let mut params = Vec::new();
    if matches!(c.usage, 253 | 254 | 255) {
        params.push(c.sym);
    }
    if c.usage == 253 {
        params.push(c.aead);
    }
    if sp.version == 6 && matches!(c.usage, 253 | 254) {
        params.push(s2kb.len() as u8);
    }
    if matches!(c.usage, 253 | 254 | 255) {
        params.extend_from_slice(&s2kb);
    }
    params.extend_from_slice(&iv);
    if sp.version == 6 {
        body.push(params.len() as u8);
    }
    body.extend_from_slice(&params);
    body.extend_from_slice(&blob);
    // RFC 9580 restrictions the library enforces (they are C08's subject): v6 keys only with usage
    // 253/254 and without MD5/SHA-1/RIPEMD S2K hashes; AEAD only with iterated or Argon2 S2K
    let legal_for_library = !(sp.version == 6 && !matches!(c.usage, 253 | 254))
        && !(sp.version == 6 && matches!(c.hash, 1 | 2 | 3) && c.s2k_typ != 4)
        && !(sp.version == 6 && c.s2k_typ == 0)
        && !(c.usage == 253 && !matches!(c.s2k_typ, 3 | 4));
    match parse_one(sp.tag, &body) {
        Ok(p) => {
            let res = match &p {
                Packet::SecretKey(k) => k.unlock(&Password::from(&pw[..]), |_, plain| Ok(plain.clone())),
                Packet::SecretSubkey(k) => k.unlock(&Password::from(&pw[..]), |_, plain| Ok(plain.clone())),
                _ => return Outcome::bad("C12:lock:model-packet-parsed-as-other-type", format!("{c:?}")),
            };
            match res {
                Ok(Ok(plain)) => {
                    // compare with the original material through the plain serialisation
                    let cert = common::cert(c.key, 1);
                    let orig = if c.subkey {
                        cert.secret_subkeys[0].key.unlock(&Password::empty(), |_, pl| Ok(pl.clone()))
                    } else {
                        cert.primary_key.unlock(&Password::empty(), |_, pl| Ok(pl.clone()))
                    };
                    if let Ok(Ok(orig)) = orig {
                        if orig != plain {
                            o.push(format!("C12:{name}:library-unlocks-model-packet-to-other-material"), format!("{c:?}"));
                        }
                    }
                    // usage octet survives re-serialisation
                    let re = p.to_bytes().unwrap_or_default();
                    let re_body = codec::split_packets(&re).ok().and_then(|v| v.into_iter().next()).map(|x| x.2).unwrap_or_default();
                    if re_body != body {
                        o.push(format!("C12:{name}:model-packet-not-reserialised-identically"), format!("{c:?}: usage octet written {:?}", re_body.get(sp.public.len())));
                    }
                }
                Ok(Err(e)) | Err(e) => {
                    if legal_for_library {
                        o.push(format!("C12:{name}:library-cannot-unlock-model-packet"), format!("{c:?}: {e}"));
                    }
                }
            }
        }
        Err(e) => {
            if legal_for_library {
                o.push(format!("C12:{name}:library-cannot-parse-model-packet"), format!("{c:?}: {e}"));
            }
        }
    }
    // ---- library-protected packet, opened by the model (the library writes 253 and 254 only)
    if matches!(c.usage, 253 | 254) && !(matches!(c.hash, 1 | 2 | 3) && c.s2k_typ != 4) && c.s2k_typ != 0 && legal_for_library {
        let cert = common::cert(c.key, 1);
        let params = if c.usage == 253 {
            S2kParams::Aead {
                sym_alg: SymmetricKeyAlgorithm::from(c.sym),
                aead_mode: AeadAlgorithm::from(c.aead),
                s2k: lib_s2k(&s),
                nonce: iv.clone().into(),
            }
        } else {
            S2kParams::Cfb {
                sym_alg: SymmetricKeyAlgorithm::from(c.sym),
                s2k: lib_s2k(&s),
                iv: iv.clone().into(),
            }
        };
        let locked_body = if c.subkey {
            let mut k = cert.secret_subkeys[0].key.clone();
            k.set_password_with_s2k(&Password::from(&pw[..]), params).map(|_| k.to_bytes().expect("ser"))
        } else {
            let mut k = cert.primary_key.clone();
            k.set_password_with_s2k(&Password::from(&pw[..]), params).map(|_| k.to_bytes().expect("ser"))
        };
        match locked_body {
            Ok(lb) => {
                // with identical parameters the library's packet must equal the model's for 254
                // (deterministic); for 253 as well (AEAD with given nonce is deterministic)
                if lb != body {
                    let d = codec::decode_packet(sp.tag, &lb);
                    let opened = d.ok().and_then(|d| {
                        let Summary::Key(k) = &d.summary else { return None };
                        let blob_f = d.fields.iter().find(|f| f.kind == Kind::EncryptedSecret)?;
                        let blob = &lb[blob_f.start..blob_f.end];
                        match c.usage {
                            253 => kdf::unprotect_253(tag_octet, sp.version, c.sym, c.aead, &s, &iv, pw, &lb[..k.public_end], blob),
                            _ => kdf::unprotect_254(c.sym, &s, &iv, pw, blob),
                        }
                    });
                    let what = match opened {
                        Some(m) if m == sp.material => "header-layout-differs",
                        Some(_) => "opens-to-other-material",
                        None => "model-cannot-open",
                    };
                    o.push(
                        format!("C12:{name}:library-packet-differs-from-rfc:{what}"),
                        format!("{c:?}: library body {} octets, model body {} octets", lb.len(), body.len()),
                    );
                }
            }
            Err(e) => o.push(format!("C12:{name}:library-refuses-to-lock"), format!("{c:?}: {e}")),
        }
    }
    o
}

#[derive(Clone, Debug, Hash, Serialize, Deserialize)]
pub struct PkCase {
    pub key: KeyKind,
    pub v6: bool,
    pub sk_len: usize,
}

fn secret_scalar(cert: &pgp::composed::SignedSecretKey) -> (Vec<u8>, Vec<u8>, u8) {
    // (raw secret octets as on the wire, public material octets, pk alg) of the encryption subkey
    let body = cert.secret_subkeys[0].key.to_bytes().expect("ser");
    let d = codec::decode_packet(7, &body).expect("decode");
    let Summary::Key(k) = &d.summary else { panic!() };
    let (s, e) = k.secret_part.unwrap();
    let end = if k.version == 6 { e } else { e - 2 };
    let sec = body[s + 1..end].to_vec();
    (sec, body[k.material.0..k.material.1].to_vec(), k.pk_alg)
}

fn run_pk(c: &PkCase) -> Outcome {
    let cert = common::cert(c.key, 3);
    let sub = &cert.secret_subkeys[0].key;
    let (sec, pubmat, alg) = secret_scalar(&cert);
    let session: Vec<u8> = (0..c.sk_len).map(|i| (i as u8).wrapping_mul(37).wrapping_add(1)).collect();
    let sym: u8 = match c.sk_len {
        16 => 7,
        24 => 8,
        _ => 9,
    };
    let raw: RawSessionKey = session.clone().into();
    let pk = if c.v6 {
        PublicKeyEncryptedSessionKey::from_session_key_v6(crate::engine::rng(21), &raw, sub.public_key())
    } else {
        PublicKeyEncryptedSessionKey::from_session_key_v3(crate::engine::rng(21), &raw, SymmetricKeyAlgorithm::from(sym), sub.public_key())
    };
    let pk = match pk {
        Ok(p) => p,
        Err(e) => return Outcome::bad("C12:pkesk:library-encrypt-error", format!("{c:?}: {e}")),
    };
    let body = pk.to_bytes().expect("ser");
    let mut o = Outcome::ok("both-directions");
    let Ok(d) = codec::decode_packet(1, &body) else {
        return Outcome::bad("C12:pkesk:undecodable", format!("{c:?}"));
    };
    let esk_field = d.fields.iter().find(|f| f.kind == Kind::EncryptedSessionKey);
    match alg {
        25 => {
            // X25519: 32 octets ephemeral, len octet, [sym alg in v3], wrapped key
            let eph_f = d.fields.iter().find(|f| f.kind == Kind::NativeKeyMaterial);
            let (Some(eph_f), Some(esk_f)) = (eph_f, esk_field) else {
                return Outcome::bad("C12:pkesk:x25519-layout", format!("{c:?}: fields {:?}", d.fields));
            };
            let eph: [u8; 32] = body[eph_f.start..eph_f.end].try_into().unwrap();
            let recip: [u8; 32] = pubmat[..32].try_into().unwrap();
            let secret = x25519_dalek::StaticSecret::from(<[u8; 32]>::try_from(&sec[..32]).unwrap());
            let shared = secret.diffie_hellman(&x25519_dalek::PublicKey::from(eph));
            let kek = kdf::x25519_kek(&eph, &recip, shared.as_bytes());
            let wrapped = &body[esk_f.start..esk_f.end];
            match kdf::aes_kw_unwrap(&kek, wrapped) {
                Some(k) if k == session => {}
                other => o.push(
                    "C12:pkesk:x25519:model-cannot-unwrap-library-packet",
                    format!("{c:?}: {:?}", other.map(hex::encode)),
                ),
            }
            // model -> library: our own ephemeral key
            let esec = x25519_dalek::StaticSecret::from([0x42u8; 32]);
            let epub = x25519_dalek::PublicKey::from(&esec);
            let sh = esec.diffie_hellman(&x25519_dalek::PublicKey::from(recip));
            let kek2 = kdf::x25519_kek(epub.as_bytes(), &recip, sh.as_bytes());
            let w = kdf::aes_kw_wrap(&kek2, &session).expect("wrap");
            let values = pgp::types::PkeskBytes::X25519 {
                ephemeral: *epub.as_bytes(),
                session_key: w.into(),
                sym_alg: (!c.v6).then_some(SymmetricKeyAlgorithm::from(sym)),
            };
            let typ = if c.v6 { EskType::V6 } else { EskType::V3_4 };
            match sub.decrypt(&Password::empty(), &values, typ) {
                Ok(Ok(sk)) => {
                    let k = match &sk {
                        PlainSessionKey::V3_4 { key, .. } | PlainSessionKey::V6 { key } | PlainSessionKey::V5 { key } => key.as_ref().to_vec(),
                    };
                    if k != session {
                        o.push("C12:pkesk:x25519:library-unwraps-model-packet-to-other-key", format!("{c:?}"));
                    }
                }
                Ok(Err(e)) | Err(e) => o.push("C12:pkesk:x25519:library-cannot-unwrap-model-packet", format!("{c:?}: {e}")),
            }
        }
        18 => {
            // ECDH: MPI point, len octet, wrapped key; public material: oid len, oid, MPI point, KDF params
            let oid_len = pubmat[0] as usize;
            let oid = &pubmat[1..1 + oid_len];
            let kdfp = &pubmat[pubmat.len() - 4..];
            let (kdf_hash, kek_alg) = (kdfp[2], kdfp[3]);
            let fp = sub.fingerprint();
            let point_f = d.fields.iter().find(|f| f.kind == Kind::MpiBody);
            let (Some(point_f), Some(esk_f)) = (point_f, esk_field) else {
                return Outcome::bad("C12:pkesk:ecdh-layout", format!("{c:?}"));
            };
            let point = &body[point_f.start..point_f.end];
            let z: Option<Vec<u8>> = (|| -> Option<Vec<u8>> { if oid == [0x2B, 0x06, 0x01, 0x04, 0x01, 0x97, 0x55, 0x01, 0x05, 0x01] {
                // Curve25519Legacy: point = 0x40 || 32 octets; secret MPI is big-endian (reversed)
                let mut s = sec[2..].to_vec();
                while s.len() < 32 {
                    s.insert(0, 0);
                }
                s.reverse();
                let secret = x25519_dalek::StaticSecret::from(<[u8; 32]>::try_from(&s[..]).unwrap());
                let eph: [u8; 32] = point[1..33].try_into().ok()?;
                Some(secret.diffie_hellman(&x25519_dalek::PublicKey::from(eph)).as_bytes().to_vec())
            } else if oid == [0x2A, 0x86, 0x48, 0xCE, 0x3D, 0x03, 0x01, 0x07] {
                use p256::elliptic_curve::sec1::FromEncodedPoint;
                let mut s = sec[2..].to_vec();
                while s.len() < 32 {
                    s.insert(0, 0);
                }
                let sk = p256::SecretKey::from_slice(&s).ok()?;
                let ep = p256::EncodedPoint::from_bytes(point).ok()?;
                let pkp = Option::<p256::PublicKey>::from(p256::PublicKey::from_encoded_point(&ep))?;
                let sh = p256::ecdh::diffie_hellman(sk.to_nonzero_scalar(), pkp.as_affine());
                Some(sh.raw_secret_bytes().to_vec())
            } else {
                None
            } })();
            match z {
                Some(z) => {
                    let kek = kdf::ecdh_kek(&z, oid, kdf_hash, kek_alg, fp.as_bytes());
                    let wrapped = &body[esk_f.start..esk_f.end];
                    let m = kdf::aes_kw_unwrap(&kek, wrapped).and_then(|m| kdf::ecdh_unpad(&m));
                    let mut want = Vec::new();
                    if !c.v6 {
                        want.push(sym);
                    }
                    want.extend_from_slice(&session);
                    want.extend_from_slice(&kdf::checksum16(&session));
                    if m.as_deref() != Some(&want[..]) {
                        o.push(
                            "C12:pkesk:ecdh:model-cannot-unwrap-library-packet",
                            format!("{c:?}: kdf hash {kdf_hash} kek {kek_alg}: got {:?}", m.map(hex::encode)),
                        );
                    }
                }
                None => o.class = "ecdh-curve-not-modelled".into(),
            }
            // model -> library: an ephemeral key of the model's own, once with an ordinary shared
            // secret and once with one that begins with a zero octet (it must be used at full
            // field width, RFC 9580 11.5)
            let pub_body = sub.public_key().to_bytes().expect("ser");
            for leading_zeros in [0usize, 1] {
                let Some((eph_point, kek, z)) = kdf::ecdh_model_agree(&pub_body, fp.as_bytes(), 7, leading_zeros) else { continue };
                let mut m = Vec::new();
                if !c.v6 {
                    m.push(sym);
                }
                m.extend_from_slice(&session);
                m.extend_from_slice(&kdf::checksum16(&session));
                let Some(w) = kdf::aes_kw_wrap(&kek, &kdf::ecdh_pad(&m)) else { continue };
                let values = pgp::types::PkeskBytes::Ecdh { public_point: pgp::types::Mpi::from_slice(&eph_point), encrypted_session_key: w.into() };
                let typ = if c.v6 { EskType::V6 } else { EskType::V3_4 };
                match sub.decrypt(&Password::empty(), &values, typ) {
                    Ok(Ok(sk)) => {
                        let k = match &sk {
                            PlainSessionKey::V3_4 { key, .. } | PlainSessionKey::V6 { key } | PlainSessionKey::V5 { key } => key.as_ref().to_vec(),
                        };
                        if k != session {
                            o.push("C12:pkesk:ecdh:library-unwraps-model-packet-to-other-key", format!("{c:?}"));
                        }
                    }
                    Ok(Err(e)) | Err(e) => o.push(
                        "C12:pkesk:ecdh:library-cannot-unwrap-model-packet",
                        format!("{c:?}: shared secret {} ({} leading zero octets): {e}", hex::encode(&z), z.iter().take_while(|b| **b == 0).count()),
                    ),
                }
            }
        }
        _ => o.class = "algorithm-not-modelled".into(),
    }
    // the library opens its own packet
    let typ = if c.v6 { EskType::V6 } else { EskType::V3_4 };
    match pk.values().map_err(|e| e.to_string()).and_then(|v| {
        sub.decrypt(&Password::empty(), v, typ).map_err(|e| e.to_string())?.map_err(|e| e.to_string())
    }) {
        Ok(sk) => {
            let k = match &sk {
                PlainSessionKey::V3_4 { key, .. } | PlainSessionKey::V6 { key } | PlainSessionKey::V5 { key } => key.as_ref().to_vec(),
            };
            if k != session {
                o.push("C12:pkesk:library-roundtrip-differs", format!("{c:?}"));
            }
        }
        Err(e) => o.push("C12:pkesk:library-cannot-open-own-packet", format!("{c:?}: {e}")),
    }
    o
}

#[derive(Clone, Debug, Hash, Serialize, Deserialize)]
pub struct EcdhLenCase {
    pub key: KeyKind,
    pub len: usize,
}

/// ECDH wrapping of values of every length (RFC 9580 11.5: the value is padded to a multiple of
/// 8 octets with 1..8 octets of padding, then AES key wrap).
fn run_ecdh_len(c: &EcdhLenCase) -> Outcome {
    let cert = common::cert(c.key, 3);
    let sub = &cert.secret_subkeys[0].key;
    let (sec, pubmat, alg) = secret_scalar(&cert);
    if alg != 18 {
        return Outcome::trivial("not-ecdh");
    }
    let pgp::types::PublicParams::ECDH(params) = sub.public_key().public_params() else {
        return Outcome::trivial("not-ecdh");
    };
    let plain: Vec<u8> = (0..c.len).map(|i| (i as u8).wrapping_mul(29).wrapping_add(3)).collect();
    let fp = sub.fingerprint();
    let values = match pgp::crypto::ecdh::encrypt(crate::engine::rng(31 + c.len as u64), params, fp.as_bytes(), &plain) {
        Ok(v) => v,
        Err(e) => return Outcome::bad("C12:ecdh-wrap:library-encrypt-error", format!("{c:?}: {e}")),
    };
    let pgp::types::PkeskBytes::Ecdh { public_point, encrypted_session_key } = &values else {
        return Outcome::bad("C12:ecdh-wrap:unexpected-values", format!("{c:?}"));
    };
    let oid_len = pubmat[0] as usize;
    let oid = &pubmat[1..1 + oid_len];
    let kdfp = &pubmat[pubmat.len() - 4..];
    let (kdf_hash, kek_alg) = (kdfp[2], kdfp[3]);
    let point = public_point.as_ref();
    let z: Option<Vec<u8>> = (|| -> Option<Vec<u8>> {
        if oid == [0x2B, 0x06, 0x01, 0x04, 0x01, 0x97, 0x55, 0x01, 0x05, 0x01] {
            let mut s = sec[2..].to_vec();
            while s.len() < 32 {
                s.insert(0, 0);
            }
            s.reverse();
            let secret = x25519_dalek::StaticSecret::from(<[u8; 32]>::try_from(&s[..]).unwrap());
            let eph: [u8; 32] = point.get(1..33)?.try_into().ok()?;
            Some(secret.diffie_hellman(&x25519_dalek::PublicKey::from(eph)).as_bytes().to_vec())
        } else if oid == [0x2A, 0x86, 0x48, 0xCE, 0x3D, 0x03, 0x01, 0x07] {
            use p256::elliptic_curve::sec1::FromEncodedPoint;
            let mut s = sec[2..].to_vec();
            while s.len() < 32 {
                s.insert(0, 0);
            }
            let sk = p256::SecretKey::from_slice(&s).ok()?;
            let ep = p256::EncodedPoint::from_bytes(point).ok()?;
            let pkp = Option::<p256::PublicKey>::from(p256::PublicKey::from_encoded_point(&ep))?;
            Some(p256::ecdh::diffie_hellman(sk.to_nonzero_scalar(), pkp.as_affine()).raw_secret_bytes().to_vec())
        } else {
            None
        }
    })();
    let Some(z) = z else { return Outcome::trivial("ecdh-curve-not-modelled") };
    let kek = kdf::ecdh_kek(&z, oid, kdf_hash, kek_alg, fp.as_bytes());
    let mut o = Outcome::ok("rfc-padding");
    let wrapped: &[u8] = encrypted_session_key.as_ref();
    match kdf::aes_kw_unwrap(&kek, wrapped) {
        Some(m) => {
            // RFC 8018 style padding: 8 - (len mod 8) octets, each holding that count
            let padn = 8 - c.len % 8;
            let mut want = plain.clone();
            want.extend(std::iter::repeat(padn as u8).take(padn));
            if m != want {
                o.push(
                    "C12:ecdh-wrap:padded-value-differs-from-rfc",
                    format!("{c:?}: the wrapped value has {} octets ({}), RFC 9580 11.5 gives {} octets ending in {padn} x {padn:#04x}", m.len(), hex::encode(&m[m.len().saturating_sub(9)..]), want.len()),
                );
            }
        }
        None => o.push("C12:ecdh-wrap:model-cannot-unwrap-library-value", format!("{c:?}: {} wrapped octets", wrapped.len())),
    }
    o
}

pub fn check(ctx: &Ctx) {
    if let Err(e) = cm::self_test().and_then(|_| kdf::self_test()) {
        eprintln!("MACHINERY: reference model self-test against the RFC 9580 sample messages failed: {e}");
        std::process::exit(2);
    }
    let quick = ctx.tier == Tier::Quick;
    // S2K
    let mut sc = Vec::new();
    let counts: Vec<u8> = if quick { (0..=255u8).filter(|c| c % 8 == 0 || c % 16 == 15 || matches!(c, 1 | 97 | 255)).collect() } else { (0..=255).collect() };
    let pwlens: Vec<usize> = vec![0, 1, 7, 8, 9, 55, 56, 57, 63, 64, 65, 119, 200, 1016, 1017, 1018, 1100];
    for hash in HASH_IDS {
        for size in [16usize, 24, 32, 40, 65] {
            for &pwlen in &pwlens {
                for typ in [0u8, 1] {
                    sc.push(S2kCase { typ, hash, count: 0, t: 0, p: 0, m_enc: 0, size, pwlen });
                }
                for &count in &counts {
                    let big = kdf::decode_count(count) > 4 << 20;
                    if big && !(pwlen == 0 || pwlen == 8 || pwlen == 200) {
                        continue;
                    }
                    if big && (quick || size != 32) && !(hash == 8 && size == 32) {
                        continue;
                    }
                    sc.push(S2kCase { typ: 3, hash, count, t: 0, p: 0, m_enc: 0, size, pwlen });
                }
            }
        }
    }
    for t in 1..=3u8 {
        for p in [1u8, 2, 4] {
            for m_enc in 3..=if quick { 9u8 } else { 12 } {
                for size in [16usize, 32, 40] {
                    for pwlen in [0usize, 8, 200] {
                        sc.push(S2kCase { typ: 4, hash: 0, count: 0, t, p, m_enc, size, pwlen });
                    }
                }
            }
        }
    }
    ctx.run_space(
        "s2k_derive_key",
        true,
        "StringToKey::derive_key = octet-wise RFC definition for: simple/salted/iterated x 9 hashes x derived sizes {16,24,32,40,65} (multi-context for short digests) x password lengths {0,1,7,8,9,55..57,63..65,119,200,1016..1018,1100} x coded counts (quick: 8 values; thorough: all 256, the large ones with 3 password lengths); Argon2 t 1..3 x p {1,2,4} x m 2^3..2^7 (2^10) KiB",
        sc.into_par_iter(),
        run_s2k,
    );

    // SKESK
    let mut kc = Vec::new();
    for sym in CFB_CIPHERS {
        for (s2k_typ, hash, count) in [(1u8, 8u8, 0u8), (3, 8, 0), (3, 10, 96), (3, 2, 16), (1, 3, 0), (4, 0, 0), (3, 11, 5)] {
            for pwlen in [0usize, 9, 70] {
                kc.push(SkeskCase { v6: false, sym, aead: 0, s2k_typ, hash, count, pwlen, inner: 0 });
            }
        }
    }
    // v4: every cipher protecting a session key of every other cipher
    for sym in CFB_CIPHERS {
        for inner in CFB_CIPHERS {
            if inner != sym {
                kc.push(SkeskCase { v6: false, sym, aead: 0, s2k_typ: 3, hash: 8, count: 0, pwlen: 9, inner });
            }
        }
    }
    for sym in [7u8, 8, 9] {
        for aead in [1u8, 2, 3] {
            for (s2k_typ, hash, count) in [(1u8, 8u8, 0u8), (3, 8, 0), (3, 10, 96), (4, 0, 0), (3, 12, 3)] {
                for pwlen in [0usize, 9, 70] {
                    kc.push(SkeskCase { v6: true, sym, aead, s2k_typ, hash, count, pwlen, inner: 0 });
                }
            }
        }
    }
    ctx.run_space(
        "skesk",
        true,
        "SKESK v4 (11 ciphers; plus every cipher protecting a session key of every other cipher, 110 pairs) and v6 (3 ciphers x 3 AEAD modes) x S2K {salted, iterated (several hashes/counts incl. SHA-1/RIPEMD for reading), Argon2} x password lengths {0,9,70}: model-built packet parsed and decrypted by the library; library-built packet opened by the model (v4 also byte-identical)",
        kc.into_par_iter(),
        run_skesk,
    );

    // SEIPD
    let mut dc = Vec::new();
    for sym in CFB_CIPHERS {
        let (bs, _) = cm::sym_params(sym).unwrap();
        for n in [0usize, 1, bs - 1, bs, bs + 1, 100, 8191, 8192, 8193] {
            dc.push(SeipdCase { v2: false, sym, aead: 0, chunk: 0, n });
        }
    }
    for sym in [7u8, 8, 9] {
        for aead in [1u8, 2, 3] {
            for chunk in 0..=16u8 {
                let c = 1usize << (chunk + 6);
                // the large chunk sizes in the quick tier: one cipher / mode, one length just past
                // a chunk (the other combinations are the thorough tier's)
                if quick && chunk > 10 && !(sym == 7 && aead == 2) {
                    continue;
                }
                let ns: Vec<usize> = if chunk <= 10 {
                    vec![0, 1, c - 1, c, c + 1, 2 * c, 3 * c - 1, 3 * c]
                } else if quick {
                    vec![c + 1]
                } else {
                    vec![0, 1, c - 1, c, c + 1]
                };
                for n in ns {
                    dc.push(SeipdCase { v2: true, sym, aead, chunk, n });
                }
            }
        }
    }
    ctx.run_space(
        "seipd",
        true,
        "SEIPDv1: 11 ciphers x lengths {0,1,bs-1,bs,bs+1,100,8191..8193}: library ciphertext opened by the model and byte-identical to the model given the same random prefix; model ciphertext opened by the library in both read modes. SEIPDv2: 3 ciphers x 3 AEAD x chunk-size octets 0..10 (thorough 0..16) x lengths 0..3 chunks: library encryptor output byte-identical to the model (fixed key and salt), model output opened by the library",
        dc.into_par_iter(),
        run_seipd,
    );

    // secret key protection
    let mut lc = Vec::new();
    for key in [KeyKind::Ed25519V4, KeyKind::Ed25519V6, KeyKind::EcdsaP256V4, KeyKind::Ed25519LegacyV4, KeyKind::Rsa2048V4] {
        for subkey in [false, true] {
            for sym in CFB_CIPHERS {
                for (s2k_typ, hash, count) in [(0u8, 8u8, 0u8), (1, 8, 0), (3, 8, 0), (3, 2, 96), (3, 10, 160)] {
                    if !(sym == 7 || sym == 9 || sym == 2) && s2k_typ != 3 {
                        continue;
                    }
                    lc.push(LockCase { key, subkey, usage: 254, sym, aead: 0, s2k_typ, hash, count });
                    if !key.is_v6() && hash != 2 {
                        lc.push(LockCase { key, subkey, usage: 255, sym, aead: 0, s2k_typ, hash, count });
                    }
                }
            }
            for sym in [7u8, 8, 9] {
                for aead in [1u8, 2, 3] {
                    for (s2k_typ, hash, count) in [(3u8, 8u8, 0u8), (4, 0, 0), (1, 10, 0)] {
                        lc.push(LockCase { key, subkey, usage: 253, sym, aead, s2k_typ, hash, count });
                    }
                }
            }
        }
    }
    common::cert(KeyKind::Rsa2048V4, 1);
    ctx.run_space(
        "secret_key_protection",
        true,
        "5 key kinds x primary/subkey x usage 254 (11 ciphers x S2K kinds) / 255 (v4; read only) / 253 (3 ciphers x 3 AEAD modes x S2K kinds): the model protects the plain secret material and assembles the packet -> library parses, unlocks to the same material and re-serialises identically; the library locks with the same parameters -> its packet equals the model's",
        lc.into_par_iter(),
        run_lock,
    );

    // public-key session key wrapping
    let mut pc = Vec::new();
    for key in [KeyKind::Ed25519V4, KeyKind::Ed25519V6, KeyKind::Ed25519LegacyV4, KeyKind::EcdsaP256V4, KeyKind::EcdsaP256V6] {
        for v6 in [false, true] {
            if v6 && !key.is_v6() && key != KeyKind::Ed25519V4 {
                continue;
            }
            for sk_len in [16usize, 24, 32] {
                pc.push(PkCase { key, v6, sk_len });
            }
        }
    }
    ctx.run_space(
        "pkesk_wrapping",
        true,
        "X25519 (HKDF-SHA256 + AES-128 key wrap), ECDH Curve25519Legacy and P-256 (KDF + AES key wrap + padding + checksum) x PKESK v3/v6 x session key lengths 16/24/32: library packet unwrapped by the model with the recipient's secret scalar; model-wrapped X25519 packet unwrapped by the library",
        pc.into_par_iter(),
        run_pk,
    );
    let mut ec = Vec::new();
    for key in [KeyKind::Ed25519LegacyV4, KeyKind::EcdsaP256V4, KeyKind::EcdsaP256V6] {
        for len in (1..=72usize).chain([119, 120, 121, 231, 232, 233, 238, 239]) {
            ec.push(EcdhLenCase { key, len });
        }
    }
    ctx.run_space(
        "ecdh_wrap_every_length",
        true,
        "crypto::ecdh::encrypt (Curve25519Legacy, P-256 v4 / v6 fingerprints) of values of EVERY length 1..72 and around 120, 232, 239: the model derives the shared secret with the recipient's scalar, unwraps with RFC 3394 and must find the value followed by 8 - (len mod 8) padding octets (a whole block of 0x08 when the length is a multiple of 8)",
        ec.into_par_iter(),
        run_ecdh_len,
    );
    ctx.assume("primitive crates (block ciphers, hashes, HKDF, AEAD modes, AES-KW, curve arithmetic, Argon2) are trusted; the model is bound to RFC 9580 through the sample messages in /repo/tests/unit-tests/{aead,argon2}");
}

pub fn replay(space: &str, case: &Value) -> Option<Outcome> {
    match space {
        "s2k_derive_key" => replay_as(case, run_s2k),
        "skesk" => replay_as(case, run_skesk),
        "seipd" => replay_as(case, run_seipd),
        "secret_key_protection" => replay_as(case, run_lock),
        "pkesk_wrapping" => replay_as(case, run_pk),
        "ecdh_wrap_every_length" => replay_as(case, run_ecdh_len),
        _ => None,
    }
}
