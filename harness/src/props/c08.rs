//! C08 — secret-key locking: the right password restores the key, nothing else does.

use std::collections::{HashSet, VecDeque};

use pgp::{
    crypto::{aead::AeadAlgorithm, hash::HashAlgorithm, sym::SymmetricKeyAlgorithm},
    packet::{Packet, PacketParser, PacketTrait},
    ser::Serialize as _,
    types::{Password, PlainSecretParams, S2kParams, StringToKey},
};
use rayon::prelude::*;
use serde::{Deserialize, Serialize};
use serde_json::Value;

use crate::{
    common::{self, KeyKind},
    engine::{h64, replay_as, Ctx, Outcome, Tier},
    reference::{
        codec::{self, Summary},
        crypto as cm,
        frame::frame_min,
        kdf::{self, S2k},
    },
};

const LONG_A: [u8; 1100] = [b'L'; 1100];
const LONG_B: [u8; 1100] = {
    let mut a = [b'L'; 1100];
    a[1099] = b'M';
    a
};
/// empty, one octet, not UTF-8, 200 octets, and two 1100-octet passwords differing in the last
/// octet only (longer than the smallest iteration count of 1024 octets)
const PASSWORDS: [&[u8]; 6] = [b"", b"a", b"\xff\xfe non utf8 \x00", &[b'p'; 200], &LONG_A, &LONG_B];

#[derive(Clone, Copy, Debug, Hash, PartialEq, Eq, Serialize, Deserialize)]
pub struct LockParams {
    pub usage: u8,
    pub sym: u8,
    pub aead: u8,
    /// 0 simple, 1 salted, 3 iterated, 4 argon2
    pub s2k: u8,
    pub hash: u8,
    pub count: u8,
}

pub const PARAM_SET: [LockParams; 8] = [
    LockParams { usage: 254, sym: 7, aead: 0, s2k: 3, hash: 8, count: 0 },
    LockParams { usage: 254, sym: 9, aead: 0, s2k: 3, hash: 10, count: 96 },
    LockParams { usage: 254, sym: 3, aead: 0, s2k: 1, hash: 8, count: 0 },
    LockParams { usage: 254, sym: 2, aead: 0, s2k: 3, hash: 8, count: 1 },
    LockParams { usage: 253, sym: 7, aead: 2, s2k: 3, hash: 8, count: 0 },
    LockParams { usage: 253, sym: 9, aead: 3, s2k: 4, hash: 0, count: 0 },
    LockParams { usage: 253, sym: 8, aead: 1, s2k: 3, hash: 10, count: 16 },
    LockParams { usage: 254, sym: 13, aead: 0, s2k: 3, hash: 12, count: 0 },
];

fn s2k_model(p: &LockParams, n: u8) -> S2k {
    let salt = [0x21, 0x22, 0x23, 0x24, 0x25, 0x26, 0x27, n];
    match p.s2k {
        0 => S2k::Simple { hash: p.hash },
        1 => S2k::Salted { hash: p.hash, salt },
        3 => S2k::Iterated { hash: p.hash, salt, count: p.count },
        _ => S2k::Argon2 { salt: [0x5B; 16], t: 1, p: 1, m_enc: 4 },
    }
}

fn s2k_lib(s: &S2k) -> StringToKey {
    match s {
        S2k::Simple { hash } => StringToKey::Simple { hash_alg: HashAlgorithm::from(*hash) },
        S2k::Salted { hash, salt } => StringToKey::Salted { hash_alg: HashAlgorithm::from(*hash), salt: *salt },
        S2k::Iterated { hash, salt, count } => StringToKey::IteratedAndSalted { hash_alg: HashAlgorithm::from(*hash), salt: *salt, count: *count },
        S2k::Argon2 { salt, t, p, m_enc } => StringToKey::Argon2 { salt: *salt, t: *t, p: *p, m_enc: *m_enc },
    }
}

pub fn lib_params_pub(p: &LockParams, n: u8) -> S2kParams {
    lib_params(p, n)
}

fn lib_params(p: &LockParams, n: u8) -> S2kParams {
    let (bs, _) = cm::sym_params(p.sym).expect("cipher");
    if p.usage == 253 {
        let nl = cm::aead_nonce_len(p.aead).unwrap();
        S2kParams::Aead {
            sym_alg: SymmetricKeyAlgorithm::from(p.sym),
            aead_mode: AeadAlgorithm::from(p.aead),
            s2k: s2k_lib(&s2k_model(p, n)),
            nonce: (0..nl).map(|i| 0x40 + i as u8 + n).collect::<Vec<u8>>().into(),
        }
    } else {
        S2kParams::Cfb {
            sym_alg: SymmetricKeyAlgorithm::from(p.sym),
            s2k: s2k_lib(&s2k_model(p, n)),
            iv: (0..bs).map(|i| 0x40 + i as u8 + n).collect::<Vec<u8>>().into(),
        }
    }
}

/// A secret key packet (primary or subkey) as a value we can run operations on.
#[derive(Clone)]
enum SK {
    P(pgp::packet::SecretKey),
    S(pgp::packet::SecretSubkey),
}

impl SK {
    fn tag(&self) -> u8 {
        match self {
            SK::P(_) => 5,
            SK::S(_) => 7,
        }
    }
    fn body(&self) -> Vec<u8> {
        match self {
            SK::P(k) => k.to_bytes(),
            SK::S(k) => k.to_bytes(),
        }
        .expect("serialise")
    }
    fn with_header(&self) -> Vec<u8> {
        let mut v = Vec::new();
        match self {
            SK::P(k) => k.to_writer_with_header(&mut v),
            SK::S(k) => k.to_writer_with_header(&mut v),
        }
        .expect("serialise");
        v
    }
    fn write_len_with_header(&self) -> usize {
        match self {
            SK::P(k) => k.write_len_with_header(),
            SK::S(k) => k.write_len_with_header(),
        }
    }
    fn parse(tag: u8, body: &[u8]) -> Result<SK, String> {
        match PacketParser::new(&frame_min(tag, body)[..]).next() {
            Some(Ok(Packet::SecretKey(k))) => Ok(SK::P(k)),
            Some(Ok(Packet::SecretSubkey(k))) => Ok(SK::S(k)),
            Some(Ok(_)) => Err("other packet type".into()),
            Some(Err(e)) => Err(e.to_string()),
            None => Err("no packet".into()),
        }
    }
    fn unlock(&self, pw: &[u8]) -> Result<PlainSecretParams, String> {
        let pw = Password::from(pw);
        let r = match self {
            SK::P(k) => k.unlock(&pw, |_, p| Ok(p.clone())),
            SK::S(k) => k.unlock(&pw, |_, p| Ok(p.clone())),
        };
        match r {
            Ok(Ok(p)) => Ok(p),
            Ok(Err(e)) | Err(e) => Err(e.to_string()),
        }
    }
    fn set_password(&mut self, pw: &[u8], p: S2kParams) -> Result<(), String> {
        let pw = Password::from(pw);
        match self {
            SK::P(k) => k.set_password_with_s2k(&pw, p),
            SK::S(k) => k.set_password_with_s2k(&pw, p),
        }
        .map_err(|e| e.to_string())
    }
    fn remove_password(&mut self, pw: &[u8]) -> Result<(), String> {
        let pw = Password::from(pw);
        match self {
            SK::P(k) => k.remove_password(&pw),
            SK::S(k) => k.remove_password(&pw),
        }
        .map_err(|e| e.to_string())
    }
}

fn base_key(kind: KeyKind, subkey: bool) -> SK {
    let cert = common::cert(kind, 1);
    if subkey {
        SK::S(cert.secret_subkeys[0].key.clone())
    } else {
        SK::P(cert.primary_key.clone())
    }
}

#[derive(Clone, Debug, Hash, Serialize, Deserialize)]
pub struct OpsCase {
    pub key: KeyKind,
    pub subkey: bool,
    pub depth: usize,
}

/// E3: breadth-first search over lock / unlock / serialise+parse sequences.  A state is the
/// canonical serialisation of the packet (plus the password that currently locks it).
fn run_ops(c: &OpsCase) -> Outcome {
    let start = base_key(c.key, c.subkey);
    let original = match start.unlock(b"") {
        Ok(p) => p,
        Err(e) => return Outcome::bad("C08:ops:base-key-not-plain", e),
    };
    let v6 = c.key.is_v6();
    let tag = start.tag();
    let mut o = Outcome::ok("invariants-hold");
    let mut seen: HashSet<u64> = HashSet::new();
    // state = (packet bytes with header, index of the locking password or None)
    let mut queue: VecDeque<(Vec<u8>, Option<usize>, usize, String)> = VecDeque::new();
    queue.push_back((start.body(), None, 0, "start".into()));
    let mut transitions = 0u64;
    let mut states: Vec<u64> = Vec::new();
    while let Some((body, locked_by, depth, history)) = queue.pop_front() {
        let key_state = h64(&(&body, locked_by));
        if !seen.insert(key_state) {
            continue;
        }
        states.push(key_state);
        let k = match SK::parse(tag, &body) {
            Ok(k) => k,
            Err(e) => {
                o.push("C08:ops:own-serialisation-does-not-parse", format!("{c:?} after {history}: {e}"));
                continue;
            }
        };
        // ---- invariants in every state
        if k.body() != body {
            o.push("C08:ops:parse-serialise-not-identity", format!("{c:?} after {history}"));
        }
        if k.write_len_with_header() != k.with_header().len() {
            o.push(
                "C08:ops:announced-length-differs-from-written",
                format!("{c:?} after {history}: {} vs {}", k.write_len_with_header(), k.with_header().len()),
            );
        }
        for (i, pw) in PASSWORDS.iter().enumerate() {
            let r = k.unlock(pw);
            transitions += 1;
            match locked_by {
                None => {
                    // unprotected: any password "unlocks"
                    if r.as_ref().ok() != Some(&original) {
                        o.push("C08:ops:plain-key-material-differs", format!("{c:?} after {history}"));
                    }
                }
                Some(l) => {
                    let same_pw = PASSWORDS[l] == *pw;
                    match (same_pw, r) {
                        (true, Ok(p)) => {
                            if p != original {
                                o.push("C08:ops:right-password-yields-other-material", format!("{c:?} after {history}"));
                            }
                        }
                        (true, Err(e)) => o.push(
                            "C08:ops:right-password-does-not-unlock",
                            format!("{c:?} after {history}, password {l}: {e}"),
                        ),
                        (false, Ok(p)) => o.push(
                            "C08:ops:wrong-password-unlocks",
                            format!("{c:?} after {history}: locked with password {l}, password {i} unlocks (material equal: {})", p == original),
                        ),
                        (false, Err(_)) => {}
                    }
                }
            }
        }
        if depth >= c.depth || o.viol.len() > 3 {
            continue;
        }
        // ---- transitions
        match locked_by {
            None => {
                for (pi, pw) in PASSWORDS.iter().enumerate() {
                    for (qi, p) in PARAM_SET.iter().enumerate() {
                        // keep the product small: long password only with the cheapest S2K
                        if pi >= 4 && !(p.s2k == 3 && p.count == 0) {
                            continue;
                        }
                        let mut k2 = k.clone();
                        transitions += 1;
                        let legal = !(v6 && p.s2k == 0);
                        match k2.set_password(pw, lib_params(p, qi as u8)) {
                            Ok(()) => {
                                if !legal {
                                    o.push("C08:ops:v6-key-locked-with-simple-s2k", format!("{c:?}"));
                                }
                                // usage octet written = requested
                                let b2 = k2.body();
                                if let Ok(d) = codec::decode_packet(tag, &b2) {
                                    if let Summary::Key(ki) = &d.summary {
                                        if ki.s2k_usage != Some(p.usage) {
                                            o.push("C08:ops:usage-octet-differs-from-request", format!("{c:?}: asked {} wrote {:?}", p.usage, ki.s2k_usage));
                                        }
                                    }
                                } else {
                                    o.push("C08:ops:locked-packet-undecodable-by-reference", format!("{c:?} params {p:?}"));
                                }
                                queue.push_back((b2, Some(pi), depth + 1, format!("{history} -> lock(pw{pi},{}/{}/{})", p.usage, p.sym, p.s2k)));
                            }
                            Err(e) => {
                                if legal {
                                    o.push("C08:ops:lock-refused", format!("{c:?} params {p:?} password {pi}: {e}"));
                                }
                            }
                        }
                    }
                }
            }
            Some(l) => {
                for (pi, pw) in PASSWORDS.iter().enumerate() {
                    let mut k2 = k.clone();
                    transitions += 1;
                    match k2.remove_password(pw) {
                        Ok(()) => {
                            if PASSWORDS[l] != *pw {
                                o.push("C08:ops:remove_password-succeeds-with-wrong-password", format!("{c:?} after {history}: password {pi}"));
                            }
                            queue.push_back((k2.body(), None, depth + 1, format!("{history} -> remove(pw{pi})")));
                        }
                        Err(_) => {
                            if PASSWORDS[l] == *pw {
                                o.push("C08:ops:remove_password-fails-with-right-password", format!("{c:?} after {history}"));
                            }
                            if k2.body() != body {
                                o.push("C08:ops:failed-remove_password-changed-the-key", format!("{c:?} after {history}"));
                            }
                        }
                    }
                }
                // locking an already locked key must be refused and leave it unchanged
                let mut k2 = k.clone();
                transitions += 1;
                if k2.set_password(b"x", lib_params(&PARAM_SET[0], 0)).is_ok() {
                    o.push("C08:ops:locked-key-relocked-without-unlocking", format!("{c:?} after {history}"));
                } else if k2.body() != body {
                    o.push("C08:ops:failed-lock-changed-the-key", format!("{c:?} after {history}"));
                }
            }
        }
    }
    o.transitions = transitions;
    o.evals = transitions;
    o.states = states;
    o
}

#[derive(Clone, Debug, Hash, Serialize, Deserialize)]
pub struct WireCase {
    pub key: KeyKind,
    pub subkey: bool,
    /// 255, 254, or 0 = legacy (the cipher octet itself is the usage octet)
    pub usage: u8,
    pub sym: u8,
    pub s2k: u8,
    pub hash: u8,
    pub count: u8,
    pub pw: usize,
}

struct Plain {
    tag: u8,
    version: u8,
    public: Vec<u8>,
    material: Vec<u8>,
}

fn plain_of(k: &SK) -> Plain {
    let body = k.body();
    let d = codec::decode_packet(k.tag(), &body).expect("decode own key");
    let Summary::Key(ki) = d.summary else { panic!("not a key") };
    let (s, e) = ki.secret_part.expect("secret part");
    let end = if ki.version == 6 { e } else { e - 2 };
    Plain {
        tag: k.tag(),
        version: ki.version,
        public: body[..ki.public_end].to_vec(),
        material: body[s + 1..end].to_vec(),
    }
}

/// assemble a locked packet body from the model
fn model_locked(pl: &Plain, usage: u8, sym: u8, aead: u8, s2k: &S2k, iv: &[u8], pw: &[u8]) -> Vec<u8> {
    let blob = match usage {
        253 => kdf::protect_253(0xC0 | pl.tag, pl.version, sym, aead, s2k, iv, pw, &pl.public, &pl.material),
        254 => kdf::protect_254(sym, s2k, iv, pw, &pl.material),
        _ => kdf::protect_255(sym, s2k, iv, pw, &pl.material),
    };
    let s2kb = s2k.to_bytes();
    let mut body = pl.public.clone();
    body.push(if usage == 0 { sym } else { usage });
    let mut params = Vec::new();
    if usage != 0 {
        params.push(sym);
    }
    if usage == 253 {
        params.push(aead);
    }
    if pl.version == 6 && matches!(usage, 253 | 254) {
        params.push(s2kb.len() as u8);
    }
    if usage != 0 {
        params.extend_from_slice(&s2kb);
    }
    params.extend_from_slice(iv);
    if pl.version == 6 {
        body.push(params.len() as u8);
    }
    body.extend_from_slice(&params);
    body.extend_from_slice(&blob);
    body
}

fn run_wire(c: &WireCase) -> Outcome {
    let k = base_key(c.key, c.subkey);
    let original = k.unlock(b"").expect("plain");
    let pl = plain_of(&k);
    let (bs, _) = cm::sym_params(c.sym).expect("cipher");
    let lp = LockParams { usage: c.usage, sym: c.sym, aead: 0, s2k: c.s2k, hash: c.hash, count: c.count };
    // legacy usage: the S2K is implicit (simple MD5) -- RFC 4880 3.7.2.1
    let s2k = if c.usage == 0 { S2k::Simple { hash: 1 } } else { s2k_model(&lp, 3) };
    let iv: Vec<u8> = (0..bs).map(|i| 0x17 + i as u8).collect();
    let pw = PASSWORDS[c.pw];
    let body = model_locked(&pl, c.usage, c.sym, 0, &s2k, &iv, pw);
    let name = if c.usage == 0 { "legacy-cipher-octet".to_string() } else { format!("usage{}", c.usage) };
    // RFC 9580: v6 keys only with usage 253/254, not with simple S2K or MD5/SHA-1/RIPEMD S2K hashes
    let v6_illegal = pl.version == 6 && (c.usage != 254 || c.s2k == 0 || matches!(c.hash, 1 | 2 | 3));
    let parsed = match SK::parse(pl.tag, &body) {
        Ok(k) => k,
        Err(e) => {
            return if v6_illegal {
                Outcome::ok("v6:refused@parse")
            } else {
                Outcome::bad(format!("C08:wire:{name}:accepted-format-does-not-parse"), format!("{c:?}: {e}"))
            }
        }
    };
    let mut o = Outcome::ok(format!("{name}:unlocks"));
    match parsed.unlock(pw) {
        Ok(p) => {
            if v6_illegal {
                o.push(format!("C08:wire:v6-key-with-{name}-unlocked"), format!("{c:?}"));
            }
            if p != original {
                o.push(format!("C08:wire:{name}:right-password-yields-other-material"), format!("{c:?}"));
            }
        }
        Err(e) => {
            if !v6_illegal {
                o.push(format!("C08:wire:{name}:right-password-does-not-unlock"), format!("{c:?}: {e}"));
            } else {
                o.class = "v6:refused@unlock".into();
            }
        }
    }
    // the usage octet read is the usage octet written
    let re = parsed.body();
    if re != body && !v6_illegal {
        let at = re.iter().zip(body.iter()).position(|(a, b)| a != b).unwrap_or(re.len().min(body.len()));
        let what = if at == pl.public.len() { "usage-octet-changes" } else { "bytes-change" };
        o.push(
            format!("C08:wire:{name}:{what}-on-reserialisation"),
            format!("{c:?}: octet {at}: read {:#x}, written {:#x}", body.get(at).copied().unwrap_or(0), re.get(at).copied().unwrap_or(0)),
        );
    }
    // another password must not unlock (the 16-bit checksum admits collisions: ask the model)
    for (i, other) in PASSWORDS.iter().enumerate() {
        if *other == pw || i >= 4 {
            continue;
        }
        if let Ok(p) = parsed.unlock(other) {
            let model_accepts = match c.usage {
                254 => false,
                _ => kdf::unprotect_255(c.sym, &s2k, &iv, other, &body[body.len() - pl.material.len() - 2..]).is_some(),
            };
            if !model_accepts {
                o.push(format!("C08:wire:{name}:wrong-password-unlocks"), format!("{c:?}: password {i} (material equal: {})", p == original));
            }
        }
    }
    o
}

#[derive(Clone, Debug, Hash, Serialize, Deserialize)]
pub struct TamperCase {
    pub key: KeyKind,
    pub subkey: bool,
    pub params: usize,
    /// 0: every bit of the secret part; 1: every bit of the public part; 2: packet tag swapped
    pub region: u8,
}

fn run_tamper(c: &TamperCase) -> Outcome {
    let mut k = base_key(c.key, c.subkey);
    let original = k.unlock(b"").expect("plain");
    let p = PARAM_SET[c.params];
    if c.key.is_v6() && p.s2k == 0 {
        return Outcome::trivial("n/a");
    }
    let pw = PASSWORDS[1];
    if let Err(e) = k.set_password(pw, lib_params(&p, 1)) {
        return Outcome::bad("C08:tamper:lock-refused", format!("{c:?}: {e}"));
    }
    let body = k.body();
    let d = codec::decode_packet(k.tag(), &body).expect("decode");
    let Summary::Key(ki) = &d.summary else { panic!() };
    let (ss, se) = ki.secret_part.expect("secret part");
    let mut o = Outcome::ok("all-tampering-detected");
    let mut evals = 0u64;
    let judge = |what: String, tag: u8, b: &[u8], o: &mut Outcome, public_changed: bool| {
        let Ok(k2) = SK::parse(tag, b) else { return };
        match k2.unlock(pw) {
            Err(_) => {}
            Ok(pl) => {
                if public_changed && p.usage != 253 {
                    // without AEAD the public fields are not bound to the protected secret: the
                    // same octets may legitimately be re-interpreted; nothing is demanded
                } else if pl != original {
                    o.push(
                        format!("C08:tamper:usage{}:unlock-returns-other-material", p.usage),
                        format!("{c:?}: {what}: unlock succeeds with different key material"),
                    );
                } else if p.usage == 253 && public_changed {
                    o.push(
                        "C08:tamper:usage253:public-fields-not-bound".to_string(),
                        format!("{c:?}: {what}: AEAD-protected key unlocks although the bound public part changed"),
                    );
                }
            }
        }
    };
    match c.region {
        0 => {
            for pos in ss..se {
                for bit in 0..8 {
                    let mut b = body.clone();
                    b[pos] ^= 1 << bit;
                    evals += 1;
                    let field = d.fields.iter().find(|f| f.start <= pos && pos < f.end).map(|f| format!("{:?}", f.kind)).unwrap_or_default();
                    judge(format!("bit {bit} of secret-part octet {} ({field}) flipped", pos - ss), k.tag(), &b, &mut o, false);
                    if o.viol.len() >= 3 {
                        break;
                    }
                }
            }
        }
        1 => {
            let orig_pub = crate::props::c02::key_view(if k.tag() == 5 { 6 } else { 14 }, &body[..ki.public_end]);
            for pos in 0..ki.public_end {
                for bit in 0..8 {
                    let mut b = body.clone();
                    b[pos] ^= 1 << bit;
                    evals += 1;
                    // abstract change of the public part? (MPI bit counts etc. do not count)
                    let changed = match SK::parse(k.tag(), &b) {
                        Ok(k2) => {
                            let b2 = k2.body();
                            codec::decode_packet(k.tag(), &b2)
                                .ok()
                                .and_then(|d2| match d2.summary {
                                    Summary::Key(k2i) => crate::props::c02::key_view(if k.tag() == 5 { 6 } else { 14 }, &b2[..k2i.public_end]),
                                    _ => None,
                                })
                                != orig_pub
                        }
                        Err(_) => true,
                    };
                    judge(format!("bit {bit} of public-part octet {pos} flipped"), k.tag(), &b, &mut o, changed);
                    if o.viol.len() >= 3 {
                        break;
                    }
                }
            }
        }
        _ => {
            // the same body under the other secret-key tag (primary <-> subkey)
            let other_tag = if k.tag() == 5 { 7 } else { 5 };
            evals += 1;
            judge("packet tag swapped between secret key and secret subkey".into(), other_tag, &body, &mut o, true);
        }
    }
    o.evals = evals.max(1);
    o
}

#[derive(Clone, Debug, Hash, Serialize, Deserialize)]
pub struct AlgCase {
    pub v6: bool,
    /// first seed of a block of 25 consecutive key-generation seeds
    pub first_seed: u64,
}

/// Every key algorithm x many generated keys (so that secret fields with leading zero octets,
/// stored in shortened form, occur for each of them): lock, serialise, parse, unlock.
fn run_algs(c: &AlgCase) -> Outcome {
    use crate::props::c07::{Alg, Case as KCase, Shape, Sub};
    let mut o = Outcome::ok("restored");
    let mut states = Vec::new();
    let mut transitions = 0u64;
    let sign_algs = [Alg::EcdsaP256, Alg::EcdsaP384, Alg::EcdsaP521, Alg::EcdsaK256, Alg::Ed448, Alg::Ed25519Legacy];
    let enc_algs = [Alg::EcdhP256, Alg::EcdhP384, Alg::EcdhP521, Alg::EcdhCv25519, Alg::X25519, Alg::X448];
    for seed in c.first_seed..c.first_seed + 25 {
        let mut subs: Vec<Sub> = Vec::new();
        for a in sign_algs {
            if c.v6 && a == Alg::Ed25519Legacy {
                continue;
            }
            subs.push(Sub { alg: a, sign: true, encrypt: false, lock: 0, caps: 0 });
        }
        for a in enc_algs {
            if c.v6 && a == Alg::EcdhCv25519 {
                continue;
            }
            subs.push(Sub { alg: a, sign: false, encrypt: true, lock: 0, caps: 0 });
        }
        let shape = Shape { v6: c.v6, primary: Alg::Ed25519, subs, lock: 0, uids: 1, prefs: false, subkey_v6: None };
        let cert = match crate::props::c07::build(&KCase { shape, seed, force_draw: None, mode: 0 }) {
            Ok(Ok(k)) => k,
            other => {
                o.push("C08:algs:key-generation-failed", format!("{c:?} seed {seed}: {:?}", other.map(|r| r.map(|_| ()))));
                continue;
            }
        };
        let mut keys: Vec<SK> = vec![SK::P(cert.primary_key.clone())];
        keys.extend(cert.secret_subkeys.iter().map(|s| SK::S(s.key.clone())));
        for (ki, k) in keys.iter().enumerate() {
            let alg = match k {
                SK::P(k) => format!("{:?}", pgp::types::KeyDetails::algorithm(k)),
                SK::S(k) => format!("{:?} subkey {}", pgp::types::KeyDetails::algorithm(k), ki),
            };
            let Ok(original) = k.unlock(b"") else {
                o.push("C08:algs:generated-key-not-plain", format!("{c:?} seed {seed} {alg}"));
                continue;
            };
            for (qi, p) in [&PARAM_SET[0], &PARAM_SET[4]].into_iter().enumerate() {
                let mut k2 = k.clone();
                transitions += 1;
                if let Err(e) = k2.set_password(b"right", lib_params(p, qi as u8)) {
                    o.push("C08:algs:lock-refused", format!("{c:?} seed {seed} {alg} usage {}: {e}", p.usage));
                    continue;
                }
                // in memory, and after serialise + parse
                let body = k2.body();
                let reparsed = SK::parse(k.tag(), &body);
                states.push(h64(&body));
                for (how, kk) in [("in memory", Ok(k2.clone())), ("after serialise+parse", reparsed)] {
                    let kk = match kk {
                        Ok(kk) => kk,
                        Err(e) => {
                            o.push("C08:algs:own-serialisation-does-not-parse", format!("{c:?} seed {seed} {alg} usage {}: {e}", p.usage));
                            continue;
                        }
                    };
                    transitions += 2;
                    match kk.unlock(b"right") {
                        Ok(m) => {
                            if m != original {
                                o.push("C08:algs:right-password-yields-other-material", format!("{c:?} seed {seed} {alg} usage {} {how}", p.usage));
                            }
                        }
                        Err(e) => o.push("C08:algs:right-password-does-not-unlock", format!("{c:?} seed {seed} {alg} usage {} {how}: {e}", p.usage)),
                    }
                    if kk.unlock(b"wrong").is_ok() {
                        o.push("C08:algs:wrong-password-unlocks", format!("{c:?} seed {seed} {alg} usage {} {how}", p.usage));
                    }
                    let mut k3 = kk.clone();
                    match k3.remove_password(b"right") {
                        Ok(()) => {
                            if k3.body() != k.body() {
                                o.push("C08:algs:remove_password-does-not-restore-the-packet", format!("{c:?} seed {seed} {alg} usage {} {how}", p.usage));
                            }
                        }
                        Err(e) => o.push("C08:algs:remove_password-fails-with-right-password", format!("{c:?} seed {seed} {alg} usage {} {how}: {e}", p.usage)),
                    }
                }
            }
        }
    }
    o.transitions = transitions;
    o.evals = transitions;
    o.states = states;
    o
}

pub fn check(ctx: &Ctx) {
    // the former thorough bounds take seconds: they are the quick tier now; `deep` = thorough
    let quick = false;
    #[allow(unused_variables)]
    let deep = ctx.tier == Tier::Thorough;
    let keys = [
        KeyKind::Ed25519V4,
        KeyKind::Ed25519V6,
        KeyKind::Ed25519LegacyV4,
        KeyKind::EcdsaP256V4,
        KeyKind::EcdsaP256V6,
        KeyKind::Rsa2048V4,
    ];
    for k in keys {
        common::cert(k, 1);
    }
    let mut oc = Vec::new();
    for key in keys {
        for subkey in [false, true] {
            oc.push(OpsCase { key, subkey, depth: if quick { 3 } else if deep { 6 } else { 5 } });
        }
    }
    ctx.run_space(
        "lock_unlock_operation_sequences",
        true,
        "E3 breadth-first search per key (6 kinds x primary/subkey) over the operations {set_password_with_s2k(password p, parameters P) for 6 passwords (empty, 1 octet, non-UTF-8, 200 octets, two of 1100 octets differing in the last octet) x 8 parameter sets (usage 254 x ciphers x S2K kinds, usage 253 x AEAD modes x iterated/Argon2), remove_password(p), serialise + parse on every edge} to depth 3 (thorough 5), states deduplicated by canonical bytes; invariants in every state: parse(serialise) identity, announced length = written length, the locking password yields exactly the original material, every other password fails, failed operations leave the key unchanged, the usage octet is the requested one",
        oc.into_par_iter(),
        run_ops,
    );

    let mut wc = Vec::new();
    let counts: Vec<u8> = if quick { vec![0, 1, 15, 16, 95, 96, 97, 200] } else { (0..=255).collect() };
    for key in [KeyKind::Ed25519V4, KeyKind::EcdsaP256V4, KeyKind::Ed25519V6] {
        for subkey in [false, true] {
            for sym in [1u8, 2, 3, 4, 7, 8, 9, 10, 11, 12, 13] {
                for usage in [255u8, 254, 0] {
                    for (s2k, hash) in [(0u8, 8u8), (1, 8), (3, 8), (3, 2)] {
                        if usage == 0 && s2k != 0 {
                            continue;
                        }
                        for pw in [0usize, 1, 2] {
                            if !(sym == 7 || sym == 3) && pw != 1 {
                                continue;
                            }
                            wc.push(WireCase { key, subkey, usage, sym, s2k, hash, count: 96, pw });
                        }
                    }
                }
            }
            if !subkey {
                for &count in &counts {
                    if kdf::decode_count(count) > 2 << 20 && quick {
                        continue;
                    }
                    wc.push(WireCase { key, subkey, usage: 254, sym: 7, s2k: 3, hash: 8, count, pw: 1 });
                }
            }
        }
    }
    ctx.run_space(
        "packets_from_the_wire",
        true,
        "locked packets assembled by the reference model (CFB + SHA-1 for usage 254, CFB + 16-bit checksum for usage 255 and for the legacy form whose usage octet is the cipher id with implicit MD5 S2K): 3 key kinds x primary/subkey x 11 ciphers x S2K kinds x passwords, and every coded iteration count (quick: 8 values): the library parses them, unlocks with the password to the original material, re-serialises them with the same usage octet, refuses other passwords (checksum collisions decided by the model); v6 keys with anything but 253/254 are refused",
        wc.into_par_iter(),
        run_wire,
    );

    let mut tc = Vec::new();
    for key in if quick { vec![KeyKind::Ed25519V4, KeyKind::Ed25519V6] } else { vec![KeyKind::Ed25519V4, KeyKind::Ed25519V6, KeyKind::EcdsaP256V4, KeyKind::Ed25519LegacyV4] } {
        for subkey in [false, true] {
            for params in 0..PARAM_SET.len() {
                if quick && !matches!(params, 0 | 2 | 4 | 5) {
                    continue;
                }
                for region in 0..3u8 {
                    tc.push(TamperCase { key, subkey, params, region });
                }
            }
        }
    }
    ctx.run_space(
        "tampered_locked_keys",
        true,
        "for locked keys (key kinds x primary/subkey x parameter sets): EVERY single-bit flip of the secret part (usage, cipher, AEAD, S2K type/hash/salt/count, IV, protected blob), EVERY single-bit flip of the public part, and the packet tag swapped key<->subkey; unlock with the right password must fail or return exactly the original material, and for AEAD protection any abstract change of the bound public fields or tag must fail",
        tc.into_par_iter(),
        run_tamper,
    );
    let mut ac = Vec::new();
    for v6 in [false, true] {
        for block in 0..if deep { 200u64 } else { 8 } {
            ac.push(AlgCase { v6, first_seed: 7000 + block * 25 });
        }
    }
    ctx.run_space(
        "every_algorithm_x_generated_keys",
        true,
        "200 (thorough 5000) generated certificates per key version, each with an Ed25519 primary and one subkey of every other algorithm (ECDSA P-256/P-384/P-521/secp256k1, Ed448, EdDSA-legacy, ECDH P-256/P-384/P-521/Curve25519, X25519, X448), so that secret scalars with leading zero octets occur for every field: each key x {usage 254 CFB, usage 253 AEAD}: lock, then in memory and after serialise + parse: the password returns exactly the original material, another password fails, remove_password restores the original packet",
        ac.into_par_iter(),
        run_algs,
    );
}

pub fn replay(space: &str, case: &Value) -> Option<Outcome> {
    match space {
        "lock_unlock_operation_sequences" => replay_as(case, run_ops),
        "every_algorithm_x_generated_keys" => replay_as(case, run_algs),
        "packets_from_the_wire" => replay_as(case, run_wire),
        "tampered_locked_keys" => replay_as(case, run_tamper),
        _ => None,
    }
}
