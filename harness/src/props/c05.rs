//! C05 — wire fidelity: parse and serialise are mutually inverse and lengths are truthful.

use std::path::Path;

use pgp::{
    composed::{Deserializable, DetachedSignature, SignedPublicKey, SignedSecretKey},
    packet::{Packet, PacketParser, PacketTrait, Subpacket, SubpacketData},
    ser::Serialize as _,
    types::Timestamp,
};
use rayon::prelude::*;
use serde::{Deserialize, Serialize};
use serde_json::Value;

use crate::{
    common::{
        self,
        msg::{self, Enc, EskSpec, MsgCfg},
        sigs::{self, SigKind, Spec},
        KeyKind,
    },
    engine::{replay_as, Ctx, Outcome, Tier},
    reference::{
        codec::{self, Kind},
        frame::{self, frame_min},
    },
};

/// body octets of a parsed packet
fn packet_body(p: &Packet) -> pgp::errors::Result<Vec<u8>> {
    match p {
        Packet::CompressedData(x) => x.to_bytes(),
        Packet::PublicKey(x) => x.to_bytes(),
        Packet::PublicSubkey(x) => x.to_bytes(),
        Packet::SecretKey(x) => x.to_bytes(),
        Packet::SecretSubkey(x) => x.to_bytes(),
        Packet::LiteralData(x) => x.to_bytes(),
        Packet::Marker(x) => x.to_bytes(),
        Packet::ModDetectionCode(x) => x.to_bytes(),
        Packet::OnePassSignature(x) => x.to_bytes(),
        Packet::PublicKeyEncryptedSessionKey(x) => x.to_bytes(),
        Packet::Signature(x) => x.to_bytes(),
        Packet::SymEncryptedData(x) => x.to_bytes(),
        Packet::SymEncryptedProtectedData(x) => x.to_bytes(),
        Packet::SymKeyEncryptedSessionKey(x) => x.to_bytes(),
        Packet::Trust(x) => x.to_bytes(),
        Packet::UserAttribute(x) => x.to_bytes(),
        Packet::UserId(x) => x.to_bytes(),
        Packet::Padding(x) => x.to_bytes(),
        Packet::GnupgAeadData(x) => x.to_bytes(),
    }
}

fn packet_body_write_len(p: &Packet) -> usize {
    match p {
        Packet::CompressedData(x) => x.write_len(),
        Packet::PublicKey(x) => x.write_len(),
        Packet::PublicSubkey(x) => x.write_len(),
        Packet::SecretKey(x) => x.write_len(),
        Packet::SecretSubkey(x) => x.write_len(),
        Packet::LiteralData(x) => x.write_len(),
        Packet::Marker(x) => x.write_len(),
        Packet::ModDetectionCode(x) => x.write_len(),
        Packet::OnePassSignature(x) => x.write_len(),
        Packet::PublicKeyEncryptedSessionKey(x) => x.write_len(),
        Packet::Signature(x) => x.write_len(),
        Packet::SymEncryptedData(x) => x.write_len(),
        Packet::SymEncryptedProtectedData(x) => x.write_len(),
        Packet::SymKeyEncryptedSessionKey(x) => x.write_len(),
        Packet::Trust(x) => x.write_len(),
        Packet::UserAttribute(x) => x.write_len(),
        Packet::UserId(x) => x.write_len(),
        Packet::Padding(x) => x.write_len(),
        Packet::GnupgAeadData(x) => x.write_len(),
    }
}

fn parse_framed(framed: &[u8]) -> Result<Packet, String> {
    match PacketParser::new(framed).next() {
        Some(Ok(p)) => Ok(p),
        Some(Err(e)) => Err(e.to_string()),
        None => Err("no packet".into()),
    }
}

/// All fidelity obligations for one accepted packet given as (tag, body): returns violations.
#[derive(Clone, Copy, PartialEq)]
enum Identity {
    /// nothing beyond truthfulness and fixpoint
    None,
    /// the whole body octet for octet
    Full,
    /// same length, and every one-octet enumeration field (versions, algorithm ids, usage,
    /// types ...) written as read
    Enumerations,
}

fn fidelity(tag: u8, body: &[u8], what: &str, identity: Identity, o: &mut Outcome) {
    let demand_identity = identity == Identity::Full;
    let framed = frame_min(tag, body);
    let Ok(p) = parse_framed(&framed) else {
        o.class = "rejected".into();
        return;
    };
    let name = format!("tag{tag}");
    // lengths are truthful
    match packet_body(&p) {
        Ok(b1) => {
            if packet_body_write_len(&p) != b1.len() {
                o.push(
                    format!("C05:{name}:write_len-differs-from-bytes-written"),
                    format!("{what}: write_len {} but {} octets written", packet_body_write_len(&p), b1.len()),
                );
            }
            // for the `Packet` enum, `to_bytes` / `write_len` are the framed forms
            match p.to_bytes() {
                Ok(full) => {
                    if p.write_len() != full.len() {
                        o.push(
                            format!("C05:{name}:write_len_with_header-differs"),
                            format!("{what}: announced {} written {}", p.write_len(), full.len()),
                        );
                    }
                    // the header written announces the body that follows
                    match frame::deframe(&full) {
                        Ok(fr) => {
                            if fr.len() != 1 || fr[0].body != b1 || fr[0].tag != tag {
                                o.push(format!("C05:{name}:header-does-not-announce-the-body"), what.to_string());
                            }
                        }
                        Err(e) => o.push(format!("C05:{name}:written-packet-not-deframable"), format!("{what}: {e:?}")),
                    }
                }
                Err(e) => o.push(format!("C05:{name}:serialisation-error"), format!("{what}: {e}")),
            }
            // value -> bytes -> value' with value = value'
            match parse_framed(&frame_min(tag, &b1)) {
                Ok(p2) => {
                    // compare modulo the packet header (the re-framing above is canonical)
                    let b2 = packet_body(&p2).unwrap_or_default();
                    if b2 != b1 {
                        o.push(format!("C05:{name}:serialisation-not-a-fixpoint"), format!("{what}: second round differs"));
                    }
                    if format!("{:?}", strip_header(&p2)) != format!("{:?}", strip_header(&p)) && p2 != p {
                        // Debug views differ: the value changed through a round trip
                        if packet_value_differs(&p, &p2) {
                            o.push(format!("C05:{name}:value-changes-through-round-trip"), what.to_string());
                        }
                    }
                }
                Err(e) => o.push(format!("C05:{name}:own-serialisation-rejected"), format!("{what}: {e}")),
            }
            // canonical input re-serialises identically
            if demand_identity && b1 != body {
                let at = b1.iter().zip(body.iter()).position(|(a, b)| a != b).unwrap_or(b1.len().min(body.len()));
                let field = codec::decode_packet(tag, body)
                    .ok()
                    .and_then(|d| d.fields.iter().find(|f| f.start <= at && at < f.end).map(|f| format!("{:?}", f.kind)))
                    .unwrap_or_else(|| "?".into());
                o.push(
                    format!("C05:{name}:canonical-input-not-reproduced:{field}"),
                    format!("{what}: input {} octets, output {} octets, first difference at octet {at} ({field}): {:#04x} -> {:#04x}", body.len(), b1.len(), body.get(at).copied().unwrap_or(0), b1.get(at).copied().unwrap_or(0)),
                );
            }
        }
        Err(e) => o.push(format!("C05:{name}:accepted-value-cannot-be-serialised"), format!("{what}: {e}")),
    }
    if identity == Identity::Enumerations {
        if let (Ok(b1), Ok(d)) = (packet_body(&p), codec::decode_packet(tag, body)) {
            if b1.len() != body.len() {
                o.push(format!("C05:{name}:body-length-changes-on-reserialisation"), format!("{what}: {} -> {} octets", body.len(), b1.len()));
            } else {
                for f in d.fields.iter().filter(|f| f.end - f.start == 1 && ENUM_KINDS.contains(&f.kind)) {
                    if b1[f.start] != body[f.start] {
                        o.push(
                            format!("C05:{name}:{:?}-octet-changes-on-reserialisation", f.kind),
                            format!("{what}: field `{}` read {:#04x}, written {:#04x}", f.path, body[f.start], b1[f.start]),
                        );
                    }
                }
            }
        }
    }
}

const ENUM_KINDS: [Kind; 13] = [
    Kind::Version,
    Kind::SigType,
    Kind::PkAlg,
    Kind::HashAlg,
    Kind::SymAlg,
    Kind::AeadAlg,
    Kind::CompAlg,
    Kind::S2kUsage,
    Kind::S2kType,
    Kind::S2kCount,
    Kind::LiteralMode,
    Kind::ChunkSize,
    Kind::KeyVersionOctet,
];

fn strip_header(p: &Packet) -> String {
    // the Debug view minus packet_header lines (framing is not part of the value)
    format!("{p:?}")
}

fn packet_value_differs(a: &Packet, b: &Packet) -> bool {
    // equality modulo packet header: compare canonical body serialisations
    packet_body(a).ok() != packet_body(b).ok()
}

fn walk(dir: &Path, out: &mut Vec<std::path::PathBuf>) {
    let Ok(rd) = std::fs::read_dir(dir) else { return };
    let mut entries: Vec<_> = rd.filter_map(|e| e.ok()).collect();
    entries.sort_by_key(|e| e.path());
    for e in entries {
        let p = e.path();
        if p.is_dir() {
            walk(&p, out);
        } else if p.metadata().map(|m| m.len() < 2_000_000).unwrap_or(false) {
            out.push(p);
        }
    }
}

fn fixture_stream(path: &Path) -> Option<Vec<u8>> {
    let data = std::fs::read(path).ok()?;
    if data.windows(14).any(|w| w == b"-----BEGIN PGP") {
        if data.windows(34).any(|w| w == b"-----BEGIN PGP SIGNED MESSAGE-----") {
            return None;
        }
        codec::dearmor(&data).ok()
    } else if data.first().map(|b| b & 0x80 != 0).unwrap_or(false) {
        Some(data)
    } else {
        None
    }
}

#[derive(Clone, Debug, Hash, Serialize, Deserialize)]
pub struct FixtureCase {
    pub file: String,
}

fn run_fixture(c: &FixtureCase) -> Outcome {
    let Some(stream) = fixture_stream(Path::new(&c.file)) else {
        return Outcome::trivial("not-openpgp");
    };
    let Ok(ps) = codec::split_packets(&stream) else {
        return Outcome::trivial("not-splittable");
    };
    let short = c.file.strip_prefix("/repo/").unwrap_or(&c.file).to_string();
    let mut o = Outcome::ok("faithful");
    let mut evals = 0u64;
    for (i, (tag, _hdr, body)) in ps.iter().enumerate() {
        if body.len() > 200_000 {
            continue;
        }
        let canonical = codec::decode_packet(*tag, body)
            // (trust packets are documented to be dropped: contents are local-only)
            .map(|d| d.canonical && *tag != 12 && !d.fields.iter().any(|f| f.kind == Kind::Opaque))
            .unwrap_or(false);
        evals += 1;
        fidelity(*tag, body, &format!("{short} packet {i}"), if canonical { Identity::Full } else { Identity::None }, &mut o);
        if o.viol.len() > 4 {
            break;
        }
    }
    o.evals = evals.max(1);
    o
}

#[derive(Clone, Debug, Hash, Serialize, Deserialize)]
pub struct SweepCase {
    /// index into the seed packet list
    pub seed: usize,
    /// index of the one-octet field inside the seed (in field order)
    pub field: usize,
}

/// (description, tag, body) of seed packets produced by the library itself and by the models
pub fn seed_packets() -> Vec<(String, u8, Vec<u8>)> {
    let mut v: Vec<(String, u8, Vec<u8>)> = Vec::new();
    let pw = pgp::types::Password::from("pw");
    for kind in [KeyKind::Ed25519V4, KeyKind::Ed25519V6, KeyKind::EcdsaP256V4, KeyKind::Ed25519LegacyV4, KeyKind::Rsa2048V4, KeyKind::Ed448V6] {
        let cert = common::cert(kind, 1);
        v.push((format!("{kind:?} public key"), 6, cert.primary_key.public_key().to_bytes().unwrap()));
        v.push((format!("{kind:?} public subkey"), 14, cert.secret_subkeys[0].key.public_key().to_bytes().unwrap()));
        v.push((format!("{kind:?} secret key"), 5, cert.primary_key.to_bytes().unwrap()));
        v.push((format!("{kind:?} secret subkey"), 7, cert.secret_subkeys[0].key.to_bytes().unwrap()));
        if kind != KeyKind::Rsa2048V4 {
            for (i, p) in crate::props::c08::PARAM_SET.iter().enumerate() {
                if kind.is_v6() && p.s2k == 0 {
                    continue;
                }
                if !matches!(i, 0 | 2 | 4 | 5) {
                    continue;
                }
                let mut k = cert.primary_key.clone();
                if k.set_password_with_s2k(&pw, crate::props::c08::lib_params_pub(p, i as u8)).is_ok() {
                    v.push((format!("{kind:?} secret key locked usage {}", p.usage), 5, k.to_bytes().unwrap()));
                }
            }
        }
        // signatures of this key
        for sk in [SigKind::DocBinary, SigKind::CertUserId(0x13), SigKind::SubkeyBinding, SigKind::DirectKey] {
            if let Ok(a) = sigs::make(&Spec { kind: sk, key: kind, hash: if kind == KeyKind::Ed448V6 { 1 } else { 0 }, object: b"Seed <s@example.org>".to_vec(), notation_len: 5, critical_time: true }) {
                v.push((format!("{kind:?} signature {sk:?}"), 2, a.sig_body));
            }
        }
        if let Some(u) = cert.details.users.first() {
            if let Some(s) = u.signatures.first() {
                v.push((format!("{kind:?} self-certification"), 2, s.to_bytes().unwrap()));
            }
        }
        if let Some(s) = cert.secret_subkeys[0].signatures.first() {
            v.push((format!("{kind:?} subkey binding"), 2, s.to_bytes().unwrap()));
        }
    }
    // message packets: ESKs, one-pass, literal, compressed, SEIPD v1/v2
    for (cfg_name, cfg) in [
        ("v1 message", MsgCfg { enc: Enc::V1(9), esks: vec![EskSpec::Key(KeyKind::Ed25519V4, false), EskSpec::Key(KeyKind::EcdsaP256V4, false), EskSpec::Key(KeyKind::Rsa2048V4, true), EskSpec::Password(0), EskSpec::Password(2)], signers: vec![(KeyKind::Ed25519V4, 0)], ..Default::default() }),
        ("v2 message", MsgCfg { enc: Enc::V2(7, 2, 0), esks: vec![EskSpec::Key(KeyKind::Ed25519V6, false), EskSpec::Key(KeyKind::Ed448V6, false), EskSpec::Key(KeyKind::EcdsaP256V6, true), EskSpec::Password(0), EskSpec::Password(2)], signers: vec![], ..Default::default() }),
        ("signed compressed message", MsgCfg { compression: 2, signers: vec![(KeyKind::Ed25519V4, 0), (KeyKind::Ed25519V6, 1)], ..Default::default() }),
        ("plain signed message", MsgCfg { signers: vec![(KeyKind::Ed25519V6, 1), (KeyKind::EcdsaP256V4, 0)], ..Default::default() }),
    ] {
        if let Ok(bytes) = msg::build_vec(&cfg, b"seed payload", 4) {
            if let Ok(ps) = codec::split_packets(&bytes) {
                for (i, (tag, _, body)) in ps.into_iter().enumerate() {
                    v.push((format!("{cfg_name} packet {i}"), tag, body));
                }
            }
        }
    }
    // small packets from the models
    v.push(("marker".into(), 10, b"PGP".to_vec()));
    v.push(("trust".into(), 12, vec![1, 2, 3]));
    v.push(("padding".into(), 21, vec![9; 10]));
    v.push(("user id".into(), 13, b"Model <m@example.org>".to_vec()));
    v.push(("mdc".into(), 19, vec![0xAB; 20]));
    v.push(("SED".into(), 9, vec![0x55; 40]));
    v.push(("literal text mode".into(), 11, [&[b't', 4][..], b"name", &[0, 0, 0, 9], b"text\r\n"].concat()));
    // user attributes: JPEG image, unknown image header version / format, unknown subpacket type,
    // two sub-records
    let jpeg = |extra: &[u8]| -> Vec<u8> {
        let mut sub = vec![1u8, 0x10, 0x00, 0x01, 0x01];
        sub.extend_from_slice(&[0u8; 12]);
        sub.extend_from_slice(extra);
        let mut b = vec![sub.len() as u8];
        b.extend_from_slice(&sub);
        b
    };
    v.push(("user attribute jpeg".into(), 17, jpeg(b"\xff\xd8image")));
    v.push(("user attribute unknown type".into(), 17, vec![4, 9, 1, 2, 3]));
    v.push(("user attribute two sub-records".into(), 17, [jpeg(b"abc"), vec![3, 9, 1, 2]].concat()));
    // GnuPG packets
    v.push(("skesk v5".into(), 3, crate::reference::crypto::hexd("05070203089f0b7da3e5ea64779099e326e5400a90936cefb4e8eba08c6773716d1f2714540a38fcac529949dac529d3de31e15b4aeb729e330033dbed")));
    v.push(("gnupg aead".into(), 20, crate::reference::crypto::hexd("010702 0e5ed2bc1e470abe8f1d644c7a6c8a567b0f7701196611a154ba9c2574cd056284a8ef68035c623d93cc708a43211bb6eaf2b27f7c18d571bcd83b20add3a08b73af15b9a098")));
    // key packets for ECDSA / ECDH on every named curve (assembled by the harness; the fixtures
    // and the generator cover a few curves only)
    for (desc, framed) in crate::props::c13::synthetic_curve_keys() {
        if let Ok(ps) = codec::split_packets(&framed) {
            if let Some((tag, _, body)) = ps.into_iter().next() {
                v.push((desc, tag, body));
            }
        }
    }
    v
}

const ONE_OCTET_KINDS: [Kind; 19] = [
    Kind::Version,
    Kind::SigType,
    Kind::PkAlg,
    Kind::HashAlg,
    Kind::SymAlg,
    Kind::AeadAlg,
    Kind::CompAlg,
    Kind::S2kUsage,
    Kind::S2kType,
    Kind::S2kCount,
    Kind::SubpacketType,
    Kind::LiteralMode,
    Kind::ChunkSize,
    Kind::KeyVersionOctet,
    Kind::NestedFlag,
    Kind::UserAttrSubType,
    Kind::Argon2T,
    Kind::Argon2P,
    Kind::Argon2M,
];

fn one_octet_fields(tag: u8, body: &[u8]) -> Vec<(usize, Kind, String)> {
    let mut out = Vec::new();
    if let Ok(d) = codec::decode_packet(tag, body) {
        for f in &d.fields {
            if f.end - f.start == 1 && ONE_OCTET_KINDS.contains(&f.kind) {
                out.push((f.start, f.kind, f.path.clone()));
            }
        }
        // the image header version / format octets of a user attribute
        if tag == 17 && body.len() > 6 && body[1] == 1 {
            out.push((4, Kind::Version, "image-header/version".into()));
            out.push((5, Kind::Opaque, "image-header/format".into()));
        }
        // key flags / features octets are subpacket bodies: sweep the first body octet of short subpackets
        if tag == 2 {
            for f in &d.fields {
                if f.kind == Kind::SubpacketBody && f.end - f.start <= 2 {
                    out.push((f.start, Kind::SubpacketBody, f.path.clone()));
                }
            }
        }
    }
    out
}

fn run_sweep(c: &SweepCase) -> Outcome {
    let seeds = seed_packets_cached();
    let (desc, tag, body) = &seeds[c.seed];
    let fields = one_octet_fields(*tag, body);
    let Some((pos, kind, path)) = fields.get(c.field) else {
        return Outcome::trivial("no-such-field");
    };
    let mut o = Outcome::ok("faithful");
    let mut accepted = 0u64;
    for v in 0..=255u8 {
        let mut b = body.clone();
        b[*pos] = v;
        // a swept variant may be semantically non-canonical in ways the reference does not judge
        // (a boolean subpacket holding 3, material of another algorithm ...): demand that the
        // enumeration octets and the length are reproduced, unless the variant has opaque parts
        // or the sweep is over a subpacket type / body
        let mode = match codec::decode_packet(*tag, &b) {
            // a user attribute sub-record is opaque data for which only the image header is
            // looked into: whatever its version / format octet says, it is reproduced exactly
            Ok(d) if d.canonical && *tag == 17 && path.starts_with("image-header/") => Identity::Full,
            Ok(d) if d.canonical && !d.fields.iter().any(|f| f.kind == Kind::Opaque) && !matches!(kind, Kind::SubpacketType | Kind::SubpacketBody | Kind::UserAttrSubType) => Identity::Enumerations,
            _ => Identity::None,
        };
        let before = o.viol.len();
        let mut tmp = Outcome::ok("faithful");
        fidelity(*tag, &b, &format!("{desc}: {kind:?} field `{path}` (octet {pos}) = {v:#04x}"), mode, &mut tmp);
        if tmp.class != "rejected" {
            accepted += 1;
        }
        for viol in tmp.viol {
            // fold the value into a class so that a known finding can be exact but not per-value
            o.push(viol.sig, viol.what);
        }
        if o.viol.len() > before + 2 || o.viol.len() > 6 {
            break;
        }
    }
    o.evals = 256;
    if o.viol.is_empty() {
        o.class = format!("faithful ({} of 256 values accepted)", if accepted == 256 { "all" } else if accepted == 0 { "none" } else { "some" });
    }
    o
}

#[derive(Clone, Debug, Hash, Serialize, Deserialize)]
pub struct SeedCase {
    /// index into the seed packet list
    pub seed: usize,
}

/// The seed packets as they are: canonical ones are reproduced octet for octet.
fn run_seed_identity(c: &SeedCase) -> Outcome {
    let seeds = seed_packets_cached();
    let (desc, tag, body) = &seeds[c.seed];
    let mode = match codec::decode_packet(*tag, body) {
        // (trust packets are documented to be dropped: contents are local-only)
        Ok(d) if d.canonical && *tag != 12 => Identity::Full,
        _ => Identity::None,
    };
    let mut o = Outcome::ok(if mode == Identity::Full { "canonical:reproduced" } else { "not-canonical:truthful" });
    fidelity(*tag, body, &format!("{desc} (unmodified)"), mode, &mut o);
    o
}

fn seed_packets_cached() -> &'static Vec<(String, u8, Vec<u8>)> {
    static S: std::sync::OnceLock<Vec<(String, u8, Vec<u8>)>> = std::sync::OnceLock::new();
    S.get_or_init(seed_packets)
}

#[derive(Clone, Debug, Hash, Serialize, Deserialize)]
pub struct ShapeCase {
    /// 0 hashed-area size classes; 1 subpacket length encodings; 2 MPI bit counts / leading zeros;
    /// 3 packet length classes (literal / user id / padding); 4 unhashed-area API mutations;
    /// 5 composite objects
    pub family: u8,
    pub n: usize,
}

fn run_shape(c: &ShapeCase) -> Outcome {
    let mut o = Outcome::ok("faithful");
    match c.family {
        0 => {
            // signatures whose hashed area has a given size (through notation data)
            for key in [KeyKind::Ed25519V4, KeyKind::Ed25519V6] {
                match sigs::make(&Spec { kind: SigKind::DocBinary, key, hash: 0, object: b"x".to_vec(), notation_len: c.n, critical_time: false }) {
                    Ok(a) => fidelity(2, &a.sig_body, &format!("{key:?} signature with notation of {} octets", c.n), Identity::Full, &mut o),
                    Err(e) => {
                        if c.n < 65_000 {
                            o.push("C05:shape:signature-with-large-hashed-area-refused", format!("{} octets: {e}", c.n));
                        }
                    }
                }
            }
        }
        1 => {
            // the same subpacket in 1-, 2- and 5-octet length form (non-minimal forms are legal
            // input; the encoding must be preserved)
            let cert = common::cert(KeyKind::Ed25519V4, 1);
            let body_len = c.n; // notation value length
            let mut nbody = vec![0x80, 0, 0, 0, 0, 1, (body_len >> 8) as u8, body_len as u8, b'n'];
            nbody.extend(std::iter::repeat(b'v').take(body_len));
            for form in 0..3u8 {
                let n = nbody.len() + 1;
                let mut sp = Vec::new();
                match form {
                    0 if n < 192 => sp.push(n as u8),
                    1 if (192..16320).contains(&n) => {
                        let m = n - 192;
                        sp.push((m >> 8) as u8 + 192);
                        sp.push(m as u8);
                    }
                    2 => {
                        sp.push(255);
                        sp.extend_from_slice(&(n as u32).to_be_bytes());
                    }
                    _ => continue,
                }
                sp.push(20);
                sp.extend_from_slice(&nbody);
                let mut hashed = sigs::raw_subpacket(2, false, &common::NOW.to_be_bytes());
                hashed.extend_from_slice(&sp);
                match sigs::craft_signature(&cert.primary_key, 4, 0, pgp::crypto::hash::HashAlgorithm::Sha256, &hashed, &[], &[], &[b"x"]) {
                    Ok(b) => {
                        // identity is demanded: the library documents that it keeps the encoding
                        fidelity(2, &b, &format!("subpacket of {n} octets in length form {form}"), Identity::Full, &mut o);
                        // and the signature must still verify (the hashed area is reproduced)
                        if let Ok(s) = sigs::sig_from_body(&b) {
                            if s.verify(cert.primary_key.public_key(), &b"x"[..]).is_err() {
                                o.push("C05:shape:non-minimal-subpacket-length-breaks-verification", format!("form {form} len {n}"));
                            }
                        }
                    }
                    Err(e) => o.push("C05:shape:craft-error", e),
                }
            }
        }
        7 => {
            // a user attribute sub-record whose length is written in 1-, 2- and 5-octet form: the
            // encoding is kept (certifications hash the wire form)
            let n = c.n.max(1);
            let mut sub = vec![9u8];
            sub.extend(std::iter::repeat(0x5A).take(n - 1));
            for form in 0..3u8 {
                let mut b = Vec::new();
                match form {
                    0 if n < 192 => b.push(n as u8),
                    1 if (192..16320).contains(&n) => {
                        let m = n - 192;
                        b.push((m >> 8) as u8 + 192);
                        b.push(m as u8);
                    }
                    2 => {
                        b.push(255);
                        b.extend_from_slice(&(n as u32).to_be_bytes());
                    }
                    _ => continue,
                }
                b.extend_from_slice(&sub);
                fidelity(17, &b, &format!("user attribute sub-record of {n} octets in length form {form}"), Identity::Full, &mut o);
            }
            // and a JPEG image attribute in the 5-octet form
            let mut img = vec![1u8, 0x10, 0x00, 0x01, 0x01];
            img.extend_from_slice(&[0u8; 12]);
            img.extend(std::iter::repeat(0xD8).take(n));
            let mut b = vec![255u8];
            b.extend_from_slice(&(img.len() as u32).to_be_bytes());
            b.extend_from_slice(&img);
            fidelity(17, &b, &format!("image attribute of {} octets with a 5-octet sub-record length", img.len()), Identity::Full, &mut o);
        }
        2 => {
            // RSA public key with MPI bit counts that do not match (leading zero octets / bits):
            // accepted inputs must keep their value
            let cert = common::cert(KeyKind::Rsa2048V4, 1);
            let body = cert.primary_key.public_key().to_bytes().unwrap();
            let d = codec::decode_packet(6, &body).unwrap();
            let bits_f = d.fields.iter().find(|f| f.kind == Kind::MpiBits).unwrap();
            let body_f = d.fields.iter().find(|f| f.kind == Kind::MpiBody).unwrap();
            let mut variants: Vec<(String, Vec<u8>)> = Vec::new();
            // leading zero octet inserted, bit count adjusted / not adjusted
            for (adj, name) in [(8u16, "leading-zero-octet,bit-count+8"), (0, "leading-zero-octet,bit-count-unchanged")] {
                let mut b = body.clone();
                b.insert(body_f.start, 0);
                let bits = u16::from_be_bytes([body[bits_f.start], body[bits_f.start + 1]]) + adj;
                b[bits_f.start..bits_f.end].copy_from_slice(&bits.to_be_bytes());
                variants.push((name.into(), b));
            }
            for delta in [1i32, -1, 7] {
                let mut b = body.clone();
                let bits = (u16::from_be_bytes([body[bits_f.start], body[bits_f.start + 1]]) as i32 + delta) as u16;
                // stay within the same octet length
                if (bits as usize).div_ceil(8) == body_f.end - body_f.start {
                    b[bits_f.start..bits_f.end].copy_from_slice(&bits.to_be_bytes());
                    variants.push((format!("bit-count{delta:+}"), b));
                }
            }
            for (name, b) in variants {
                let framed = frame_min(6, &b);
                if let Ok(p) = parse_framed(&framed) {
                    // value preserved: same canonical serialisation as the original key
                    let b1 = packet_body(&p).unwrap_or_default();
                    if b1 != body {
                        o.push("C05:shape:non-canonical-mpi-changes-value", format!("{name}: re-serialised key differs from the canonical key"));
                    }
                    fidelity(6, &b, &format!("RSA key, {name}"), Identity::None, &mut o);
                }
            }
        }
        3 => {
            for (tag, mk) in [
                (13u8, (|n: usize| vec![b'u'; n]) as fn(usize) -> Vec<u8>),
                (21, |n: usize| vec![7u8; n]),
                (11, |n: usize| {
                    let mut b = vec![b'b', 0, 0, 0, 0, 0];
                    b.extend(std::iter::repeat(0x42).take(n.saturating_sub(6)));
                    b
                }),
            ] {
                let body = mk(c.n);
                fidelity(tag, &body, &format!("tag {tag} body of {} octets", body.len()), Identity::Full, &mut o);
                // read from partial-body framing: what is announced is what is then written
                if tag == 11 && body.len() >= 512 {
                    let first = 9u8;
                    if let Some(framed) = frame::frame_partial(tag, &body, &[first], frame::LenForm::New5) {
                        if let Ok(p) = parse_framed(&framed) {
                            if let Ok(full) = p.to_bytes() {
                                if p.write_len() != full.len() {
                                    o.push("C05:shape:write_len_with_header-differs", format!("tag {tag} len {} read from partial-body framing: announces {} octets, writes {}", c.n, p.write_len(), full.len()));
                                }
                                match frame::deframe(&full) {
                                    Ok(fr) if fr.len() == 1 && fr[0].body == body => {}
                                    other => o.push("C05:shape:partial-framing-rewritten-untruthfully", format!("tag {tag} len {}: {:?}", c.n, other.map(|f| f.len()))),
                                }
                            }
                        }
                    }
                }
                // legacy framing: format preserved
                if tag < 16 {
                    for form in [frame::LenForm::Old1, frame::LenForm::Old2, frame::LenForm::Old4, frame::LenForm::New5] {
                        if let Some(framed) = frame::frame(tag, &body, form) {
                            if let Ok(p) = parse_framed(&framed) {
                                if let Ok(full) = p.to_bytes() {
                                    if p.write_len() != full.len() {
                                        o.push("C05:shape:write_len_with_header-differs", format!("tag {tag} len {} form {form:?}: {} vs {}", c.n, p.write_len(), full.len()));
                                    }
                                    match frame::deframe(&full) {
                                        Ok(fr) if fr.len() == 1 && fr[0].body == body && fr[0].new_format == matches!(form, frame::LenForm::New5) => {}
                                        other => o.push("C05:shape:legacy-framing-not-preserved-or-untruthful", format!("tag {tag} len {} form {form:?}: {:?}", c.n, other.map(|f| f.len()))),
                                    }
                                }
                            }
                        }
                    }
                }
            }
        }
        4 => {
            // API mutation of the unhashed area: lengths stay truthful after every operation
            let a = sigs::make(&Spec { kind: SigKind::DocBinary, key: KeyKind::Ed25519V4, hash: 0, object: b"x".to_vec(), notation_len: 0, critical_time: false }).expect("sig");
            let mk = |n: usize| Subpacket::regular(SubpacketData::Notation(pgp::packet::Notation { readable: true, name: "n@e".into(), value: vec![b'z'; n].into() })).expect("sp");
            let steps: Vec<(&str, Box<dyn Fn(&mut pgp::packet::Signature) -> pgp::errors::Result<()>>)> = vec![
                ("push small", Box::new(move |s| s.unhashed_subpacket_push(mk(3)))),
                ("insert sized", Box::new(move |s| s.unhashed_subpacket_insert(0, mk(c.n)))),
                ("push time", Box::new(|s| s.unhashed_subpacket_push(Subpacket::regular(SubpacketData::SignatureCreationTime(Timestamp::from_secs(5)))?))),
                ("sort", Box::new(|s| {
                    s.unhashed_subpackets_sort_by(|a, b| a.write_len().cmp(&b.write_len()));
                    Ok(())
                })),
                ("remove first", Box::new(|s| s.unhashed_subpacket_remove(0).map(|_| ()))),
            ];
            // the signature as made by the API, and as read from every framing of its packet
            // (the header it was read with is part of the value and must follow the mutations)
            // (bool: the framing is the minimal one of its format, so the header is canonical too)
            let mut starts: Vec<(String, bool, pgp::packet::Signature)> = vec![("API-made".into(), true, a.sig.clone())];
            for form in [frame::LenForm::New1, frame::LenForm::New2, frame::LenForm::New5, frame::LenForm::Old1, frame::LenForm::Old2, frame::LenForm::Old4] {
                if let Some(framed) = frame::frame(2, &a.sig_body, form) {
                    if let Ok(pgp::packet::Packet::Signature(s0)) = parse_framed(&framed) {
                        starts.push((format!("read from {form:?} framing"), matches!(form, frame::LenForm::New1 | frame::LenForm::Old1), s0));
                    }
                }
            }
            for (origin, minimal, start) in starts {
            let mut sig = start;
            for (name, f) in &steps {
                let name = format!("{name} [{origin}]");
                let name = &name[..];
                if let Err(e) = f(&mut sig) {
                    o.push("C05:mutate:operation-failed", format!("{name} (n={}): {e}", c.n));
                    break;
                }
                let body = sig.to_bytes().unwrap_or_default();
                let mut full = Vec::new();
                let _ = sig.to_writer_with_header(&mut full);
                if sig.write_len() != body.len() || sig.write_len_with_header() != full.len() {
                    o.push(
                        "C05:mutate:announced-length-stale-after-mutation",
                        format!("after `{name}` (n={}): write_len {} / {} bytes, with header {} / {}", c.n, sig.write_len(), body.len(), sig.write_len_with_header(), full.len()),
                    );
                }
                match frame::deframe(&full) {
                    Ok(fr) if fr.len() == 1 && fr[0].body == body => {}
                    _ => o.push("C05:mutate:header-does-not-announce-the-body", format!("after `{name}` (n={})", c.n)),
                }
                // what is written parses back to an equal value (packet header included)
                match parse_framed(&full) {
                    Ok(pgp::packet::Packet::Signature(s3)) => {
                        // a header read in a wider form than needed is written in the minimal
                        // form of its format: the values then agree in everything but the header
                        if !minimal && s3.to_bytes().ok() == sig.to_bytes().ok() {
                        } else if s3 != sig {
                            o.push(
                                "C05:mutate:reimport-differs",
                                format!("after `{name}` (n={}): parse(serialize(sig)) != sig; header in memory {:?}, header after re-import {:?}", c.n, pgp::packet::PacketTrait::packet_header(&sig), pgp::packet::PacketTrait::packet_header(&s3)),
                            );
                        }
                    }
                    _ => o.push("C05:mutate:mutated-signature-does-not-parse", format!("after `{name}` (framed)")),
                }
                match sigs::sig_from_body(&body) {
                    Ok(s2) => {
                        if s2.to_bytes().ok().as_deref() != Some(&body[..]) {
                            o.push("C05:mutate:mutated-signature-not-a-fixpoint", format!("after `{name}`"));
                        }
                        // the hashed part is untouched: still verifies
                        if s2.verify(a.cert.primary_key.public_key(), &b"x"[..]).is_err() {
                            o.push("C05:mutate:unhashed-mutation-breaks-signature", format!("after `{name}`"));
                        }
                    }
                    Err(e) => o.push("C05:mutate:mutated-signature-does-not-parse", format!("after `{name}`: {e}")),
                }
            }
            }
            // secret key packets read from every framing, locked and unlocked in place (the body
            // grows / shrinks across the 192 and 256 length classes for the larger keys)
            if c.n == 0 {
                for kind in [KeyKind::EcdsaP521V4, KeyKind::EcdsaP384V4, KeyKind::Ed25519V4, KeyKind::Ed25519LegacyV4, KeyKind::Rsa2048V4] {
                    let cert = common::cert(kind, 1);
                    let body = cert.primary_key.to_bytes().unwrap_or_default();
                    for form in [frame::LenForm::New1, frame::LenForm::New2, frame::LenForm::New5, frame::LenForm::Old1, frame::LenForm::Old2, frame::LenForm::Old4] {
                        let Some(framed) = frame::frame(5, &body, form) else { continue };
                        let Ok(pgp::packet::Packet::SecretKey(k0)) = parse_framed(&framed) else { continue };
                        let minimal = matches!(form, frame::LenForm::New1 | frame::LenForm::Old1) || (form == frame::LenForm::New2 && body.len() >= 192) || (form == frame::LenForm::Old2 && body.len() >= 256);
                        let pw = pgp::types::Password::from("framing");
                        let mut k = k0.clone();
                        for step in ["set_password", "remove_password"] {
                            let r = if step == "set_password" { k.set_password_with_s2k(&pw, crate::props::c08::lib_params_pub(&crate::props::c08::PARAM_SET[0], 3)) } else { k.remove_password(&pw) };
                            let what = format!("{kind:?} secret key read from {form:?} framing, after {step}");
                            if let Err(e) = r {
                                o.push("C05:mutate:operation-failed", format!("{what}: {e}"));
                                break;
                            }
                            let kb = k.to_bytes().unwrap_or_default();
                            let mut full = Vec::new();
                            let _ = k.to_writer_with_header(&mut full);
                            if k.write_len() != kb.len() || k.write_len_with_header() != full.len() {
                                o.push("C05:mutate:announced-length-stale-after-mutation", format!("{what}: write_len {} / {} bytes, with header {} / {}", k.write_len(), kb.len(), k.write_len_with_header(), full.len()));
                            }
                            match frame::deframe(&full) {
                                Ok(fr) if fr.len() == 1 && fr[0].body == kb => {}
                                _ => o.push("C05:mutate:header-does-not-announce-the-body", what.clone()),
                            }
                            match parse_framed(&full) {
                                Ok(pgp::packet::Packet::SecretKey(k3)) => {
                                    if !minimal && k3.to_bytes().ok() == k.to_bytes().ok() {
                                    } else if k3 != k {
                                        o.push("C05:mutate:reimport-differs", format!("{what}: parse(serialize(key)) != key; header in memory {:?}, header after re-import {:?}", pgp::packet::PacketTrait::packet_header(&k), pgp::packet::PacketTrait::packet_header(&k3)));
                                    }
                                }
                                _ => o.push("C05:mutate:mutated-key-does-not-parse", what.clone()),
                            }
                        }
                        if minimal && k != k0 {
                            o.push("C05:mutate:lock-then-unlock-is-not-the-original", format!("{kind:?} secret key read from {form:?} framing"));
                        }
                    }
                }
            }
        }
        6 => {
            // signatures built through the API with one subpacket of each kind (and each key flag,
            // each feature flag, lists of several sizes): lengths truthful, round trip exact, verifies
            use pgp::crypto::{aead::AeadAlgorithm, hash::HashAlgorithm, sym::SymmetricKeyAlgorithm};
            use pgp::packet::{Features, KeyFlags, Notation, RevocationCode, SignatureConfig, SignatureType};
            use pgp::types::{CompressionAlgorithm, KeyDetails, Password};
            let cert = common::cert(if c.n % 2 == 0 { KeyKind::Ed25519V4 } else { KeyKind::Ed25519V6 }, 1);
            let key = &cert.primary_key;
            let mut datas: Vec<(String, SubpacketData)> = Vec::new();
            type Setter = fn(&mut KeyFlags, bool);
            let setters: [(&str, Setter); 9] = [
                ("certify", KeyFlags::set_certify),
                ("encrypt_comms", KeyFlags::set_encrypt_comms),
                ("encrypt_storage", KeyFlags::set_encrypt_storage),
                ("sign", KeyFlags::set_sign),
                ("shared", KeyFlags::set_shared),
                ("authentication", KeyFlags::set_authentication),
                ("group", KeyFlags::set_group),
                ("adsk", KeyFlags::set_adsk),
                ("timestamping", KeyFlags::set_timestamping),
            ];
            for (name, set) in setters {
                let mut f = KeyFlags::default();
                set(&mut f, true);
                datas.push((format!("KeyFlags({name})"), SubpacketData::KeyFlags(f)));
            }
            let mut all = KeyFlags::default();
            for (_, set) in setters {
                set(&mut all, true);
            }
            datas.push(("KeyFlags(all)".into(), SubpacketData::KeyFlags(all)));
            datas.push(("KeyFlags(none)".into(), SubpacketData::KeyFlags(KeyFlags::default())));
            for (v1, v2) in [(false, false), (true, false), (false, true), (true, true)] {
                let mut f = Features::default();
                f.set_seipd_v1(v1);
                f.set_seipd_v2(v2);
                datas.push((format!("Features({v1},{v2})"), SubpacketData::Features(f)));
            }
            for n in [0usize, 1, 5] {
                datas.push((format!("PreferredSymmetricAlgorithms[{n}]"), SubpacketData::PreferredSymmetricAlgorithms(std::iter::repeat(SymmetricKeyAlgorithm::AES256).take(n).collect())));
                datas.push((format!("PreferredHashAlgorithms[{n}]"), SubpacketData::PreferredHashAlgorithms(std::iter::repeat(HashAlgorithm::Sha512).take(n).collect())));
                datas.push((format!("PreferredCompressionAlgorithms[{n}]"), SubpacketData::PreferredCompressionAlgorithms(std::iter::repeat(CompressionAlgorithm::ZLIB).take(n).collect())));
                datas.push((format!("PreferredAeadAlgorithms[{n}]"), SubpacketData::PreferredAeadAlgorithms(std::iter::repeat((SymmetricKeyAlgorithm::AES128, AeadAlgorithm::Ocb)).take(n.min(4)).collect())));
                datas.push((format!("KeyServerPreferences[{n}]"), SubpacketData::KeyServerPreferences(std::iter::repeat(0x80u8).take(n.min(4)).collect())));
            }
            datas.push(("SignatureExpirationTime".into(), SubpacketData::SignatureExpirationTime(pgp::types::Duration::from_secs(3600))));
            datas.push(("KeyExpirationTime".into(), SubpacketData::KeyExpirationTime(pgp::types::Duration::from_secs(86400))));
            datas.push(("IssuerKeyId".into(), SubpacketData::IssuerKeyId(key.legacy_key_id())));
            datas.push(("IssuerFingerprint".into(), SubpacketData::IssuerFingerprint(key.fingerprint())));
            datas.push(("IntendedRecipientFingerprint".into(), SubpacketData::IntendedRecipientFingerprint(key.fingerprint())));
            datas.push(("RevocationReason".into(), SubpacketData::RevocationReason(RevocationCode::KeyRetired, "retired".into())));
            datas.push(("IsPrimary".into(), SubpacketData::IsPrimary(true)));
            datas.push(("Revocable".into(), SubpacketData::Revocable(false)));
            datas.push(("ExportableCertification".into(), SubpacketData::ExportableCertification(false)));
            datas.push(("PreferredKeyServer".into(), SubpacketData::PreferredKeyServer("hkps://keys.example.org".into())));
            datas.push(("PolicyURI".into(), SubpacketData::PolicyURI("https://example.org/policy".into())));
            datas.push(("SignersUserID".into(), SubpacketData::SignersUserID("a@example.org".into())));
            datas.push(("TrustSignature".into(), SubpacketData::TrustSignature(1, 120)));
            datas.push(("RegularExpression".into(), SubpacketData::RegularExpression("<[^>]+[@.]example\\.org>$".into())));
            datas.push(("Notation".into(), SubpacketData::Notation(Notation { readable: true, name: "n@example.org".into(), value: "v".into() })));
            // the same text-carrying subpackets with characters of 2, 3 and 4 UTF-8 octets (a length
            // in characters is not a length in octets)
            datas.push(("RevocationReason(non-ASCII)".into(), SubpacketData::RevocationReason(RevocationCode::KeyRetired, "zur\u{fc}ckgezogen \u{2014} \u{1f511}".into())));
            datas.push(("PreferredKeyServer(non-ASCII)".into(), SubpacketData::PreferredKeyServer("hkps://schl\u{fc}ssel.example.org/\u{9375}".into())));
            datas.push(("PolicyURI(non-ASCII)".into(), SubpacketData::PolicyURI("https://example.org/r\u{e8}gles/\u{1f4dc}".into())));
            datas.push(("SignersUserID(non-ASCII)".into(), SubpacketData::SignersUserID("Zo\u{eb} <zo\u{eb}@example.org>".into())));
            datas.push(("RegularExpression(non-ASCII)".into(), SubpacketData::RegularExpression("<[^>]+[@.]b\u{fc}cher\\.example>$".into())));
            datas.push(("Notation(non-ASCII)".into(), SubpacketData::Notation(Notation { readable: true, name: "n\u{e4}me@example.org".into(), value: "w\u{e9}rt \u{2713}".into() })));
            datas.push(("Experimental".into(), SubpacketData::Experimental(101, vec![1, 2, 3].into())));
            datas.push(("Other".into(), SubpacketData::Other(60, vec![9; 200].into())));
            let (name, data) = &datas[c.n / 2 % datas.len()];
            for critical in [false, true] {
                let sp = if critical { Subpacket::critical(data.clone()) } else { Subpacket::regular(data.clone()) };
                let sp = match sp {
                    Ok(s) => s,
                    Err(e) => {
                        o.push("C05:api-subpacket:constructor-error", format!("{name}: {e}"));
                        continue;
                    }
                };
                let mk = || -> pgp::errors::Result<pgp::packet::Signature> {
                    let mut cfg = SignatureConfig::from_key(crate::engine::rng(3), key, SignatureType::Binary)?;
                    cfg.hashed_subpackets = vec![
                        Subpacket::regular(SubpacketData::SignatureCreationTime(Timestamp::from_secs(common::NOW)))?,
                        sp.clone(),
                    ];
                    cfg.sign(key, &Password::empty(), &b"x"[..])
                };
                match mk() {
                    Ok(sig) => {
                        let body = sig.to_bytes().unwrap_or_default();
                        if sig.write_len() != body.len() {
                            o.push("C05:api-subpacket:write_len-differs", format!("{name} critical={critical}: {} vs {}", sig.write_len(), body.len()));
                        }
                        if sp.write_len() != sp.to_bytes().map(|b| b.len()).unwrap_or(0) {
                            o.push("C05:api-subpacket:subpacket-write_len-differs", format!("{name} critical={critical}"));
                        }
                        fidelity(2, &body, &format!("API-built signature with {name} (critical={critical})"), Identity::Full, &mut o);
                        match sigs::sig_from_body(&body) {
                            Ok(s2) => {
                                // an unknown critical subpacket legitimately fails verification
                                let expect_ok = !(critical && matches!(data, SubpacketData::Other(..)));
                                let v = s2.verify(key.public_key(), &b"x"[..]);
                                if v.is_err() && expect_ok {
                                    o.push("C05:api-subpacket:reparsed-signature-does-not-verify", format!("{name} critical={critical}: {:?}", v.err().map(|e| e.to_string())));
                                }
                            }
                            Err(e) => o.push("C05:api-subpacket:own-signature-does-not-parse", format!("{name} critical={critical}: {e}")),
                        }
                    }
                    Err(e) => {
                        // refusing to sign an unknown critical subpacket is by design
                        if !(critical && matches!(data, SubpacketData::Other(..))) {
                            o.push("C05:api-subpacket:sign-error", format!("{name}: {e}"));
                        }
                    }
                }
            }
        }
        _ => {
            // composite objects: write_len = bytes written; re-import equal
            let kinds = [KeyKind::Ed25519V4, KeyKind::Ed25519V6, KeyKind::EcdsaP256V4, KeyKind::Rsa2048V4, KeyKind::Ed25519LegacyV4, KeyKind::Ed448V6];
            let kind = kinds[c.n % kinds.len()];
            let cert = common::cert(kind, 1 + (c.n / kinds.len()) as u64);
            let chk = |name: &str, wl: usize, bytes: pgp::errors::Result<Vec<u8>>, o: &mut Outcome| match bytes {
                Ok(b) => {
                    if wl != b.len() {
                        o.push(format!("C05:composite:{name}:write_len-differs"), format!("{kind:?}: announced {wl}, wrote {}", b.len()));
                    }
                    if frame::deframe(&b).is_err() {
                        o.push(format!("C05:composite:{name}:stream-not-deframable"), format!("{kind:?}"));
                    }
                }
                Err(e) => o.push(format!("C05:composite:{name}:serialisation-error"), format!("{kind:?}: {e}")),
            };
            chk("SignedSecretKey", cert.write_len(), cert.to_bytes(), &mut o);
            // the same certificate with its packets locked through the API (body sizes change,
            // crossing the 192-octet length class for the larger keys)
            if kind != KeyKind::Rsa2048V4 {
                let mut locked = (*cert).clone();
                let pw = pgp::types::Password::from("composite");
                let p = crate::props::c08::PARAM_SET[if kind.is_v6() { 5 } else { c.n % 4 }];
                let r1 = locked.primary_key.set_password_with_s2k(&pw, crate::props::c08::lib_params_pub(&p, 1));
                let r2 = locked.secret_subkeys[0].key.set_password_with_s2k(&pw, crate::props::c08::lib_params_pub(&p, 2));
                if r1.is_ok() && r2.is_ok() {
                    chk("SignedSecretKey(locked)", locked.write_len(), locked.to_bytes(), &mut o);
                    let mut v = Vec::new();
                    let _ = locked.primary_key.to_writer_with_header(&mut v);
                    if locked.primary_key.write_len_with_header() != v.len() {
                        o.push("C05:composite:SecretKey(locked):write_len_with_header-differs", format!("{kind:?}: {} vs {}", locked.primary_key.write_len_with_header(), v.len()));
                    }
                    if let Ok(b) = locked.to_bytes() {
                        match SignedSecretKey::from_bytes(&b[..]) {
                            Ok(k2) if k2 == locked => {}
                            Ok(_) => o.push("C05:composite:SignedSecretKey(locked):reimport-differs", format!("{kind:?}")),
                            Err(e) => o.push("C05:composite:SignedSecretKey(locked):reimport-fails", format!("{kind:?}: {e}")),
                        }
                    }
                    // ... and unlocked in place again, one packet at a time (the primary, then the
                    // subkey as well): lengths follow, the certificate is the original one again
                    let mut un = locked.clone();
                    for step in 0..2 {
                        let r = if step == 0 { un.primary_key.remove_password(&pw) } else { un.secret_subkeys[0].key.remove_password(&pw) };
                        if let Err(e) = r {
                            o.push("C05:composite:remove_password-fails", format!("{kind:?} step {step}: {e}"));
                            break;
                        }
                        let name = if step == 0 { "SignedSecretKey(primary unlocked in place)" } else { "SignedSecretKey(unlocked in place)" };
                        chk(name, un.write_len(), un.to_bytes(), &mut o);
                        let mut v = Vec::new();
                        let _ = un.secret_subkeys[0].key.to_writer_with_header(&mut v);
                        if un.secret_subkeys[0].key.write_len_with_header() != v.len() {
                            o.push("C05:composite:SecretSubkey(unlocked in place):write_len_with_header-differs", format!("{kind:?}"));
                        }
                        if let Ok(b) = un.to_bytes() {
                            match SignedSecretKey::from_bytes(&b[..]) {
                                Ok(k2) if k2 == un => {}
                                Ok(_) => o.push(format!("C05:composite:{name}:reimport-differs"), format!("{kind:?}")),
                                Err(e) => o.push(format!("C05:composite:{name}:reimport-fails"), format!("{kind:?}: {e}")),
                            }
                        }
                    }
                    if un != *cert {
                        o.push("C05:composite:lock-then-unlock-is-not-the-original", format!("{kind:?}"));
                    }
                }
            }
            let public = cert.to_public_key();
            chk("SignedPublicKey", public.write_len(), public.to_bytes(), &mut o);
            chk("SignedKeyDetails", cert.details.write_len(), cert.details.to_bytes(), &mut o);
            for s in &cert.secret_subkeys {
                chk("SignedSecretSubKey", s.write_len(), s.to_bytes(), &mut o);
            }
            for s in &public.public_subkeys {
                chk("SignedPublicSubKey", s.write_len(), s.to_bytes(), &mut o);
            }
            for u in &cert.details.users {
                chk("SignedUser", u.write_len(), u.to_bytes(), &mut o);
            }
            if let Ok(b) = public.to_bytes() {
                match SignedPublicKey::from_bytes(&b[..]) {
                    Ok(p2) if p2 == public => {}
                    Ok(_) => o.push("C05:composite:SignedPublicKey:reimport-differs", format!("{kind:?}")),
                    Err(e) => o.push("C05:composite:SignedPublicKey:reimport-fails", format!("{kind:?}: {e}")),
                }
            }
            if let Ok(b) = cert.to_bytes() {
                match SignedSecretKey::from_bytes(&b[..]) {
                    Ok(k2) if k2 == *cert => {}
                    Ok(_) => o.push("C05:composite:SignedSecretKey:reimport-differs", format!("{kind:?}")),
                    Err(e) => o.push("C05:composite:SignedSecretKey:reimport-fails", format!("{kind:?}: {e}")),
                }
            }
            // packets built through the API from text: the header announces the octets written
            for text in ["ascii <a@example.org>", "Zo\u{eb} M\u{fc}ller <zoe@example.org>", "\u{9375} \u{1f511}", ""] {
                if let Ok(uid) = pgp::packet::UserId::from_str(Default::default(), text) {
                    let mut full = Vec::new();
                    let _ = uid.to_writer_with_header(&mut full);
                    let announced = match pgp::packet::PacketTrait::packet_header(&uid).packet_length() {
                        pgp::types::PacketLength::Fixed(n) => n as usize,
                        _ => usize::MAX,
                    };
                    if announced != text.len() || uid.write_len() != text.len() || uid.write_len_with_header() != full.len() {
                        o.push("C05:composite:UserId::from_str:announced-length-differs", format!("user id {text:?} ({} octets): header announces {announced}, write_len {}, {} octets written with header", text.len(), uid.write_len(), full.len()));
                    }
                    match parse_framed(&full) {
                        Ok(pgp::packet::Packet::UserId(u2)) if u2 == uid => {}
                        _ => o.push("C05:composite:UserId::from_str:reimport-differs", format!("user id {text:?}")),
                    }
                }
            }
            if let Ok(ds) = DetachedSignature::sign_binary_data(crate::engine::rng(1), &cert.primary_key, &pgp::types::Password::empty(), pgp::crypto::hash::HashAlgorithm::Sha512, &b"x"[..]) {
                chk("DetachedSignature", ds.write_len(), ds.to_bytes(), &mut o);
                if let Ok(b) = ds.to_bytes() {
                    if DetachedSignature::from_bytes(&b[..]).ok().as_ref() != Some(&ds) {
                        o.push("C05:composite:DetachedSignature:reimport-differs", format!("{kind:?}"));
                    }
                }
            }
        }
    }
    o
}

pub fn check(ctx: &Ctx) {
    // the former thorough bounds take seconds: they are the quick tier now; `deep` = thorough
    let quick = false;
    #[allow(unused_variables)]
    let deep = ctx.tier == Tier::Thorough;
    for k in [KeyKind::Ed25519V4, KeyKind::Ed25519V6, KeyKind::EcdsaP256V4, KeyKind::EcdsaP256V6, KeyKind::Ed25519LegacyV4, KeyKind::Rsa2048V4, KeyKind::Ed448V6] {
        common::cert(k, 1);
        common::cert(k, 3);
    }
    let mut files = Vec::new();
    walk(Path::new("/repo/tests"), &mut files);
    let fc: Vec<FixtureCase> = files
        .iter()
        .filter(|f| fixture_stream(f).is_some())
        .map(|f| FixtureCase { file: f.to_string_lossy().to_string() })
        .collect();
    if fc.len() < 100 {
        eprintln!("MACHINERY: fixture corpus under /repo/tests not found");
        std::process::exit(2);
    }
    ctx.run_space(
        "fixture_corpus",
        true,
        "every packet of every OpenPGP file under /repo/tests (keys, signatures, messages of GnuPG, PGP, OpenPGP.js, Go, Sequoia ...): if the library accepts it, write_len = bytes written (with and without header), the written header announces the body (reference deframer), serialisation is a fixpoint, and - when the independent decoder classifies the body as canonically encoded - the body is reproduced octet for octet; evaluations = packets",
        fc.into_par_iter(),
        run_fixture,
    );

    let seeds = seed_packets_cached();
    ctx.run_space(
        "seed_packets_as_they_are",
        true,
        "every seed packet unmodified (library-made keys, signatures and message packets, model-made packets, key packets assembled for ECDSA / ECDH on every named curve): the fidelity obligations, and octet-for-octet reproduction when the independent decoder classifies the body as canonical",
        (0..seeds.len()).map(|seed| SeedCase { seed }).collect::<Vec<_>>().into_par_iter(),
        run_seed_identity,
    );
    let mut sc = Vec::new();
    for (i, (_, tag, body)) in seeds.iter().enumerate() {
        let n = one_octet_fields(*tag, body).len();
        for f in 0..n {
            sc.push(SweepCase { seed: i, field: f });
        }
    }
    ctx.run_space(
        "one_octet_field_sweeps",
        true,
        &format!("{} seed packets (public/secret keys of 6 algorithms incl. locked forms with usage 253/254, signatures of several types and both versions, PKESK v3/v6 per algorithm, SKESK v4/v5/v6, one-pass v3/v6, literal, compressed, SEIPD v1/v2, SED, MDC, marker, trust, padding, user id, user attributes, GnuPG AEAD): EVERY one-octet field found by the reference field map (versions, algorithm ids, signature type, S2K usage/type/count, subpacket type incl. critical bit, short subpacket bodies, literal mode, chunk size, image-header version/format ...) set to each of the 256 values; every accepted variant must satisfy the same fidelity obligations (canonical ones octet for octet); evaluations = variants", seeds.len()),
        sc.into_par_iter(),
        run_sweep,
    );

    let mut hc = Vec::new();
    for n in [0usize, 1, 100, 150, 151, 152, 190, 191, 192, 8300, 8340, 8383, 8384, 16000, 16319, 16320, 60_000, 65_400] {
        hc.push(ShapeCase { family: 0, n });
        if n < 65_000 {
            hc.push(ShapeCase { family: 1, n });
        }
        hc.push(ShapeCase { family: 4, n: n.min(60_000) });
        hc.push(ShapeCase { family: 7, n: n.min(60_000) });
    }
    hc.push(ShapeCase { family: 2, n: 0 });
    for n in [0usize, 1, 6, 7, 191, 192, 193, 255, 256, 8383, 8384, 8385, 65535, 65536, 70_000] {
        hc.push(ShapeCase { family: 3, n });
    }
    for n in 0..if quick { 12 } else if deep { 1000 } else { 200 } {
        hc.push(ShapeCase { family: 5, n });
    }
    for n in 0..120 {
        hc.push(ShapeCase { family: 6, n });
    }
    ctx.run_space(
        "length_classes_mutations_composites",
        true,
        "hashed areas sized by notation data across the subpacket / area / packet length-class boundaries (0..65400); the same signature subpacket and the same user attribute sub-record in 1-, 2- and 5-octet length form (encoding must be preserved, signature must still verify); RSA keys with non-canonical MPI bit counts / leading zero octets (value preserved); user id / padding / literal bodies on both sides of 192, 256, 8384, 65536 in new and legacy framing; API mutation sequences on the unhashed area (push, insert, sort, remove) with length queries after every step; signatures built through the API with one subpacket of every constructible kind (every key flag incl. second-octet flags, feature flags, preference lists of 0/1/5 entries, ...), regular and critical; composite objects (SignedSecretKey plain and locked through the API, SignedPublicKey, details, subkeys, users, DetachedSignature): write_len = bytes, re-import equal",
        hc.into_par_iter(),
        run_shape,
    );
}

pub fn replay(space: &str, case: &Value) -> Option<Outcome> {
    match space {
        "fixture_corpus" => replay_as(case, run_fixture),
        "one_octet_field_sweeps" => replay_as(case, run_sweep),
        "seed_packets_as_they_are" => replay_as(case, run_seed_identity),
        "length_classes_mutations_composites" => replay_as(case, run_shape),
        _ => None,
    }
}
