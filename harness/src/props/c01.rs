//! C01 — message round trip: what the builder emits, the reader returns unchanged.

use rayon::prelude::*;
use serde::{Deserialize, Serialize};
use serde_json::Value;

use crate::{
    common::{
        self,
        msg::{self, Enc, EskSpec, MsgCfg, Pull},
        KeyKind,
    },
    engine::{replay_as, Ctx, Outcome, Tier},
};

#[derive(Clone, Debug, Hash, Serialize, Deserialize)]
pub struct Case {
    pub cfg: MsgCfg,
    pub n: usize,
    /// also read with 1-byte reads / BufRead / 8191-byte reads and with the raw session key
    pub extra_pulls: bool,
}

fn cfg_sig(cfg: &MsgCfg) -> String {
    let enc = match cfg.enc {
        Enc::None => "plain".to_string(),
        Enc::V1(_) => "seipdv1".to_string(),
        Enc::V2(..) => "seipdv2".to_string(),
    };
    format!(
        "src{}:comp{}:{}:signers{}:{}:{}",
        cfg.source,
        cfg.compression,
        enc,
        cfg.signers.len(),
        if cfg.text { "text" } else { "bin" },
        if cfg.armor { "armor" } else { "raw" }
    )
}

pub fn run(c: &Case) -> Outcome {
    let cfg = &c.cfg;
    let payload = msg::payload(c.n, cfg.text);
    let seed = 42 + c.n as u64;
    let bytes = match msg::build_vec(cfg, &payload, seed) {
        Ok(b) => b,
        Err(e) => {
            return Outcome::bad(
                "C01:build-error",
                format!("{} n={}: {e}", cfg_sig(cfg), c.n),
            )
        }
    };
    let mut o = Outcome::ok("roundtrip-ok");
    let mut pulls = vec![(Pull::ToEnd, false)];
    if c.extra_pulls {
        pulls.extend([
            (Pull::Fixed(1), false),
            (Pull::BufRead, false),
            (Pull::Fixed(8191), true),
        ]);
    }
    for (how, use_sk) in pulls {
        if use_sk && cfg.enc == Enc::None {
            continue;
        }
        o.evals += 1;
        match msg::read_back(cfg, &bytes, seed, how, use_sk) {
            Ok(rb) => {
                if rb.data != payload {
                    let at = rb
                        .data
                        .iter()
                        .zip(payload.iter())
                        .position(|(a, b)| a != b)
                        .unwrap_or(rb.data.len().min(payload.len()));
                    o.push(
                        "C01:payload-differs",
                        format!(
                            "{} n={} pull {:?}: read {} bytes, first difference at {at}",
                            cfg_sig(cfg),
                            c.n,
                            how,
                            rb.data.len()
                        ),
                    );
                }
                // The builder emits an empty file name and a zero date whatever name the caller
                // passed (its `_name` parameter is unused): that is what must come back.
                if !rb.file_name.is_empty() || rb.created != 0 || rb.is_binary_mode == cfg.text {
                    o.push(
                        "C01:literal-metadata-differs",
                        format!(
                            "{} n={}: file name {:?} created {} binary={}",
                            cfg_sig(cfg),
                            c.n,
                            String::from_utf8_lossy(&rb.file_name),
                            rb.created,
                            rb.is_binary_mode
                        ),
                    );
                }
                if rb.sig_valid.len() != cfg.signers.len() || rb.sig_valid.iter().any(|v| !v) {
                    o.push(
                        "C01:signature-does-not-verify",
                        format!("{} n={} pull {:?}: {:?}", cfg_sig(cfg), c.n, how, rb.sig_valid),
                    );
                }
            }
            Err(e) => o.push(
                format!("C01:reader-rejects:{}", e.split(':').next().unwrap_or("")),
                format!("{} n={} pull {:?}: {e}", cfg_sig(cfg), c.n, how),
            ),
        }
    }
    // no other key verifies
    if !cfg.signers.is_empty() && c.extra_pulls {
        let decoy = common::cert(KeyKind::Ed25519V4, 77);
        let mut cfg2 = cfg.clone();
        cfg2.signers = vec![];
        let parsed = if cfg.armor {
            pgp::composed::Message::from_armor(&bytes[..]).map(|x| x.0)
        } else {
            pgp::composed::Message::from_bytes(&bytes[..])
        };
        if let Ok(m) = parsed {
            if let Ok(mut m) = msg::open(cfg, m, seed, false) {
                if msg::pull(&mut m, Pull::ToEnd).is_ok() {
                    for i in 0..cfg.signers.len() {
                        if m
                            .verify_nested_explicit(i, &decoy.primary_key.public_key())
                            .is_ok()
                        {
                            o.push(
                                "C01:verifies-under-unrelated-key",
                                format!("{} n={}", cfg_sig(cfg), c.n),
                            );
                        }
                    }
                }
            }
        }
    }
    o
}

fn default_esk(enc: Enc) -> Vec<EskSpec> {
    match enc {
        Enc::None => vec![],
        _ => vec![EskSpec::Password(0)],
    }
}

pub fn spine_cfgs() -> Vec<MsgCfg> {
    let mut v = Vec::new();
    for source in [0u8, 1] {
        for compression in 0..4u8 {
            for enc in [Enc::None, Enc::V1(7), Enc::V2(7, 2, 0)] {
                for signers in 0..3usize {
                    for text in [false, true] {
                        for armor in [false, true] {
                            let sk: Vec<(KeyKind, u8)> = [
                                (KeyKind::Ed25519V4, 0u8),
                                (KeyKind::Ed25519V6, 1u8),
                            ][..signers]
                                .to_vec();
                            v.push(MsgCfg {
                                source,
                                compression,
                                enc,
                                esks: default_esk(enc),
                                signers: sk,
                                text,
                                armor,
                                checksum: true,
                                partial_exp: 9,
                            });
                        }
                    }
                }
            }
        }
    }
    v
}

pub fn check(ctx: &Ctx) {
    let quick = ctx.tier == Tier::Quick;
    for k in [
        KeyKind::Ed25519V4,
        KeyKind::Ed25519V6,
        KeyKind::EcdsaP256V4,
        KeyKind::EcdsaP256V6,
        KeyKind::EcdsaP384V4,
        KeyKind::EcdsaP521V4,
        KeyKind::EcdsaK256V4,
        KeyKind::Ed25519LegacyV4,
        KeyKind::Ed448V6,
        KeyKind::Rsa2048V4,
    ] {
        common::cert(k, 1);
        common::cert(k, 3);
    }
    common::cert(KeyKind::Ed25519V4, 77);

    // (a) spine product x every length
    let spine = spine_cfgs();
    let nmax = if quick { 1400 } else { 17_000 };
    let lens: Vec<usize> = (0..=nmax).collect();
    ctx.run_space(
        "spine_x_every_length",
        true,
        &format!("full product source{{bytes,reader}} x compression{{none,zip,zlib,bzip2}} x {{plain, SEIPDv1-AES128, SEIPDv2-AES128-OCB-64B}} x signers{{0,1,2}} x {{binary, utf8+text-sig}} x armor{{off,on}} = {} configurations (partial chunk 512) x every payload length 0..={nmax}; build -> parse -> decrypt(password) -> decompress -> read_to_end -> verify; every 64th length also with 1-byte reads, BufRead, 8191-byte reads + raw session key and an unrelated key", spine.len()),
        spine.par_iter().flat_map(|cfg| {
            lens.par_iter().map(move |&n| Case {
                cfg: cfg.clone(),
                n,
                extra_pulls: n % 64 == 0 || n < 4,
            })
        }),
        run,
    );

    // (b) boundary windows of larger structures, against several partial sizes
    let mut cases = Vec::new();
    let win = if quick { 20usize } else { 48 };
    let mut windows: Vec<usize> = Vec::new();
    for b in [4096usize, 8192, 16384, 65536] {
        for k in 1..=3usize {
            if quick && b * k > 70_000 {
                continue;
            }
            let c = b * k;
            windows.extend(c.saturating_sub(win)..=c + win);
        }
    }
    // the packet-length encoding boundaries (1/2-octet at 192, 2/5-octet at 8384) minus every
    // header / prefix / tag size that sits between the payload and a packet body
    windows.extend(100..=200);
    windows.extend(8384 - 70..=8384 + 8);
    windows.sort_unstable();
    windows.dedup();
    for partial_exp in [9u8, 12, 13, 16, 20] {
        for enc in [Enc::None, Enc::V1(9), Enc::V2(9, 1, 6), Enc::V2(7, 3, 7)] {
            for (source, compression, signers) in [(1u8, 0u8, 0usize), (0, 0, 0), (0, 0, 1), (1, 1, 1)] {
                let cfg = MsgCfg {
                    source,
                    compression,
                    enc,
                    esks: default_esk(enc),
                    signers: [(KeyKind::Ed25519V4, 0u8)][..signers].to_vec(),
                    text: false,
                    armor: false,
                    checksum: true,
                    partial_exp,
                };
                for &n in &windows {
                    cases.push(Case {
                        cfg: cfg.clone(),
                        n,
                        extra_pulls: false,
                    });
                }
            }
        }
    }
    ctx.run_space(
        "boundary_windows",
        true,
        &format!("every length within +-{win} of k*B for B in {{4096,8192,16384,65536}}, k in 1..3 x partial chunk 2^{{9,12,13,16,20}} x {{plain, SEIPDv1-AES256, SEIPDv2-AES256-EAX-4KiB, SEIPDv2-AES128-GCM-8KiB}} x {{reader, bytes, bytes+1 signer, reader+zip+1 signer}}; plus every length in 100..200 and 8314..8392 (packet length-encoding boundaries 192 and 8384 minus header sizes)"),
        cases.into_par_iter(),
        run,
    );

    // (c) sweeps of the other dimensions against a base configuration
    let mut sweep = Vec::new();
    let base = |enc: Enc| MsgCfg {
        source: 1,
        compression: 0,
        enc,
        esks: default_esk(enc),
        signers: vec![],
        text: false,
        armor: false,
        checksum: true,
        partial_exp: 9,
    };
    // all CFB ciphers
    for sym in [1u8, 2, 3, 4, 7, 8, 9, 10, 11, 12, 13] {
        for n in [0usize, 1, 7, 8, 9, 15, 16, 17, 490, 511, 512, 513, 8191, 8192, 8193] {
            sweep.push(Case {
                cfg: base(Enc::V1(sym)),
                n,
                extra_pulls: true,
            });
        }
    }
    // all cipher x AEAD x chunk size
    for sym in [7u8, 8, 9] {
        for aead in [1u8, 2, 3] {
            for chunk in 0..=16u8 {
                let c = 1usize << (chunk + 6);
                if quick && chunk > 10 {
                    continue;
                }
                let ns: Vec<usize> = if chunk <= 10 {
                    vec![0, 1, c - 1, c, c + 1, 2 * c - 1, 2 * c, 2 * c + 1, 3 * c]
                } else {
                    vec![0, c - 1, c, c + 1]
                };
                for n in ns {
                    sweep.push(Case {
                        cfg: base(Enc::V2(sym, aead, chunk)),
                        n,
                        extra_pulls: chunk <= 6,
                    });
                }
            }
        }
    }
    // partial chunk sizes
    for exp in 9u8..=if quick { 16 } else { 20 } {
        let c = 1usize << exp;
        for enc in [Enc::None, Enc::V1(7), Enc::V2(7, 2, 0)] {
            for comp in [0u8, 2] {
                let mut cfg = base(enc);
                cfg.partial_exp = exp;
                cfg.compression = comp;
                for k in 1..=2usize {
                    for d in [-40i64, -22, -8, -7, -6, -2, -1, 0, 1, 2, 6, 7, 8, 22, 36, 40] {
                        let n = (c * k) as i64 + d;
                        if n >= 0 {
                            sweep.push(Case {
                                cfg: cfg.clone(),
                                n: n as usize,
                                extra_pulls: false,
                            });
                        }
                    }
                }
            }
        }
    }
    // signer key x hash
    for (key, hashes) in [
        (KeyKind::Ed25519V4, vec![0u8, 1, 2, 3, 4]),
        (KeyKind::Ed25519V6, vec![0, 1, 2, 3, 4]),
        (KeyKind::Ed25519LegacyV4, vec![0, 1]),
        (KeyKind::Ed448V6, vec![1, 4]),
        (KeyKind::EcdsaP256V4, vec![0, 1, 3]),
        (KeyKind::EcdsaP256V6, vec![0, 1]),
        (KeyKind::EcdsaP384V4, vec![2, 1]),
        (KeyKind::EcdsaP521V4, vec![1]),
        (KeyKind::EcdsaK256V4, vec![0]),
        (KeyKind::Rsa2048V4, vec![0, 1]),
    ] {
        for h in hashes {
            for text in [false, true] {
                for enc in [Enc::None, Enc::V2(7, 2, 0)] {
                    for n in [0usize, 1, 100, 600] {
                        let mut cfg = base(enc);
                        cfg.signers = vec![(key, h)];
                        cfg.text = text;
                        sweep.push(Case {
                            cfg,
                            n,
                            extra_pulls: n == 100,
                        });
                    }
                }
            }
        }
    }
    // three signers, mixed versions
    for n in [0usize, 5, 700] {
        let mut cfg = base(Enc::V1(7));
        cfg.signers = vec![
            (KeyKind::Ed25519V4, 0),
            (KeyKind::Ed25519V6, 1),
            (KeyKind::EcdsaP256V4, 0),
        ];
        sweep.push(Case {
            cfg,
            n,
            extra_pulls: true,
        });
    }
    // ESK sets
    let v4_keys = [
        KeyKind::Ed25519V4,
        KeyKind::Ed25519LegacyV4,
        KeyKind::EcdsaP256V4,
        KeyKind::EcdsaP384V4,
        KeyKind::EcdsaP521V4,
        KeyKind::Rsa2048V4,
    ];
    let v6_keys = [KeyKind::Ed25519V6, KeyKind::Ed448V6, KeyKind::EcdsaP256V6];
    for n in [0usize, 33, 600] {
        for (enc, keys) in [
            (Enc::V1(9), &v4_keys[..]),
            (Enc::V2(9, 2, 0), &v6_keys[..]),
            (Enc::V2(9, 2, 0), &v4_keys[..1]),
        ] {
            for &k in keys {
                for anon in [false, true] {
                    let mut cfg = base(enc);
                    cfg.esks = vec![EskSpec::Key(k, anon)];
                    sweep.push(Case {
                        cfg,
                        n,
                        extra_pulls: false,
                    });
                }
            }
            for s2k in 0..3u8 {
                for count in 1..=3usize {
                    let mut cfg = base(enc);
                    cfg.esks = (0..count).map(|_| EskSpec::Password(s2k)).collect();
                    sweep.push(Case {
                        cfg,
                        n,
                        extra_pulls: false,
                    });
                }
            }
        }
    }
    // armor checksum off, file source
    for n in [0usize, 1, 47, 48, 49, 511, 512, 513, 2000] {
        for enc in [Enc::None, Enc::V1(7), Enc::V2(7, 2, 0)] {
            for source in [0u8, 1, 2] {
                for checksum in [true, false] {
                    let mut cfg = base(enc);
                    cfg.source = source;
                    cfg.armor = true;
                    cfg.checksum = checksum;
                    sweep.push(Case {
                        cfg: cfg.clone(),
                        n,
                        extra_pulls: false,
                    });
                    cfg.armor = false;
                    cfg.signers = vec![(KeyKind::Ed25519V4, 0)];
                    sweep.push(Case {
                        cfg,
                        n,
                        extra_pulls: false,
                    });
                }
            }
        }
    }
    ctx.run_space(
        "dimension_sweeps",
        true,
        "each remaining builder dimension swept completely against a base configuration: 11 CFB ciphers; 3 ciphers x 3 AEAD modes x chunk-size octets (quick <= 64 KiB, thorough all 17) with lengths around 0..3 chunks; partial chunk sizes 2^9..2^16 (thorough 2^20) with lengths k*chunk + header-size offsets; 10 signer key kinds x hashes x binary/text; 3 mixed-version signers; ESK sets (each public-key algorithm addressed/anonymous, 1..3 passwords x 3 salted S2K kinds, v3/v4 and v6 forms); from_file source; armor with and without checksum",
        sweep.into_par_iter(),
        run,
    );
    ctx.assume("payload content is a fixed pseudo-random pattern (binary) or CRLF text over a 5-word alphabet (utf8 mode); only the length is quantified");
    ctx.assume("the full configuration product (~10^9) is not enumerated: spine product complete, other dimensions one at a time");
}

pub fn replay(space: &str, case: &Value) -> Option<Outcome> {
    match space {
        "spine_x_every_length" | "boundary_windows" | "dimension_sweeps" => replay_as(case, run),
        _ => None,
    }
}
