//! C01 — message round trip: what the builder emits, the reader returns unchanged.

use rayon::prelude::*;
use serde::{Deserialize, Serialize};
use serde_json::Value;

use crate::{
    common::{
        self,
        msg::{self, Enc, EskSpec, MsgCfg, Pull},
        KeyKind,
    },
    engine::{replay_as, Ctx, Outcome, Tier},
};

#[derive(Clone, Debug, Hash, Serialize, Deserialize)]
pub struct Case {
    pub cfg: MsgCfg,
    pub n: usize,
    /// also read with 1-byte reads / BufRead / 8191-byte reads and with the raw session key
    pub extra_pulls: bool,
    /// read SEIPDv1 with `Seipdv1ReadMode::Streaming` (through `decrypt_the_ring`)
    #[serde(default)]
    pub v1_streaming: bool,
}

/// `to_file` / `to_armored_file` sequences onto one path.
#[derive(Clone, Debug, Hash, Serialize, Deserialize)]
pub struct FileCase {
    pub cfg: MsgCfg,
    /// payload lengths written one after the other onto the same path
    pub lens: Vec<usize>,
}

fn run_file(c: &FileCase) -> Outcome {
    let dir = std::env::temp_dir().join(format!("rpgp-mc-c01-{}-{:?}", std::process::id(), std::thread::current().id()));
    if std::fs::create_dir_all(&dir).is_err() {
        return Outcome::trivial("no scratch directory");
    }
    let path = dir.join("out.pgp");
    let _ = std::fs::remove_file(&path);
    let mut o = Outcome::ok("file-equals-writer-output");
    for (step, &n) in c.lens.iter().enumerate() {
        let payload = msg::payload(n, c.cfg.text);
        let seed = 42 + n as u64;
        let what = format!("{} to_file sequence {:?}, step {step} (n={n})", cfg_sig(&c.cfg), c.lens);
        o.evals += 1;
        if let Err(e) = msg::build_file(&c.cfg, &payload, &path, seed) {
            o.push("C01:file-sink:build-error", format!("{what}: {e}"));
            break;
        }
        let on_disk = std::fs::read(&path).unwrap_or_default();
        // the same builder, same rng stream, into a writer
        match msg::build_vec(&c.cfg, &payload, seed) {
            Ok(want) => {
                if on_disk != want {
                    o.push(
                        "C01:file-sink:file-differs-from-writer-output",
                        format!("{what}: file holds {} octets, to_writer produces {}{}", on_disk.len(), want.len(), if on_disk.starts_with(&want) { " (the file continues with older content)" } else { "" }),
                    );
                }
            }
            Err(e) => o.push("C01:build-error", format!("{what}: {e}")),
        }
        match msg::read_back(&c.cfg, &on_disk, seed, Pull::ToEnd, false) {
            Ok(rb) if rb.data == payload => {}
            Ok(rb) => o.push("C01:file-sink:payload-differs", format!("{what}: read {} octets", rb.data.len())),
            Err(e) => o.push("C01:file-sink:reader-rejects", format!("{what}: {e}")),
        }
    }
    let _ = std::fs::remove_file(&path);
    let _ = std::fs::remove_dir(&dir);
    o
}

fn cfg_sig(cfg: &MsgCfg) -> String {
    let enc = match cfg.enc {
        Enc::None => "plain".to_string(),
        Enc::V1(_) => "seipdv1".to_string(),
        Enc::V2(..) => "seipdv2".to_string(),
    };
    format!(
        "src{}:comp{}:{}:signers{}:{}:{}",
        cfg.source,
        cfg.compression,
        enc,
        cfg.signers.len(),
        if cfg.text { "text" } else { "bin" },
        if cfg.armor { "armor" } else { "raw" }
    )
}

pub fn run(c: &Case) -> Outcome {
    let cfg = &c.cfg;
    let payload = msg::payload(c.n, cfg.text);
    let seed = 42 + c.n as u64;
    let bytes = match msg::build_vec(cfg, &payload, seed) {
        Ok(b) => b,
        Err(e) => {
            return Outcome::bad(
                "C01:build-error",
                format!("{} n={}: {e}", cfg_sig(cfg), c.n),
            )
        }
    };
    let mut o = Outcome::ok("roundtrip-ok");
    let mut pulls = vec![(Pull::ToEnd, false)];
    if c.extra_pulls {
        pulls.extend([
            (Pull::Fixed(1), false),
            (Pull::Convenience, false),
            (Pull::BufRead, false),
            (Pull::Fixed(8191), true),
        ]);
    }
    for (how, use_sk) in pulls {
        if use_sk && cfg.enc == Enc::None {
            continue;
        }
        o.evals += 1;
        match msg::read_back_mode(cfg, &bytes, seed, how, use_sk, c.v1_streaming) {
            Ok(rb) => {
                if rb.data != payload {
                    let at = rb
                        .data
                        .iter()
                        .zip(payload.iter())
                        .position(|(a, b)| a != b)
                        .unwrap_or(rb.data.len().min(payload.len()));
                    o.push(
                        "C01:payload-differs",
                        format!(
                            "{} n={} pull {:?}: read {} bytes, first difference at {at}",
                            cfg_sig(cfg),
                            c.n,
                            how,
                            rb.data.len()
                        ),
                    );
                }
                // The builder emits an empty file name and a zero date whatever name the caller
                // passed (its `_name` parameter is unused): that is what must come back.
                if !rb.file_name.is_empty() || rb.created != 0 || rb.is_binary_mode == cfg.text {
                    o.push(
                        "C01:literal-metadata-differs",
                        format!(
                            "{} n={}: file name {:?} created {} binary={}",
                            cfg_sig(cfg),
                            c.n,
                            String::from_utf8_lossy(&rb.file_name),
                            rb.created,
                            rb.is_binary_mode
                        ),
                    );
                }
                // what was asked for is what was made: text-mode signatures when sign_text was
                // requested, binary ones otherwise
                let want_type = if cfg.text { 0x01u8 } else { 0x00 };
                if rb.sig_types.iter().any(|t| *t != want_type) {
                    o.push(
                        "C01:signature-type-differs-from-request",
                        format!("{} n={}: signature types {:?}, requested {want_type:#04x}", cfg_sig(cfg), c.n, rb.sig_types),
                    );
                }
                if rb.sig_valid.len() != cfg.signers.len() || rb.sig_valid.iter().any(|v| !v) {
                    o.push(
                        "C01:signature-does-not-verify",
                        format!("{} n={} pull {:?}: {:?}", cfg_sig(cfg), c.n, how, rb.sig_valid),
                    );
                }
            }
            Err(e) => o.push(
                format!("C01:reader-rejects:{}", e.split(':').next().unwrap_or("")),
                format!("{} n={} pull {:?}: {e}", cfg_sig(cfg), c.n, how),
            ),
        }
    }
    // every further recipient opens the message with its secret alone
    for idx in 1..cfg.esks.len() {
        // several SKESK v4 packets: one password may make another packet decrypt to a plausible
        // key (no integrity); that defect is recorded under C18 and is not re-reported here
        if matches!(cfg.enc, Enc::V1(_)) && cfg.esks.iter().filter(|e| matches!(e, EskSpec::Password(_))).count() > 1 {
            break;
        }
        o.evals += 1;
        let parsed = if cfg.armor {
            pgp::composed::Message::from_armor(&bytes[..]).map(|x| x.0)
        } else {
            pgp::composed::Message::from_bytes(&bytes[..])
        };
        let r = parsed.and_then(|m| msg::open_recipient(cfg, m, idx)).map_err(|e| e.to_string()).and_then(|mut m| msg::pull(&mut m, Pull::ToEnd).map_err(|e| e.to_string()));
        match r {
            Ok(data) if data == payload => {}
            Ok(data) => o.push("C01:payload-differs", format!("{} n={} opened by recipient {idx} of {:?}: read {} bytes", cfg_sig(cfg), c.n, cfg.esks, data.len())),
            Err(e) => o.push(
                format!("C01:reader-rejects:{}", e.split(':').next().unwrap_or("")),
                format!("{} n={} opened by recipient {idx} of {:?}: {e}", cfg_sig(cfg), c.n, cfg.esks),
            ),
        }
    }
    // no other key verifies
    if !cfg.signers.is_empty() && c.extra_pulls {
        let decoy = common::cert(KeyKind::Ed25519V4, 77);
        let mut cfg2 = cfg.clone();
        cfg2.signers = vec![];
        let parsed = if cfg.armor {
            pgp::composed::Message::from_armor(&bytes[..]).map(|x| x.0)
        } else {
            pgp::composed::Message::from_bytes(&bytes[..])
        };
        if let Ok(m) = parsed {
            if let Ok(mut m) = msg::open(cfg, m, seed, false) {
                if msg::pull(&mut m, Pull::ToEnd).is_ok() {
                    for i in 0..cfg.signers.len() {
                        if m
                            .verify_nested_explicit(i, &decoy.primary_key.public_key())
                            .is_ok()
                        {
                            o.push(
                                "C01:verifies-under-unrelated-key",
                                format!("{} n={}", cfg_sig(cfg), c.n),
                            );
                        }
                    }
                }
            }
        }
    }
    o
}

fn default_esk(enc: Enc) -> Vec<EskSpec> {
    match enc {
        Enc::None => vec![],
        _ => vec![EskSpec::Password(0)],
    }
}

pub fn spine_cfgs() -> Vec<MsgCfg> {
    let mut v = Vec::new();
    for source in [0u8, 1] {
        for compression in 0..4u8 {
            for enc in [Enc::None, Enc::V1(7), Enc::V2(7, 2, 0)] {
                for signers in 0..3usize {
                    for text in [false, true] {
                        for armor in [false, true] {
                            let sk: Vec<(KeyKind, u8)> = [
                                (KeyKind::Ed25519V4, 0u8),
                                (KeyKind::Ed25519V6, 1u8),
                            ][..signers]
                                .to_vec();
                            v.push(MsgCfg {
                                source,
                                compression,
                                enc,
                                esks: default_esk(enc),
                                signers: sk,
                                text,
                                armor,
                                checksum: true,
                                partial_exp: 9,
                            });
                        }
                    }
                }
            }
        }
    }
    v
}

/// 0..8 signers x AEAD chunk sizes 64 / 128 / 256 x known-length / streamed source x lengths.
pub fn many_signer_cfgs() -> Vec<(MsgCfg, usize)> {
    let pools: [[(KeyKind, u8); 8]; 2] = [
        [(KeyKind::Ed25519V4, 0), (KeyKind::EcdsaP256V4, 0), (KeyKind::Ed25519LegacyV4, 0), (KeyKind::EcdsaK256V4, 0), (KeyKind::EcdsaP384V4, 2), (KeyKind::EcdsaP521V4, 1), (KeyKind::Ed25519V6, 0), (KeyKind::Ed448V6, 1)],
        [(KeyKind::Ed25519V6, 1), (KeyKind::EcdsaP256V6, 0), (KeyKind::Ed448V6, 1), (KeyKind::Ed25519V4, 1), (KeyKind::EcdsaP256V4, 3), (KeyKind::EcdsaP384V4, 1), (KeyKind::EcdsaK256V4, 0), (KeyKind::Ed25519LegacyV4, 0)],
    ];
    let mut v = Vec::new();
    for pool in &pools {
        for count in 0..=8usize {
            for chunk in 0..=2u8 {
                for source in [0u8, 1] {
                    for n in [0usize, 13, 200, 9000] {
                        v.push((
                            MsgCfg {
                                source,
                                compression: 0,
                                enc: Enc::V2(7, 1 + (count as u8 + chunk) % 3, chunk),
                                esks: vec![EskSpec::Password(0)],
                                signers: pool[..count].to_vec(),
                                text: false,
                                armor: false,
                                checksum: true,
                                partial_exp: if source == 0 { 0 } else { 9 },
                            },
                            n,
                        ));
                    }
                }
            }
        }
    }
    v
}

pub fn check(ctx: &Ctx) {
    let quick = ctx.tier == Tier::Quick;
    for k in [
        KeyKind::Ed25519V4,
        KeyKind::Ed25519V6,
        KeyKind::EcdsaP256V4,
        KeyKind::EcdsaP256V6,
        KeyKind::EcdsaP384V4,
        KeyKind::EcdsaP521V4,
        KeyKind::EcdsaK256V4,
        KeyKind::Ed25519LegacyV4,
        KeyKind::Ed448V6,
        KeyKind::Rsa2048V4,
    ] {
        common::cert(k, 1);
        common::cert(k, 3);
    }
    common::cert(KeyKind::Ed25519V4, 77);

    // (a) spine product x every length
    let spine = spine_cfgs();
    let nmax = if quick { 1400 } else { 17_000 };
    let lens: Vec<usize> = (0..=nmax).collect();
    ctx.run_space(
        "spine_x_every_length",
        true,
        &format!("full product source{{bytes,reader}} x compression{{none,zip,zlib,bzip2}} x {{plain, SEIPDv1-AES128, SEIPDv2-AES128-OCB-64B}} x signers{{0,1,2}} x {{binary, utf8+text-sig}} x armor{{off,on}} = {} configurations (partial chunk 512) x every payload length 0..={nmax}; build -> parse -> decrypt(password) -> decompress -> read_to_end -> verify; every 64th length also with 1-byte reads, as_data_vec, BufRead, 8191-byte reads + raw session key and an unrelated key", spine.len()),
        spine.par_iter().flat_map(|cfg| {
            lens.par_iter().map(move |&n| Case {
                cfg: cfg.clone(),
                n,
                extra_pulls: n % 64 == 0 || n < 4,
                v1_streaming: false,
            })
        }),
        run,
    );

    // (b) boundary windows of larger structures, against several partial sizes
    let mut cases = Vec::new();
    let win = if quick { 20usize } else { 48 };
    let mut windows: Vec<usize> = Vec::new();
    for b in [4096usize, 8192, 16384, 65536] {
        for k in 1..=3usize {
            if quick && b * k > 70_000 {
                continue;
            }
            let c = b * k;
            windows.extend(c.saturating_sub(win)..=c + win);
        }
    }
    // the packet-length encoding boundaries (1/2-octet at 192, 2/5-octet at 8384) minus every
    // header / prefix / tag size that sits between the payload and a packet body
    windows.extend(100..=200);
    windows.extend(8384 - 70..=8384 + 8);
    windows.sort_unstable();
    windows.dedup();
    for partial_exp in [9u8, 12, 13, 16, 20] {
        for enc in [Enc::None, Enc::V1(9), Enc::V2(9, 1, 6), Enc::V2(7, 3, 7)] {
            for (source, compression, signers) in [(1u8, 0u8, 0usize), (0, 0, 0), (0, 0, 1), (1, 1, 1)] {
                let cfg = MsgCfg {
                    source,
                    compression,
                    enc,
                    esks: default_esk(enc),
                    signers: [(KeyKind::Ed25519V4, 0u8)][..signers].to_vec(),
                    text: false,
                    armor: false,
                    checksum: true,
                    partial_exp,
                };
                for &n in &windows {
                    cases.push(Case {
                        cfg: cfg.clone(),
                        n,
                        extra_pulls: false,
                        v1_streaming: false,
                    });
                }
            }
        }
    }
    ctx.run_space(
        "boundary_windows",
        true,
        &format!("every length within +-{win} of k*B for B in {{4096,8192,16384,65536}}, k in 1..3 x partial chunk 2^{{9,12,13,16,20}} x {{plain, SEIPDv1-AES256, SEIPDv2-AES256-EAX-4KiB, SEIPDv2-AES128-GCM-8KiB}} x {{reader, bytes, bytes+1 signer, reader+zip+1 signer}}; plus every length in 100..200 and 8314..8392 (packet length-encoding boundaries 192 and 8384 minus header sizes)"),
        cases.into_par_iter(),
        run,
    );

    // (c) sweeps of the other dimensions against a base configuration
    let mut sweep = Vec::new();
    let base = |enc: Enc| MsgCfg {
        source: 1,
        compression: 0,
        enc,
        esks: default_esk(enc),
        signers: vec![],
        text: false,
        armor: false,
        checksum: true,
        partial_exp: 9,
    };
    // all CFB ciphers
    for sym in [1u8, 2, 3, 4, 7, 8, 9, 10, 11, 12, 13] {
        for n in [0usize, 1, 7, 8, 9, 15, 16, 17, 490, 511, 512, 513, 8191, 8192, 8193] {
            sweep.push(Case {
                cfg: base(Enc::V1(sym)),
                n,
                extra_pulls: true,
                v1_streaming: false,
            });
        }
    }
    // all cipher x AEAD x chunk size
    for sym in [7u8, 8, 9] {
        for aead in [1u8, 2, 3] {
            for chunk in 0..=16u8 {
                let c = 1usize << (chunk + 6);
                if quick && chunk > 10 {
                    continue;
                }
                let ns: Vec<usize> = if chunk <= 10 {
                    vec![0, 1, c - 1, c, c + 1, 2 * c - 1, 2 * c, 2 * c + 1, 3 * c]
                } else {
                    vec![0, c - 1, c, c + 1]
                };
                for n in ns {
                    sweep.push(Case {
                        cfg: base(Enc::V2(sym, aead, chunk)),
                        n,
                        extra_pulls: chunk <= 6,
                        v1_streaming: false,
                    });
                }
            }
        }
    }
    // partial chunk sizes
    for exp in 9u8..=if quick { 16 } else { 20 } {
        let c = 1usize << exp;
        for enc in [Enc::None, Enc::V1(7), Enc::V2(7, 2, 0)] {
            for comp in [0u8, 2] {
                let mut cfg = base(enc);
                cfg.partial_exp = exp;
                cfg.compression = comp;
                for k in 1..=2usize {
                    for d in [-40i64, -22, -8, -7, -6, -2, -1, 0, 1, 2, 6, 7, 8, 22, 36, 40] {
                        let n = (c * k) as i64 + d;
                        if n >= 0 {
                            sweep.push(Case {
                                cfg: cfg.clone(),
                                n: n as usize,
                                extra_pulls: false,
                                v1_streaming: false,
                            });
                        }
                    }
                }
            }
        }
    }
    // signer key x hash
    for (key, hashes) in [
        (KeyKind::Ed25519V4, vec![0u8, 1, 2, 3, 4]),
        (KeyKind::Ed25519V6, vec![0, 1, 2, 3, 4]),
        (KeyKind::Ed25519LegacyV4, vec![0, 1]),
        (KeyKind::Ed448V6, vec![1, 4]),
        (KeyKind::EcdsaP256V4, vec![0, 1, 3]),
        (KeyKind::EcdsaP256V6, vec![0, 1]),
        (KeyKind::EcdsaP384V4, vec![2, 1]),
        (KeyKind::EcdsaP521V4, vec![1]),
        (KeyKind::EcdsaK256V4, vec![0]),
        (KeyKind::Rsa2048V4, vec![0, 1]),
    ] {
        for h in hashes {
            for text in [false, true] {
                for enc in [Enc::None, Enc::V2(7, 2, 0)] {
                  // known-length and streamed sources: the one-pass packets of the different key
                  // versions / hashes (15 .. 72 octets) push the literal header to different
                  // offsets within the first 64-octet AEAD chunks
                  for source in [1u8, 0] {
                    for n in [0usize, 1, 100, 186, 600, 1000] {
                        if source == 0 && matches!(n, 1 | 600) {
                            continue;
                        }
                        let mut cfg = base(enc);
                        cfg.source = source;
                        cfg.signers = vec![(key, h)];
                        cfg.text = text;
                        sweep.push(Case {
                            cfg,
                            n,
                            extra_pulls: n == 100,
                            v1_streaming: false,
                        });
                    }
                  }
                }
            }
        }
    }
    // pairs of signers of every version mix (the one-pass packets add up to other offsets)
    for (a, b) in [(KeyKind::Ed25519V6, KeyKind::Ed25519V6), (KeyKind::Ed25519V6, KeyKind::EcdsaP256V6), (KeyKind::Ed25519V4, KeyKind::Ed25519V6), (KeyKind::Ed25519V6, KeyKind::Ed25519V4), (KeyKind::EcdsaP256V4, KeyKind::Ed25519V4)] {
        for (ha, hb) in [(0u8, 0u8), (1, 0), (0, 1), (2, 0)] {
            for source in [0u8, 1] {
                for enc in [Enc::V2(7, 2, 0), Enc::V2(7, 2, 1)] {
                    for n in [0usize, 186, 300, 1000] {
                        if a == b && source == 1 {
                            continue;
                        }
                        let mut cfg = base(enc);
                        cfg.source = source;
                        // msg::build takes cert(kind, 1) for every signer: the same kind twice is the same key twice
                        cfg.signers = vec![(a, ha), (b, hb)];
                        sweep.push(Case { cfg, n, extra_pulls: false, v1_streaming: false });
                    }
                }
            }
        }
    }
    // three signers, mixed versions
    for n in [0usize, 5, 700] {
        let mut cfg = base(Enc::V1(7));
        cfg.signers = vec![
            (KeyKind::Ed25519V4, 0),
            (KeyKind::Ed25519V6, 1),
            (KeyKind::EcdsaP256V4, 0),
        ];
        sweep.push(Case {
            cfg,
            n,
            extra_pulls: true,
            v1_streaming: false,
        });
    }
    // ESK sets
    let v4_keys = [
        KeyKind::Ed25519V4,
        KeyKind::Ed25519LegacyV4,
        KeyKind::EcdsaP256V4,
        KeyKind::EcdsaP384V4,
        KeyKind::EcdsaP521V4,
        KeyKind::Rsa2048V4,
    ];
    let v6_keys = [KeyKind::Ed25519V6, KeyKind::Ed448V6, KeyKind::EcdsaP256V6];
    for n in [0usize, 33, 600] {
        for (enc, keys) in [
            (Enc::V1(9), &v4_keys[..]),
            (Enc::V2(9, 2, 0), &v6_keys[..]),
            (Enc::V2(9, 2, 0), &v4_keys[..1]),
        ] {
            for &k in keys {
                for anon in [false, true] {
                    let mut cfg = base(enc);
                    cfg.esks = vec![EskSpec::Key(k, anon)];
                    sweep.push(Case {
                        cfg,
                        n,
                        extra_pulls: false,
                        v1_streaming: false,
                    });
                }
            }
            for s2k in 0..3u8 {
                for count in 1..=3usize {
                    let mut cfg = base(enc);
                    cfg.esks = (0..count).map(|_| EskSpec::Password(s2k)).collect();
                    sweep.push(Case {
                        cfg,
                        n,
                        extra_pulls: false,
                        v1_streaming: false,
                    });
                }
            }
        }
    }
    // 0..8 signers in front of a known-length literal under the smallest AEAD chunks: the one-pass
    // packets push the literal header across every offset of a chunk
    for (cfg, n) in many_signer_cfgs() {
        sweep.push(Case { cfg, n, extra_pulls: false, v1_streaming: false });
    }
    // mixed recipient sets: every recipient opens the message alone
    for n in [0usize, 600] {
        for (enc, keys) in [(Enc::V1(9), &v4_keys[..]), (Enc::V2(9, 2, 0), &v6_keys[..])] {
            for sets in [
                vec![EskSpec::Key(keys[0], false), EskSpec::Password(0)],
                vec![EskSpec::Password(1), EskSpec::Key(keys[1], true)],
                vec![EskSpec::Key(keys[0], false), EskSpec::Key(keys[1], false), EskSpec::Key(keys[2], true)],
                vec![EskSpec::Key(keys[2], true), EskSpec::Password(2), EskSpec::Key(keys[0], false)],
            ] {
                let mut cfg = base(enc);
                cfg.esks = sets;
                sweep.push(Case { cfg, n, extra_pulls: false, v1_streaming: false });
            }
        }
    }
    // the builder options set BEFORE the transition to an encrypting builder (source + 10)
    for n in [0usize, 1, 100, 600, 5000] {
        for enc in [Enc::V1(7), Enc::V2(7, 2, 0), Enc::V2(9, 1, 6)] {
            for source in [10u8, 11] {
                for (compression, signers, text) in [(0u8, 1usize, false), (0, 1, true), (2, 1, true), (1, 0, false), (0, 2, true)] {
                    let mut cfg = base(enc);
                    cfg.source = source;
                    cfg.compression = compression;
                    cfg.text = text;
                    cfg.partial_exp = 10;
                    cfg.signers = [(KeyKind::Ed25519V4, 0u8), (KeyKind::Ed25519V6, 1)][..signers].to_vec();
                    sweep.push(Case { cfg, n, extra_pulls: n == 100, v1_streaming: false });
                }
            }
        }
    }
    // armor checksum off, file source
    for n in [0usize, 1, 47, 48, 49, 511, 512, 513, 2000] {
        for enc in [Enc::None, Enc::V1(7), Enc::V2(7, 2, 0)] {
            for source in [0u8, 1, 2] {
                for checksum in [true, false] {
                    let mut cfg = base(enc);
                    cfg.source = source;
                    cfg.armor = true;
                    cfg.checksum = checksum;
                    sweep.push(Case {
                        cfg: cfg.clone(),
                        n,
                        extra_pulls: false,
                        v1_streaming: false,
                    });
                    cfg.armor = false;
                    cfg.signers = vec![(KeyKind::Ed25519V4, 0)];
                    sweep.push(Case {
                        cfg,
                        n,
                        extra_pulls: false,
                        v1_streaming: false,
                    });
                }
            }
        }
    }
    ctx.run_space(
        "dimension_sweeps",
        true,
        "each remaining builder dimension swept completely against a base configuration: 11 CFB ciphers; 3 ciphers x 3 AEAD modes x chunk-size octets (quick <= 64 KiB, thorough all 17) with lengths around 0..3 chunks; partial chunk sizes 2^9..2^16 (thorough 2^20) with lengths k*chunk + header-size offsets; 10 signer key kinds x hashes x binary/text; 3 mixed-version signers; 0..8 signers x AEAD chunks of 64 / 128 / 256 octets x known-length and streamed sources; ESK sets (each public-key algorithm addressed/anonymous, 1..3 passwords x 3 salted S2K kinds, mixed key / password sets, v3/v4 and v6 forms; every recipient opens the message with its secret alone); from_file source; armor with and without checksum; every option set before instead of after the seipd_v1 / seipd_v2 transition (text mode, compression, partial size, signers - the signatures must have the requested type)",
        sweep.into_par_iter(),
        run,
    );
    // (d) SEIPDv1 read in streaming mode: every length, and every length around the points where
    // the decrypted stream ends exactly with a refill of the decryptor's 8 KiB buffer
    let mut sc = Vec::new();
    let mut slens: Vec<usize> = (0..=if quick { 600usize } else { 2500 }).collect();
    for k in 1..=if quick { 2usize } else { 4 } {
        // buffer 8192 minus 22 octets held back; minus literal header (8..11) and packet framing
        let c = 8170 * k;
        slens.extend(c.saturating_sub(if quick { 40 } else { 120 })..=c + 30);
    }
    for sym in if quick { vec![7u8, 3] } else { vec![7u8, 3, 9, 2, 10] } {
        for (compression, signers, esk_pw) in [(0u8, 0usize, true), (0, 1, false), (2, 0, true)] {
            for &n in &slens {
                if compression != 0 && n % 7 != 0 {
                    continue;
                }
                let enc = Enc::V1(sym);
                sc.push(Case {
                    cfg: MsgCfg {
                        source: 0,
                        compression,
                        enc,
                        esks: if esk_pw { default_esk(enc) } else { vec![EskSpec::Key(KeyKind::Ed25519V4, false)] },
                        signers: [(KeyKind::Ed25519V4, 0u8)][..signers].to_vec(),
                        text: false,
                        armor: false,
                        checksum: true,
                        partial_exp: 9,
                    },
                    n,
                    extra_pulls: n % 64 == 0,
                    v1_streaming: true,
                });
            }
        }
    }
    ctx.run_space(
        "seipdv1_streaming_reader",
        true,
        "SEIPDv1 messages read with Seipdv1ReadMode::Streaming through decrypt_the_ring (password, recipient key, raw session key): ciphers {AES-128, CAST5 (thorough + AES-256, 3DES, Twofish)} x {plain, 1 signer + PKESK, zlib} x every payload length 0..600 (2500) and every length within -40..+30 (-120..+30) of k*8170 (the decrypted stream ending exactly with a refill of the 8 KiB buffer), k = 1..2 (4)",
        sc.into_par_iter(),
        run,
    );

    // (e) the file sinks: sequences of writes onto one path
    let mut fc = Vec::new();
    for enc in [Enc::None, Enc::V1(7), Enc::V2(7, 2, 0)] {
        for armor in [false, true] {
            for signers in [0usize, 1] {
                let cfg = MsgCfg {
                    source: 0,
                    compression: 0,
                    enc,
                    esks: default_esk(enc),
                    signers: [(KeyKind::Ed25519V4, 0u8)][..signers].to_vec(),
                    text: false,
                    armor,
                    checksum: true,
                    partial_exp: 9,
                };
                let pool: &[usize] = if quick { &[0, 1, 600, 5000] } else { &[0, 1, 100, 600, 4999, 5000, 9000] };
                for &a in pool {
                    for &b in pool {
                        fc.push(FileCase { cfg: cfg.clone(), lens: vec![a, b] });
                    }
                }
                fc.push(FileCase { cfg: cfg.clone(), lens: vec![5000, 4999, 5001, 0, 3] });
            }
        }
    }
    ctx.run_space(
        "file_sink_sequences",
        true,
        "MessageBuilder::to_file / to_armored_file onto ONE path, all ordered pairs of payload lengths from {0,1,600,5000} (thorough {0,1,100,600,4999,5000,9000}) and one 5-step sequence, x {plain, SEIPDv1, SEIPDv2} x armor on/off x signers 0/1: after every write the file holds exactly what to_writer produces for the same builder and rng stream, and reads back to the payload",
        fc.into_par_iter(),
        run_file,
    );
    ctx.assume("payload content is a fixed pseudo-random pattern (binary) or CRLF text over a 5-word alphabet (utf8 mode); only the length is quantified");
    ctx.assume("the full configuration product (~10^9) is not enumerated: spine product complete, other dimensions one at a time");
}

pub fn replay(space: &str, case: &Value) -> Option<Outcome> {
    if space == "file_sink_sequences" {
        return replay_as(case, run_file);
    }
    match space {
        "spine_x_every_length" | "boundary_windows" | "dimension_sweeps" | "seipdv1_streaming_reader" => replay_as(case, run),
        _ => None,
    }
}
