//! C03 — ciphertext integrity: a modified encrypted message never decrypts cleanly.
//!
//! E2 `mutexplore`: every single deviation of small authentic containers (made by the library
//! and by the reference model), read through every consumer pattern at two levels.

use std::io::{BufRead, Read};

use pgp::{
    composed::{Message, PlainSessionKey},
    crypto::{
        aead::{AeadAlgorithm, ChunkSize},
        sym::SymmetricKeyAlgorithm,
    },
    packet::{StreamDecryptor, SymEncryptedProtectedData},
    ser::Serialize as _,
    types::Seipdv1ReadMode,
};
use rayon::prelude::*;
use serde::{Deserialize, Serialize};
use serde_json::Value;

use crate::{
    engine::{replay_as, Ctx, Outcome, Tier},
    reference::crypto as model,
};

#[derive(Clone, Copy, Debug, Hash, PartialEq, Eq, Serialize, Deserialize)]
pub struct Container {
    pub v2: bool,
    pub sym: u8,
    pub aead: u8,
    pub chunk: u8,
    /// length of the inner (plaintext) packet stream
    pub inner_len: usize,
    /// true: produced by the library's encryptor; false: by the reference model
    pub by_library: bool,
    /// SEIPDv1 read mode: false = CheckFirst (default), true = Streaming
    pub streaming: bool,
}

#[derive(Clone, Copy, Debug, Hash, PartialEq, Eq, Serialize, Deserialize)]
pub enum Family {
    Authentic,
    BitFlips,
    Truncations,
    Appends,
    HeaderOctets,
    ChunkSequences,
    StreamLevel,
    /// large containers: flips in the first / middle / last octets only
    SparseFlips,
    /// SEIPDv2 containers of several hundred chunks: two chunks exchanged / one repeated in the
    /// place of another, at distances that are multiples of 256 (and neighbours)
    ChunkSwaps,
}

#[derive(Clone, Debug, Hash, Serialize, Deserialize)]
pub struct Case {
    pub c: Container,
    pub family: Family,
    /// 0 = packet::StreamDecryptor over the body, 1 = Message::decrypt_with_session_key
    pub level: u8,
    pub consumer: u8,
    /// level 1: packets the reader skips in front of the container: 0 none, 1 a Marker packet,
    /// 2 a Padding packet, 3 both
    #[serde(default)]
    pub lead: u8,
}

pub const CONSUMERS: [&str; 10] = [
    "read_to_end",
    "read(1)",
    "read(15)",
    "read(16)",
    "read(17)",
    "read(64)",
    "read(80)",
    "read(8192)",
    "fill_buf/consume(half)",
    "read(0) before every read(64)",
];

fn key_for(c: &Container) -> Vec<u8> {
    let (_, ks) = model::sym_params(c.sym).expect("cipher");
    (0..ks).map(|i| (i as u8).wrapping_mul(17).wrapping_add(c.sym)).collect()
}

/// inner packet stream: one literal data packet whose total encoded length is `inner_len`
fn inner(inner_len: usize, variant: u8) -> (Vec<u8>, Vec<u8>) {
    // literal body = 'b', name len 0, date 0 (4) + data
    let hdr = if inner_len >= 8384 + 6 {
        6
    } else if inner_len >= 192 + 2 {
        3
    } else {
        2
    };
    let n = inner_len.saturating_sub(hdr + 6);
    let data: Vec<u8> = (0..n)
        .map(|i| (i as u8).wrapping_mul(31).wrapping_add(variant))
        .collect();
    let mut body = vec![b'b', 0, 0, 0, 0, 0];
    body.extend_from_slice(&data);
    (model::packet(11, &body), data)
}

const SALT: [u8; 32] = [0x5A; 32];

/// body of the SEIPD packet (starting at the version octet)
fn body_of(c: &Container, variant: u8) -> Vec<u8> {
    let (pt, _) = inner(c.inner_len, variant);
    let key = key_for(c);
    if c.v2 {
        if c.by_library {
            let salt = SALT;
            let mut src = &pt[..];
            let mut enc = SymEncryptedProtectedData::encrypt_seipdv2_stream(
                SymmetricKeyAlgorithm::from(c.sym),
                AeadAlgorithm::from(c.aead),
                ChunkSize::try_from(c.chunk).expect("chunk"),
                &key,
                salt,
                &mut src,
            )
            .expect("encryptor");
            let mut out = vec![2u8, c.sym, c.aead, c.chunk];
            out.extend_from_slice(&salt);
            enc.read_to_end(&mut out).expect("encrypt");
            out
        } else {
            model::seipdv2_body(c.sym, c.aead, c.chunk, &SALT, &key, &pt)
        }
    } else if c.by_library {
        let p = SymEncryptedProtectedData::encrypt_seipdv1(
            crate::engine::rng(3),
            SymmetricKeyAlgorithm::from(c.sym),
            &key,
            &pt,
        )
        .expect("encrypt v1");
        p.to_bytes().expect("ser")
    } else {
        let (bs, _) = model::sym_params(c.sym).unwrap();
        let prefix: Vec<u8> = (0..bs).map(|i| 0xC1u8.wrapping_add(i as u8 * 5)).collect();
        let mut out = vec![1u8];
        out.extend_from_slice(&model::seipdv1_encrypt(c.sym, &key, &prefix, &pt));
        out
    }
}

#[derive(Debug)]
struct Read1 {
    released: Vec<u8>,
    /// None = clean end of stream
    err: Option<String>,
}

fn drive<R: BufRead>(r: &mut R, consumer: u8) -> Read1 {
    let mut released = Vec::new();
    let sizes = [0usize, 1, 15, 16, 17, 64, 80, 8192, 0, 64];
    match consumer {
        0 => {
            let e = r.read_to_end(&mut released).err().map(|e| e.to_string());
            Read1 { released, err: e }
        }
        8 => loop {
            match r.fill_buf() {
                Ok(b) => {
                    if b.is_empty() {
                        return Read1 { released, err: None };
                    }
                    let k = b.len().div_ceil(2);
                    released.extend_from_slice(&b[..k]);
                    r.consume(k);
                }
                Err(e) => {
                    return Read1 {
                        released,
                        err: Some(e.to_string()),
                    }
                }
            }
        },
        c => {
            let mut buf = vec![0u8; sizes[c as usize]];
            loop {
                if c == 9 {
                    // a read into an empty buffer: answers 0, is not the end, changes nothing
                    if let Err(e) = r.read(&mut []) {
                        return Read1 { released, err: Some(e.to_string()) };
                    }
                }
                match r.read(&mut buf) {
                    Ok(0) => return Read1 { released, err: None },
                    Ok(k) => released.extend_from_slice(&buf[..k]),
                    Err(e) => {
                        return Read1 {
                            released,
                            err: Some(e.to_string()),
                        }
                    }
                }
                if released.len() > 1 << 24 {
                    return Read1 {
                        released,
                        err: Some("verif: runaway".into()),
                    };
                }
            }
        }
    }
}

fn read_mode(c: &Container) -> Seipdv1ReadMode {
    if c.streaming {
        Seipdv1ReadMode::Streaming
    } else {
        Seipdv1ReadMode::default()
    }
}

/// Level 0: the packet-level stream decryptor over the (possibly tampered) body.
fn decrypt_l0(c: &Container, body: &[u8], consumer: u8) -> Option<Read1> {
    let key = key_for(c);
    if body.is_empty() {
        return None;
    }
    match body[0] {
        1 => {
            let mut d = match StreamDecryptor::v1(
                SymmetricKeyAlgorithm::from(c.sym),
                read_mode(c),
                &key,
                &body[1..],
            ) {
                Ok(d) => d,
                Err(e) => {
                    return Some(Read1 {
                        released: vec![],
                        err: Some(format!("setup: {e}")),
                    })
                }
            };
            Some(drive(&mut d, consumer))
        }
        2 => {
            if body.len() < 36 {
                return None;
            }
            let Ok(chunk) = ChunkSize::try_from(body[3]) else {
                return Some(Read1 {
                    released: vec![],
                    err: Some("setup: invalid chunk size".into()),
                });
            };
            let salt: [u8; 32] = body[4..36].try_into().unwrap();
            let mut d = match StreamDecryptor::v2(
                SymmetricKeyAlgorithm::from(body[1]),
                AeadAlgorithm::from(body[2]),
                chunk,
                &salt,
                &key,
                &body[36..],
            ) {
                Ok(d) => d,
                Err(e) => {
                    return Some(Read1 {
                        released: vec![],
                        err: Some(format!("setup: {e}")),
                    })
                }
            };
            Some(drive(&mut d, consumer))
        }
        _ => None,
    }
}

/// Level 1: the whole message through `Message`.
fn decrypt_l1(c: &Container, stream: &[u8], consumer: u8) -> Read1 {
    let key = key_for(c);
    let sk = if c.v2 {
        PlainSessionKey::V6 { key: key.into() }
    } else {
        PlainSessionKey::V3_4 {
            sym_alg: SymmetricKeyAlgorithm::from(c.sym),
            key: key.into(),
        }
    };
    let msg = match Message::from_bytes(stream) {
        Ok(m) => m,
        Err(e) => {
            return Read1 {
                released: vec![],
                err: Some(format!("from_bytes: {e}")),
            }
        }
    };
    let ring = pgp::composed::TheRing {
        session_keys: vec![sk],
        decrypt_options: pgp::composed::DecryptionOptions::new()
            .set_seipdv1_read_mode(read_mode(c)),
        ..Default::default()
    };
    let mut msg = match msg.decrypt_the_ring(ring, true) {
        Ok((m, _)) => m,
        Err(e) => {
            return Read1 {
                released: vec![],
                err: Some(format!("decrypt: {e}")),
            }
        }
    };
    drive(&mut msg, consumer)
}

struct Tampered {
    what: String,
    /// tampered SEIPD body (for level 0) -- None when the tampering is on the outer stream only
    body: Option<Vec<u8>>,
    /// tampered full stream (for level 1)
    stream: Vec<u8>,
    /// Some(expected inner plaintext variant) if the result is itself an authentic container
    authentic: Option<u8>,
}

fn tampers(c: &Container, family: Family) -> Vec<Tampered> {
    let body = body_of(c, 0);
    let mk = |what: String, b: Vec<u8>, authentic: Option<u8>| Tampered {
        what,
        stream: model::packet(18, &b),
        body: Some(b),
        authentic,
    };
    let mut out = Vec::new();
    match family {
        Family::Authentic => out.push(mk("authentic".into(), body.clone(), Some(0))),
        Family::BitFlips => {
            for pos in 0..body.len() {
                for bit in 0..8 {
                    let mut b = body.clone();
                    b[pos] ^= 1 << bit;
                    out.push(mk(format!("flip bit {bit} of body octet {pos}/{}", body.len()), b, None));
                }
            }
        }
        Family::Truncations => {
            for len in 0..body.len() {
                out.push(mk(format!("body truncated to {len}/{} octets", body.len()), body[..len].to_vec(), None));
            }
        }
        Family::Appends => {
            // also whole chunks' worth (and a buffer's worth) of appended octets
            let unit = if c.v2 { 1usize << (c.chunk as usize + 6) } else { 64 };
            let ks: Vec<usize> = (1..=17usize).chain([unit - 1, unit, unit + 1, unit + 16, unit + 17, 2 * unit, 2 * unit + 16, 3 * unit + 16].into_iter().filter(|k| *k > 17 && *k <= 300_000)).chain(if unit < 8192 { vec![8192, 8192 + 22, 8192 + unit + 16] } else { vec![] }).collect();
            for k in ks {
                for fill in [0u8, 0xFF] {
                    let mut b = body.clone();
                    b.extend(std::iter::repeat(fill).take(k));
                    out.push(mk(format!("{k} octets {fill:#x} appended to the body"), b, None));
                }
                // repeat the last k octets
                let mut b = body.clone();
                let tail = body[body.len().saturating_sub(k)..].to_vec();
                b.extend_from_slice(&tail);
                out.push(mk(format!("last {k} octets of the body repeated"), b, None));
            }
        }
        Family::HeaderOctets => {
            let n = if c.v2 { 4 } else { 1 };
            for pos in 0..n {
                for v in 0..=255u8 {
                    if v == body[pos] {
                        continue;
                    }
                    let mut b = body.clone();
                    b[pos] = v;
                    out.push(mk(format!("header octet {pos} set to {v:#x}"), b, None));
                }
            }
            if c.v2 {
                for pos in 4..36 {
                    for v in [0u8, 0xFF, body[pos] ^ 0x80, body[pos].wrapping_add(1)] {
                        if v == body[pos] {
                            continue;
                        }
                        let mut b = body.clone();
                        b[pos] = v;
                        out.push(mk(format!("salt octet {} set to {v:#x}", pos - 4), b, None));
                    }
                }
            }
        }
        Family::ChunkSequences => {
            if !c.v2 {
                return out;
            }
            let key = key_for(c);
            let (pt0, _) = inner(c.inner_len, 0);
            let (pt1, _) = inner(c.inner_len, 1);
            let (ch0, ft0) = model::seipdv2_chunks(c.sym, c.aead, c.chunk, &SALT, &key, &pt0);
            // a second message under the same session key (its own random salt, as every message has)
            let salt1 = [0xA7u8; 32];
            let (ch1, ft1) = model::seipdv2_chunks(c.sym, c.aead, c.chunk, &salt1, &key, &pt1);
            // alphabet: own chunks, own final tag, first chunk and final tag of the second message
            let mut units: Vec<(String, Vec<u8>)> = ch0
                .iter()
                .enumerate()
                .map(|(i, c)| (format!("c{i}"), c.clone()))
                .collect();
            units.push(("T".into(), ft0.clone()));
            if let Some(c1) = ch1.first() {
                units.push(("c0'".into(), c1.clone()));
            }
            units.push(("T'".into(), ft1.clone()));
            let n = ch0.len();
            let maxlen = n + 2;
            let authentic0: Vec<usize> = (0..=n).collect();
            let mut seq: Vec<usize> = Vec::new();
            fn rec(
                units: &[(String, Vec<u8>)],
                maxlen: usize,
                seq: &mut Vec<usize>,
                emit: &mut dyn FnMut(&[usize]),
            ) {
                emit(seq);
                if seq.len() == maxlen {
                    return;
                }
                for i in 0..units.len() {
                    seq.push(i);
                    rec(units, maxlen, seq, emit);
                    seq.pop();
                }
            }
            let header = body[..36].to_vec();
            let mut emit = |s: &[usize]| {
                let mut b = header.clone();
                for &i in s {
                    b.extend_from_slice(&units[i].1);
                }
                // authentic iff byte-identical to the authentic container
                let authentic = if b == body { Some(0) } else { None };
                let _ = (&authentic0, n);
                let name: Vec<&str> = s.iter().map(|&i| units[i].0.as_str()).collect();
                out.push(Tampered {
                    what: format!("chunk sequence [{}]", name.join(" ")),
                    stream: model::packet(18, &b),
                    body: Some(b),
                    authentic,
                });
            };
            rec(&units, maxlen, &mut seq, &mut emit);
        }
        Family::SparseFlips => {
            let n = body.len();
            let mut pos: Vec<usize> = (0..n.min(24)).collect();
            pos.push(n / 2);
            pos.extend(n.saturating_sub(24)..n);
            pos.sort();
            pos.dedup();
            for p in pos {
                for bit in [0u8, 7] {
                    let mut b = body.clone();
                    b[p] ^= 1 << bit;
                    out.push(mk(format!("flip bit {bit} of body octet {p}/{n}"), b, None));
                }
            }
        }
        Family::ChunkSwaps => {
            if !c.v2 {
                return out;
            }
            let unit = (1usize << (c.chunk as usize + 6)) + 16;
            let region = 36..body.len() - 16;
            let full = (region.end - region.start) / unit;
            let at = |i: usize| 36 + i * unit..36 + (i + 1) * unit;
            for (i, j) in [(0usize, 256usize), (1, 257), (3, 259), (0, 512), (255, 256), (0, 1), (256, 257), (0, 255), (0, 257)] {
                if j >= full {
                    continue;
                }
                let mut b = body.clone();
                let (ci, cj) = (body[at(i)].to_vec(), body[at(j)].to_vec());
                b[at(i)].copy_from_slice(&cj);
                b[at(j)].copy_from_slice(&ci);
                out.push(mk(format!("chunks {i} and {j} of {full} exchanged"), b, None));
                let mut b = body.clone();
                b[at(j)].copy_from_slice(&ci);
                out.push(mk(format!("chunk {i} repeated in the place of chunk {j} (of {full})"), b, None));
            }
        }
        Family::StreamLevel => {
            let stream = model::packet(18, &body);
            // the byte stream cut short without correcting the packet header
            for cut in 0..stream.len() {
                out.push(Tampered {
                    what: format!("stream cut after {cut}/{} octets (header still announces the full body)", stream.len()),
                    body: None,
                    stream: stream[..cut].to_vec(),
                    authentic: None,
                });
            }
            // garbage / a second packet after the container
            for extra in [vec![0u8], vec![0xFF], model::packet(11, b"b\0\0\0\0\0x"), stream.clone()] {
                let mut s = stream.clone();
                s.extend_from_slice(&extra);
                // the container itself is unchanged: nothing is demanded of the outcome (grammar /
                // trailing-data leniency is not this property); still run for panics
                out.push(Tampered {
                    what: format!("{} octets appended after the packet", extra.len()),
                    body: None,
                    stream: s,
                    authentic: Some(255),
                });
            }
            // same body in partial-body framing with every split point of the first 512+ octets
            // is C17's business; here: declared length longer / shorter by one
            for delta in [-1i64, 1] {
                let mut s = stream.clone();
                if body.len() < 191 && body.len() > 1 {
                    s[1] = (body.len() as i64 + delta) as u8;
                    out.push(Tampered {
                        what: format!("packet length octet off by {delta}"),
                        body: None,
                        stream: s,
                        authentic: None,
                    });
                }
            }
        }
    }
    out
}

fn run(c: &Case) -> Outcome {
    let t0 = std::time::Instant::now();
    let ts = tampers(&c.c, c.family);
    let mut o = Outcome::ok("all-rejected");
    if c.family == Family::Authentic {
        o.class = "authentic-decrypts".into();
    }
    let kind = if c.c.v2 {
        "seipdv2"
    } else if c.c.streaming {
        "seipdv1-streaming"
    } else {
        "seipdv1"
    };
    let mut evals = 0u64;
    for t in &ts {
        let r = if c.level == 0 {
            match &t.body {
                Some(b) => match decrypt_l0(&c.c, b, c.consumer) {
                    Some(r) => r,
                    None => continue,
                },
                None => continue,
            }
        } else {
            let mut stream = Vec::new();
            if c.lead & 1 != 0 {
                stream.extend_from_slice(&model::packet(10, b"PGP"));
            }
            if c.lead & 2 != 0 {
                stream.extend_from_slice(&model::packet(21, &[0x77; 5]));
            }
            stream.extend_from_slice(&t.stream);
            decrypt_l1(&c.c, &stream, c.consumer)
        };
        evals += 1;
        let (inner0, data0) = inner(c.c.inner_len, t.authentic.unwrap_or(0));
        let want: &[u8] = if c.level == 0 { &inner0 } else { &data0 };
        let ctx = format!(
            "{kind} sym {} aead {} chunk {} inner {} ({}), level {}{}, consumer {}: {}",
            c.c.sym,
            c.c.aead,
            c.c.chunk,
            c.c.inner_len,
            if c.c.by_library { "library-made" } else { "model-made" },
            c.level,
            ["", " behind a Marker packet", " behind a Padding packet", " behind Marker + Padding packets"][c.lead as usize & 3],
            CONSUMERS[c.consumer as usize],
            t.what
        );
        match t.authentic {
            Some(255) => {}
            Some(_) => {
                if r.err.is_some() || r.released != want {
                    o.push(
                        format!("C03:{kind}:authentic-container-rejected"),
                        format!("{ctx}: err {:?}, {} of {} bytes", r.err, r.released.len(), want.len()),
                    );
                }
            }
            None => {
                if r.err.is_none() {
                    o.push(
                        format!("C03:{kind}:{:?}:modified-container-reads-to-clean-eof", c.family),
                        format!("{ctx}: {} bytes released, clean end of stream", r.released.len()),
                    );
                } else if !c.c.v2 && !c.c.streaming && !r.released.is_empty() {
                    o.push(
                        format!("C03:{kind}:{:?}:plaintext-released-before-integrity-check", c.family),
                        format!("{ctx}: {} bytes released before the error", r.released.len()),
                    );
                } else if c.c.v2 {
                    let (inner_true, data_true) = inner(c.c.inner_len, 0);
                    let truth: &[u8] = if c.level == 0 { &inner_true } else { &data_true };
                    let ok = truth.starts_with(&r.released);
                    if !ok {
                        o.push(
                            format!("C03:{kind}:{:?}:released-bytes-not-a-prefix-of-plaintext", c.family),
                            format!("{ctx}: released {} bytes that are not a prefix of the true plaintext", r.released.len()),
                        );
                    }
                }
            }
        }
        if o.viol.len() >= 3 {
            break;
        }
    }
    o.evals = evals.max(1);
    if t0.elapsed().as_secs_f64() > 0.5 && std::env::var_os("VERIF_DEBUG").is_some() {
        eprintln!("[debug] {:.1}s {} evals: {c:?}", t0.elapsed().as_secs_f64(), evals);
    }
    o
}

pub fn containers(quick: bool) -> Vec<Container> {
    let mut v = Vec::new();
    // SEIPDv2
    let combos: Vec<(u8, u8)> = if quick {
        vec![(7, 1), (7, 2), (9, 3)]
    } else {
        vec![(7, 1), (7, 2), (7, 3), (8, 2), (9, 1), (9, 2), (9, 3)]
    };
    for (sym, aead) in combos {
        for chunk in if quick { vec![0u8] } else { vec![0u8, 1] } {
            let c = 1usize << (chunk + 6);
            let lens: Vec<usize> = if quick {
                vec![8, 9, c - 1, c, c + 1, 2 * c, 2 * c + 1]
            } else {
                vec![8, 9, c - 1, c, c + 1, 2 * c - 1, 2 * c, 2 * c + 1, 3 * c, 4 * c]
            };
            for inner_len in lens {
                for by_library in [true, false] {
                    v.push(Container {
                        v2: true,
                        sym,
                        aead,
                        chunk,
                        inner_len,
                        by_library,
                        streaming: false,
                    });
                }
            }
        }
    }
    // other chunk sizes (the default 4 KiB among them): short plaintexts only
    for chunk in if quick { vec![6u8] } else { vec![3u8, 6, 10] } {
        for (sym, aead) in [(7u8, 2u8), (9, 1), (8, 3)] {
            for inner_len in [8usize, 100] {
                for by_library in [true, false] {
                    v.push(Container {
                        v2: true,
                        sym,
                        aead,
                        chunk,
                        inner_len,
                        by_library,
                        streaming: false,
                    });
                }
            }
        }
    }
    // several hundred chunks (the chunk index reaches its second octet)
    for (sym, aead) in if quick { vec![(7u8, 2u8), (9, 1)] } else { vec![(7u8, 1u8), (7, 2), (9, 3), (8, 2), (9, 1)] } {
        for inner_len in if quick { vec![64 * 258 + 5] } else { vec![64 * 256, 64 * 258 + 5, 64 * 515] } {
            for by_library in [true, false] {
                v.push(Container { v2: true, sym, aead, chunk: 0, inner_len, by_library, streaming: false });
            }
        }
    }
    // SEIPDv1 in streaming mode around the point where the stream ends exactly with a refill of
    // the 8 KiB buffer (8192 minus the 22 octets held back for the MDC)
    for sym in if quick { vec![7u8] } else { vec![7u8, 3, 9] } {
        for inner_len in if quick { vec![8169usize, 8170, 8171, 16340] } else { (8160..=8180).chain([16339, 16340, 16341, 24510]).collect() } {
            for by_library in [true, false] {
                v.push(Container { v2: false, sym, aead: 0, chunk: 0, inner_len, by_library, streaming: true });
            }
        }
    }
    // SEIPDv1
    for sym in if quick { vec![7u8, 3] } else { vec![7u8, 9, 3, 2, 10] } {
        for inner_len in if quick { vec![8usize, 9, 29, 30, 31, 100] } else { vec![8usize, 9, 15, 16, 17, 29, 30, 31, 100, 8192, 8194] } {
            for by_library in [true, false] {
                for streaming in [false, true] {
                    v.push(Container {
                        v2: false,
                        sym,
                        aead: 0,
                        chunk: 0,
                        inner_len,
                        by_library,
                        streaming,
                    });
                }
            }
        }
    }
    v
}

pub fn check(ctx: &Ctx) {
    if let Err(e) = model::self_test() {
        eprintln!("MACHINERY: crypto reference model self-test failed: {e}");
        std::process::exit(2);
    }
    // the former thorough bounds (minus the 4-chunk sequence family) are the quick tier now;
    // `deep` = thorough
    let quick = false;
    let deep = ctx.tier == Tier::Thorough;
    let cs = containers(quick);
    let mut cases = Vec::new();
    for c in &cs {
        for level in [0u8, 1] {
            for consumer in 0..CONSUMERS.len() as u8 {
                cases.push(Case {
                    c: *c,
                    family: Family::Authentic,
                    level,
                    consumer,
                    lead: 0,
                });
            }
        }
        if c.inner_len > 1000 {
            // large containers: the deviations that do not need every position
            for family in [Family::SparseFlips, Family::ChunkSwaps, Family::Appends] {
                if family == Family::ChunkSwaps && !c.v2 {
                    continue;
                }
                for level in [0u8, 1] {
                    for consumer in [0u8, 5, 7, 8] {
                        cases.push(Case { c: *c, family, level, consumer, lead: 0 });
                    }
                }
            }
            continue;
        }
        let small = c.inner_len <= 2 * (1usize << (c.chunk as usize + 6)) + 1 && c.inner_len <= 300;
        for family in [
            Family::BitFlips,
            Family::Truncations,
            Family::Appends,
            Family::HeaderOctets,
            Family::ChunkSequences,
            Family::StreamLevel,
        ] {
            if family == Family::BitFlips && !small && quick {
                continue;
            }
            if family == Family::ChunkSequences {
                let n = c.inner_len.div_ceil(1usize << (c.chunk + 6));
                if !c.v2 || n > if deep { 4 } else { 3 } {
                    continue;
                }
            }
            if c.inner_len > 1000 && matches!(family, Family::BitFlips | Family::Truncations) && c.by_library {
                continue;
            }
            for level in [0u8, 1] {
                if family == Family::StreamLevel && level == 0 {
                    continue;
                }
                let consumers: Vec<u8> = match family {
                    Family::BitFlips | Family::ChunkSequences => {
                        if quick {
                            vec![0, 1, 3, 8]
                        } else {
                            vec![0, 1, 2, 3, 4, 5, 6, 7, 8, 9]
                        }
                    }
                    _ => (0..CONSUMERS.len() as u8).collect(),
                };
                for consumer in consumers {
                    cases.push(Case {
                        c: *c,
                        family,
                        level,
                        consumer,
                        lead: 0,
                    });
                }
            }
        }
    }
    // the same containers behind packets the message reader skips (Marker, Padding)
    for c in &cs {
        for lead in 1..=3u8 {
            for family in [Family::Authentic, Family::Appends, Family::Truncations, Family::StreamLevel, Family::SparseFlips] {
                if c.inner_len > 1000 && matches!(family, Family::Truncations | Family::StreamLevel) {
                    continue;
                }
                if c.inner_len <= 1000 && family == Family::SparseFlips {
                    continue;
                }
                if lead == 3 && family != Family::Appends {
                    continue;
                }
                for consumer in [0u8, 5, 8] {
                    cases.push(Case { c: *c, family, level: 1, consumer, lead });
                }
            }
        }
    }
    ctx.run_space(
        "tampered_containers",
        true,
        "authentic containers (library-made and model-made; SEIPDv2 cipher x AEAD x chunk 64B(/128B) x plaintext lengths around 0,1,2(,3,4) chunks, plus 4 KiB (512 B, 64 KiB) chunk sizes with short plaintexts; SEIPDv1 ciphers x lengths x CheckFirst/Streaming; SEIPDv2 containers of 256..515 chunks and SEIPDv1 streaming-mode containers whose length is 8170k-1, 8170k, 8170k+1 (the stream ending exactly with a refill of the 8 KiB buffer; thorough every length 8160..8180) with flips in the first / middle / last 24 octets, chunk exchanges / repeats at distances 1, 255, 256, 257, 512, and appended octets) x deviation family {every single-bit flip of the whole body, every truncation length, 1..17 appended octets, header octets x all 256 values + salt octets, all chunk sequences of length <= n+2 over own chunks/final tag + first chunk/final tag of a second message under the same session key, stream cut at every offset / trailing data; appended octets also one chunk / two chunks / one 8 KiB buffer long} x {directly, behind a Marker packet, behind a Padding packet} x consumer {read_to_end, read(1/15/16/17/64/80/8192), fill_buf+consume, read(64) with a read into an empty buffer before every call} x level {packet::StreamDecryptor, Message::decrypt_the_ring(session key)}; evaluations = decrypt attempts. Oracle: reading ends in an error unless the container is byte-identical to an authentic one; SEIPDv1 CheckFirst releases nothing; SEIPDv2 releases only a prefix of the true plaintext.",
        cases.into_par_iter(),
        run,
    );
    ctx.assume("the consumer stops at the first error (the AEAD decryptor is not sticky after an error; calling read again is outside the io::Read contract and outside the property)");
}

pub fn replay(space: &str, case: &Value) -> Option<Outcome> {
    match space {
        "tampered_containers" => replay_as(case, run),
        _ => None,
    }
}
