//! C13 — fingerprints and key ids are the RFC-defined hashes and are stable.

use std::path::{Path, PathBuf};

use pgp::{
    composed::{Deserializable, DetachedSignature, SignedSecretKey},
    crypto::hash::HashAlgorithm,
    packet::{Packet, PacketParser, PublicKeyEncryptedSessionKey},
    ser::Serialize as _,
    types::{KeyDetails, KeyId, Password},
};
use rayon::prelude::*;
use serde::{Deserialize, Serialize};
use serde_json::Value;

use crate::{
    common::{
        self,
        msg::{self, Enc, EskSpec, MsgCfg},
        KeyKind,
    },
    engine::{replay_as, Ctx, Outcome, Tier},
    reference::codec::{self, Kind, Summary},
};

fn walk(dir: &Path, out: &mut Vec<PathBuf>) {
    let Ok(rd) = std::fs::read_dir(dir) else { return };
    let mut entries: Vec<_> = rd.filter_map(|e| e.ok()).collect();
    entries.sort_by_key(|e| e.path());
    for e in entries {
        let p = e.path();
        if p.is_dir() {
            walk(&p, out);
        } else if p.metadata().map(|m| m.len() < 4_000_000).unwrap_or(false) {
            out.push(p);
        }
    }
}

/// binary packet stream of a fixture file (dearmored if needed), None if it is not OpenPGP data
fn fixture_stream(path: &Path) -> Option<Vec<u8>> {
    let data = std::fs::read(path).ok()?;
    if data.windows(14).any(|w| w == b"-----BEGIN PGP") {
        if data.windows(34).any(|w| w == b"-----BEGIN PGP SIGNED MESSAGE-----") {
            return None;
        }
        codec::dearmor(&data).ok()
    } else if data.first().map(|b| b & 0x80 != 0).unwrap_or(false) {
        Some(data)
    } else {
        None
    }
}

#[derive(Clone, Debug, Hash, Serialize, Deserialize)]
pub struct FixtureCase {
    pub file: String,
    pub index: usize,
}

fn lib_key_ids(p: &Packet) -> Option<(Vec<u8>, [u8; 8], Vec<u8>, [u8; 8])> {
    // (fingerprint, key id) of the packet, and of its public half (same for public packets)
    fn ids<K: KeyDetails>(k: &K) -> (Vec<u8>, [u8; 8]) {
        let kid: KeyId = k.legacy_key_id();
        (k.fingerprint().as_bytes().to_vec(), kid.as_ref().try_into().unwrap_or([0; 8]))
    }
    Some(match p {
        Packet::PublicKey(k) => {
            let a = ids(k);
            (a.0.clone(), a.1, a.0, a.1)
        }
        Packet::PublicSubkey(k) => {
            let a = ids(k);
            (a.0.clone(), a.1, a.0, a.1)
        }
        Packet::SecretKey(k) => {
            let a = ids(k);
            let b = ids(k.public_key());
            (a.0, a.1, b.0, b.1)
        }
        Packet::SecretSubkey(k) => {
            let a = ids(k);
            let b = ids(k.public_key());
            (a.0, a.1, b.0, b.1)
        }
        _ => return None,
    })
}

/// Key packets assembled by the harness for every curve the format names (fixtures exist for a
/// few only): (description, framed packet).  Points of the curves the library computes with are
/// genuine (taken from generated keys); the others are field-sized octet patterns.
pub fn synthetic_curve_keys() -> Vec<(String, Vec<u8>)> {
    use crate::reference::frame::frame_min;
    let pubmat = |kind: KeyKind, sub: bool| -> Vec<u8> {
        let cert = common::cert(kind, 1);
        let body = if sub { cert.secret_subkeys[0].key.public_key().to_bytes() } else { cert.primary_key.public_key().to_bytes() }.expect("ser");
        let d = codec::decode_packet(if sub { 14 } else { 6 }, &body).expect("own key decodes");
        let Summary::Key(k) = &d.summary else { panic!("key") };
        body[k.material.0..k.material.1].to_vec()
    };
    // (name, oid, point MPI incl. bit count) for ECDSA-shaped material
    let mut curves: Vec<(String, Vec<u8>, Vec<u8>)> = Vec::new();
    for (name, kind) in [("P-256", KeyKind::EcdsaP256V4), ("P-384", KeyKind::EcdsaP384V4), ("P-521", KeyKind::EcdsaP521V4), ("secp256k1", KeyKind::EcdsaK256V4)] {
        let m = pubmat(kind, false);
        let ol = m[0] as usize;
        curves.push((name.to_string(), m[1..1 + ol].to_vec(), m[1 + ol..].to_vec()));
    }
    for (name, oid_tail, size) in [("brainpoolP256r1", 0x07u8, 32usize), ("brainpoolP384r1", 0x0B, 48), ("brainpoolP512r1", 0x0D, 64)] {
        let oid = vec![0x2B, 0x24, 0x03, 0x03, 0x02, 0x08, 0x01, 0x01, oid_tail];
        let mut point = vec![0x04u8];
        point.extend((0..2 * size).map(|i| (i as u8).wrapping_mul(37).wrapping_add(oid_tail) | 1));
        let bits = (point.len() * 8 - 5) as u16;
        curves.push((name.to_string(), oid, [&bits.to_be_bytes()[..], &point[..]].concat()));
    }
    let mut out = Vec::new();
    for (name, oid, mpi) in &curves {
        for alg in [19u8, 18] {
            for version in [4u8, 6] {
                for tag in [6u8, 14] {
                    let mut material = vec![oid.len() as u8];
                    material.extend_from_slice(oid);
                    material.extend_from_slice(mpi);
                    if alg == 18 {
                        material.extend_from_slice(&[3, 1, 8, 7]);
                    }
                    let mut body = vec![version, 0x65, 0x5E, 0x00, 0x01, alg];
                    if version == 6 {
                        body.extend_from_slice(&(material.len() as u32).to_be_bytes());
                    }
                    body.extend_from_slice(&material);
                    out.push((format!("synthetic v{version} {} key (tag {tag}) on {name}", if alg == 18 { "ECDH" } else { "ECDSA" }), frame_min(tag, &body)));
                }
            }
        }
    }
    out
}

fn run_fixture(c: &FixtureCase) -> Outcome {
    let path = Path::new(&c.file);
    let stream = if let Some(hexed) = c.file.strip_prefix("synthetic:") {
        hex::decode(hexed.rsplit(':').next().unwrap_or("")).ok()
    } else {
        fixture_stream(path)
    };
    let Some(stream) = stream else {
        return Outcome::trivial("not-openpgp");
    };
    let Ok(packets) = codec::split_packets(&stream) else {
        return Outcome::trivial("not-splittable");
    };
    let Some((tag, header, body)) = packets.get(c.index) else {
        return Outcome::trivial("no-such-packet");
    };
    let mut framed = header.clone();
    framed.extend_from_slice(body);
    let parsed = PacketParser::new(&framed[..]).next();
    let Some(Ok(packet)) = parsed else {
        return Outcome::trivial("library-rejects-packet");
    };
    let Some((fp, kid, pfp, pkid)) = lib_key_ids(&packet) else {
        return Outcome::trivial("not-a-key");
    };
    let short_owned: String = if c.file.starts_with("synthetic:") { c.file.split(':').take(2).collect::<Vec<_>>().join(":") } else { c.file.strip_prefix("/repo/").unwrap_or(&c.file).to_string() };
    let short = &short_owned[..];
    let mut o = Outcome::ok("rfc-value");
    if fp != pfp || kid != pkid {
        o.push(
            "C13:secret-and-public-half-disagree",
            format!("{short} packet {}: {} vs {}", c.index, hex::encode(&fp), hex::encode(&pfp)),
        );
    }
    // stable under re-serialisation and re-parsing
    if let Ok(bytes) = packet.to_bytes() {
        match PacketParser::new(&bytes[..]).next() {
            Some(Ok(p2)) => {
                if lib_key_ids(&p2).map(|x| (x.0, x.1)) != Some((fp.clone(), kid)) {
                    o.push(
                        "C13:fingerprint-changes-on-reparse",
                        format!("{short} packet {}", c.index),
                    );
                }
            }
            _ => o.push("C13:reserialised-key-does-not-parse", format!("{short} packet {}", c.index)),
        }
    }
    // RFC value from the wire bytes (canonical encodings only)
    match codec::decode_packet(*tag, body) {
        Ok(d) => {
            if let Summary::Key(k) = &d.summary {
                if !d.canonical {
                    o.class = "non-canonical-encoding:stability-only".into();
                    return o;
                }
                match codec::fingerprint(&body[..k.public_end]) {
                    Ok((rfp, rkid)) => {
                        if rfp != fp {
                            o.push(
                                format!("C13:fingerprint-not-rfc:v{}", k.version),
                                format!(
                                    "{short} packet {} (v{} alg {}): library {} RFC {}",
                                    c.index,
                                    k.version,
                                    k.pk_alg,
                                    hex::encode(&fp),
                                    hex::encode(&rfp)
                                ),
                            );
                        }
                        if rkid != kid {
                            o.push(
                                format!("C13:key-id-not-rfc:v{}", k.version),
                                format!(
                                    "{short} packet {}: library {} RFC {}",
                                    c.index,
                                    hex::encode(kid),
                                    hex::encode(rkid)
                                ),
                            );
                        }
                        o.class = format!("rfc-value:v{}", k.version);
                    }
                    Err(_) => o.class = "reference-cannot-fingerprint".into(),
                }
            }
        }
        Err(_) => o.class = "reference-cannot-decode".into(),
    }
    o
}

#[derive(Clone, Debug, Hash, Serialize, Deserialize)]
pub struct GenCase {
    pub kind: KeyKind,
    pub seed: u64,
}

fn check_key_packet(o: &mut Outcome, what: &str, pkt_bytes_with_header: &[u8], fp: &[u8], kid: &[u8]) {
    let Ok(ps) = codec::split_packets(pkt_bytes_with_header) else {
        o.push("C13:generated:unsplittable", what.to_string());
        return;
    };
    let Some((_tag, _h, body)) = ps.first() else { return };
    match codec::fingerprint(body) {
        Ok((rfp, rkid)) => {
            if rfp != fp || rkid != kid {
                o.push(
                    "C13:generated:fingerprint-or-key-id-not-rfc",
                    format!("{what}: library {} / {} RFC {} / {}", hex::encode(fp), hex::encode(kid), hex::encode(&rfp), hex::encode(rkid)),
                );
            }
        }
        Err(e) => o.push("C13:generated:reference-error", format!("{what}: {e}")),
    }
}

fn with_header<P: pgp::packet::PacketTrait>(p: &P) -> Vec<u8> {
    let mut v = Vec::new();
    p.to_writer_with_header(&mut v).expect("serialise");
    v
}

fn sub_field<'a>(body: &'a [u8], d: &codec::Decoded, kind: Kind) -> Option<&'a [u8]> {
    d.fields.iter().find(|f| f.kind == kind).map(|f| &body[f.start..f.end])
}

fn issuer_subpackets(sig_body: &[u8]) -> (Vec<Vec<u8>>, Vec<Vec<u8>>, Vec<Vec<u8>>) {
    // (issuer key ids, issuer fingerprints incl. version octet, embedded signature bodies)
    let mut kids = Vec::new();
    let mut fps = Vec::new();
    let mut emb = Vec::new();
    if let Ok(d) = codec::decode_packet(2, sig_body) {
        if let Summary::Signature(s) = &d.summary {
            for sp in &s.subpackets {
                let b = &sig_body[sp.body.0..sp.body.1];
                match sp.typ {
                    16 => kids.push(b.to_vec()),
                    33 => fps.push(b.to_vec()),
                    32 => emb.push(b.to_vec()),
                    _ => {}
                }
            }
        }
    }
    (kids, fps, emb)
}


fn check_subkey_issuers(o: &mut Outcome, cert: &SignedSecretKey, pfp: &[u8], pkid: &[u8]) {
    for (i, sk) in cert.secret_subkeys.iter().enumerate() {
        let sfp = sk.key.fingerprint().as_bytes().to_vec();
        let skid = sk.key.legacy_key_id().as_ref().to_vec();
        check_key_packet(o, &format!("subkey {i}"), &with_header(sk.key.public_key()), &sfp, &skid);
        // binding signature names the primary
        for sig in &sk.signatures {
            let body = sig.to_bytes().expect("sig");
            let (kids, fps, embs) = issuer_subpackets(&body);
            for k in &kids {
                if k != pkid {
                    o.push("C13:binding-issuer-key-id-not-primary", format!("subkey {i}: {}", hex::encode(k)));
                }
            }
            for f in &fps {
                if f.len() < 2 || f[1..] != pfp[..] {
                    o.push("C13:binding-issuer-fingerprint-not-primary", format!("subkey {i}: {}", hex::encode(f)));
                }
            }
            // embedded back signature names the subkey
            for e in &embs {
                let (ek, ef, _) = issuer_subpackets(e);
                for k in &ek {
                    if k != &skid {
                        o.push(
                            "C13:back-signature-issuer-key-id-not-subkey",
                            format!("subkey {i}: back signature names {} (subkey is {}, primary is {})", hex::encode(k), hex::encode(&skid), hex::encode(pkid)),
                        );
                    }
                }
                for f in &ef {
                    if f.len() < 2 || f[1..] != sfp[..] {
                        o.push("C13:back-signature-issuer-fingerprint-not-subkey", format!("subkey {i}: {}", hex::encode(f)));
                    }
                }
            }
        }
    }
}

fn run_generated(c: &GenCase) -> Outcome {
    let cert = common::cert(c.kind, c.seed);
    let mut o = Outcome::ok("rfc-value+embedded-ids");
    let pfp = cert.primary_key.fingerprint().as_bytes().to_vec();
    let pkid = cert.primary_key.legacy_key_id().as_ref().to_vec();
    check_key_packet(&mut o, "primary", &with_header(cert.primary_key.public_key()), &pfp, &pkid);
    if cert.primary_key.public_key().fingerprint().as_bytes() != &pfp[..] {
        o.push("C13:secret-and-public-half-disagree", "generated primary".to_string());
    }
    let public = cert.to_public_key();
    if public.fingerprint().as_bytes() != &pfp[..] || public.legacy_key_id().as_ref() != &pkid[..] {
        o.push("C13:signed-key-wrapper-disagrees", "SignedPublicKey vs primary".to_string());
    }
    if cert.fingerprint().as_bytes() != &pfp[..] {
        o.push("C13:signed-key-wrapper-disagrees", "SignedSecretKey vs primary".to_string());
    }
    check_subkey_issuers(&mut o, &cert, &pfp, &pkid);
    // self signatures name the primary
    let mut self_sigs: Vec<&pgp::packet::Signature> = cert.details.direct_signatures.iter().collect();
    for u in &cert.details.users {
        self_sigs.extend(u.signatures.iter());
    }
    for sig in self_sigs {
        let body = sig.to_bytes().expect("sig");
        let (kids, fps, _) = issuer_subpackets(&body);
        if kids.iter().any(|k| k != &pkid) || fps.iter().any(|f| f.len() < 2 || f[1..] != pfp[..]) {
            o.push("C13:self-signature-issuer-not-primary", String::new());
        }
        if fps.is_empty() && kids.is_empty() {
            o.push("C13:self-signature-without-issuer", String::new());
        }
    }
    // a data signature embeds the signer's ids; match_identity finds exactly that key
    let other = common::cert(c.kind, c.seed + 1000);
    match DetachedSignature::sign_binary_data(crate::engine::rng(1), &cert.primary_key, &Password::empty(), HashAlgorithm::Sha512, &b"x"[..]) {
        Ok(ds) => {
            let body = ds.signature.to_bytes().expect("sig");
            let (kids, fps, _) = issuer_subpackets(&body);
            if fps.is_empty() {
                o.push("C13:data-signature-without-issuer-fingerprint", String::new());
            }
            for f in &fps {
                let want_ver = if c.kind.is_v6() { 6 } else { 4 };
                if f.first() != Some(&want_ver) || f[1..] != pfp[..] {
                    o.push("C13:data-signature-issuer-fingerprint-differs", hex::encode(f));
                }
            }
            for k in &kids {
                if k != &pkid {
                    o.push("C13:data-signature-issuer-key-id-differs", hex::encode(k));
                }
            }
            if c.kind.is_v6() && !kids.is_empty() {
                o.push("C13:v6-signature-carries-issuer-key-id", String::new());
            }
            // identity matching is observable through verify: the signer's key is accepted,
            // another key is refused
            if ds.signature.verify(cert.primary_key.public_key(), &b"x"[..]).is_err() {
                o.push("C13:signature-not-matched-to-its-signer", String::new());
            }
            if ds.signature.verify(other.primary_key.public_key(), &b"x"[..]).is_ok() {
                o.push("C13:signature-matched-to-another-key", String::new());
            }
        }
        Err(e) => o.push("C13:sign-error", e.to_string()),
    }
    // the other signing entry points that choose the issuer subpackets themselves
    {
        use pgp::composed::{CleartextSignedMessage, MessageBuilder};
        let mut produced: Vec<(&str, Vec<u8>)> = Vec::new();
        if let Ok(ds) = DetachedSignature::sign_text_data(crate::engine::rng(1), &cert.primary_key, &Password::empty(), HashAlgorithm::Sha512, &b"x\n"[..]) {
            produced.push(("detached-text", ds.signature.to_bytes().expect("sig")));
        }
        if let Ok(m) = CleartextSignedMessage::sign(crate::engine::rng(1), "text\n- dash", &cert.primary_key, &Password::empty()) {
            for s in m.signatures() {
                produced.push(("cleartext", s.to_bytes().expect("sig")));
            }
        }
        let mut b = MessageBuilder::from_bytes("", b"payload".to_vec());
        b.sign(&cert.primary_key, Password::empty(), HashAlgorithm::Sha512);
        if let Ok(bytes) = b.to_vec(crate::engine::rng(3)) {
            if let Ok(ps) = codec::split_packets(&bytes) {
                for p in ps.iter().filter(|p| p.0 == 2) {
                    produced.push(("message-builder", p.2.clone()));
                }
            }
        }
        // certifications of another key's identities: the issuer is the signer, never the signee
        {
            use pgp::packet::{SignatureType, UserAttribute, UserId};
            let signee = other.primary_key.public_key();
            for typ in [SignatureType::CertGeneric, SignatureType::CertPositive] {
                if let Ok(uid) = UserId::from_str(Default::default(), "Somebody Else <else@example.org>") {
                    if let Ok(su) = uid.sign_third_party(crate::engine::rng(4), &cert.primary_key, &Password::empty(), signee, typ) {
                        for s in &su.signatures {
                            produced.push(("user-id-third-party", s.to_bytes().expect("sig")));
                        }
                    }
                }
                if let Ok(ua) = UserAttribute::new_image(vec![0xff, 0xd8, 0xff, 0xd9].into()) {
                    if let Ok(su) = ua.sign_third_party(crate::engine::rng(4), &cert.primary_key, &Password::empty(), signee, typ) {
                        for s in &su.signatures {
                            produced.push(("user-attribute-third-party", s.to_bytes().expect("sig")));
                        }
                    }
                }
            }
        }
        if produced.len() < 7 {
            o.push("C13:sign-error", format!("only {} of 7 signatures from the signing entry points were produced", produced.len()));
        }
        let want_ver = if c.kind.is_v6() { 6 } else { 4 };
        for (name, body) in produced {
            let (kids, fps, _) = issuer_subpackets(&body);
            if fps.is_empty() && kids.is_empty() {
                o.push(format!("C13:{name}:signature-without-issuer"), String::new());
            }
            for f in &fps {
                if f.first() != Some(&want_ver) || f[1..] != pfp[..] {
                    o.push(format!("C13:{name}:issuer-fingerprint-differs"), hex::encode(f));
                }
            }
            for k in &kids {
                if k != &pkid {
                    o.push(format!("C13:{name}:issuer-key-id-differs"), format!("subpacket {} / key id {}", hex::encode(k), hex::encode(&pkid)));
                }
            }
            if c.kind.is_v6() && !kids.is_empty() {
                o.push(format!("C13:{name}:v6-signature-carries-issuer-key-id"), String::new());
            }
        }
    }
    // PKESK recipient fields
    let enc_sub = &cert.secret_subkeys[0].key;
    let sfp = enc_sub.fingerprint().as_bytes().to_vec();
    let skid = enc_sub.legacy_key_id().as_ref().to_vec();
    let raw: pgp::composed::RawSessionKey = vec![7u8; 16].into();
    let mut forms = vec![false];
    if c.kind.is_v6() {
        forms.push(true);
    }
    for v6 in forms {
        let pk = if v6 {
            PublicKeyEncryptedSessionKey::from_session_key_v6(crate::engine::rng(2), &raw, enc_sub.public_key())
        } else {
            PublicKeyEncryptedSessionKey::from_session_key_v3(crate::engine::rng(2), &raw, pgp::crypto::sym::SymmetricKeyAlgorithm::AES128, enc_sub.public_key())
        };
        match pk {
            Ok(pk) => {
                let body = pk.to_bytes().expect("pkesk");
                match codec::decode_packet(1, &body) {
                    Ok(d) => {
                        if v6 {
                            let f = sub_field(&body, &d, Kind::Fingerprint);
                            let ver = sub_field(&body, &d, Kind::KeyVersionOctet);
                            if f != Some(&sfp[..]) || ver != Some(&[6u8][..]) {
                                o.push("C13:pkesk-v6-recipient-fingerprint-differs", format!("{:?} version {:?}", f.map(hex::encode), ver));
                            }
                        } else if sub_field(&body, &d, Kind::KeyId) != Some(&skid[..]) {
                            o.push("C13:pkesk-v3-recipient-key-id-differs", String::new());
                        }
                    }
                    Err(e) => o.push("C13:pkesk-undecodable-by-reference", e.to_string()),
                }
                if !pk.match_identity(enc_sub.public_key()) {
                    o.push("C13:pkesk-match_identity-misses-recipient", String::new());
                }
                if pk.match_identity(other.secret_subkeys[0].key.public_key()) || pk.match_identity(cert.primary_key.public_key()) {
                    o.push("C13:pkesk-match_identity-accepts-another-key", String::new());
                }
            }
            Err(e) => o.push("C13:pkesk-error", e.to_string()),
        }
    }
    // certificates with a signing subkey (embedded back signature)
    if matches!(c.kind, KeyKind::Ed25519V4 | KeyKind::Ed25519V6 | KeyKind::EcdsaP256V4) {
        use crate::props::c07::{Alg, Case as KCase, Shape, Sub};
        for sign_alg in [Alg::Ed25519, Alg::EcdsaP256] {
            let shape = Shape {
                v6: c.kind.is_v6(),
                primary: if c.kind == KeyKind::EcdsaP256V4 { Alg::EcdsaP256 } else { Alg::Ed25519 },
                subs: vec![
                    Sub { alg: sign_alg, sign: true, encrypt: false, lock: 0, caps: 0 },
                    Sub { alg: Alg::X25519, sign: false, encrypt: true, lock: 0, caps: 0 },
                ],
                lock: 0,
                uids: 1,
                prefs: false,
                subkey_v6: None,
            };
            match crate::props::c07::build(&KCase { shape, seed: c.seed, force_draw: None, mode: 0 }) {
                Ok(Ok(k)) => {
                    let fp = k.primary_key.fingerprint().as_bytes().to_vec();
                    let kid = k.primary_key.legacy_key_id().as_ref().to_vec();
                    check_subkey_issuers(&mut o, &k, &fp, &kid);
                }
                other => o.push("C13:generated:signing-subkey-certificate-failed", format!("{:?}", other.map(|r| r.map(|_| ())))),
            }
        }
    }
    // stability: export, import
    if let Ok(bytes) = cert.to_bytes() {
        if let Ok(k2) = SignedSecretKey::from_bytes(&bytes[..]) {
            if k2.fingerprint().as_bytes() != &pfp[..]
                || k2.secret_subkeys.iter().zip(cert.secret_subkeys.iter()).any(|(a, b)| a.key.fingerprint() != b.key.fingerprint())
            {
                o.push("C13:fingerprint-changes-on-reparse", "generated certificate".to_string());
            }
        }
    }
    o
}

#[derive(Clone, Debug, Hash, Serialize, Deserialize)]
pub struct OpsCase {
    pub signers: Vec<KeyKind>,
}

fn run_ops(c: &OpsCase) -> Outcome {
    let cfg = MsgCfg {
        source: 0,
        compression: 0,
        enc: Enc::None,
        esks: vec![],
        signers: c.signers.iter().map(|k| (*k, 1u8)).collect(),
        text: false,
        armor: false,
        checksum: true,
        partial_exp: 9,
    };
    // distinct keys per signer position: msg::build uses cert(kind, 1) for every signer, so
    // repeated kinds would be the same key; the case list uses distinct kinds only
    let bytes = match msg::build_vec(&cfg, b"payload", 5) {
        Ok(b) => b,
        Err(e) => return Outcome::bad("C13:ops:build-error", e.to_string()),
    };
    let Ok(ps) = codec::split_packets(&bytes) else {
        return Outcome::bad("C13:ops:unsplittable", String::new());
    };
    let ops: Vec<&(u8, Vec<u8>, Vec<u8>)> = ps.iter().filter(|p| p.0 == 4).collect();
    let sigs: Vec<&(u8, Vec<u8>, Vec<u8>)> = ps.iter().filter(|p| p.0 == 2).collect();
    let n = c.signers.len();
    let mut o = Outcome::ok("ops-issuers-match");
    if ops.len() != n || sigs.len() != n {
        o.push("C13:ops:packet-count", format!("{} OPS, {} signatures for {n} signers", ops.len(), sigs.len()));
        return o;
    }
    for i in 0..n {
        // the i-th one-pass packet brackets the (n-1-i)-th signature packet
        let ops_body = &ops[i].2;
        let sig_body = &sigs[n - 1 - i].2;
        let Ok(d) = codec::decode_packet(4, ops_body) else {
            o.push("C13:ops:undecodable", String::new());
            continue;
        };
        let ops_id: Vec<u8> = sub_field(ops_body, &d, Kind::Fingerprint)
            .or_else(|| sub_field(ops_body, &d, Kind::KeyId))
            .map(|x| x.to_vec())
            .unwrap_or_default();
        let (kids, fps, _) = issuer_subpackets(sig_body);
        let sig_fp: Vec<u8> = fps.first().map(|f| f[1..].to_vec()).unwrap_or_default();
        // which signer key made this signature?
        let signer = c.signers.iter().map(|k| common::cert(*k, 1)).find(|cert| cert.primary_key.fingerprint().as_bytes() == &sig_fp[..]);
        let Some(signer) = signer else {
            o.push("C13:ops:signature-issuer-unknown", hex::encode(&sig_fp));
            continue;
        };
        let want: Vec<u8> = if ops_id.len() == 8 {
            signer.primary_key.legacy_key_id().as_ref().to_vec()
        } else {
            signer.primary_key.fingerprint().as_bytes().to_vec()
        };
        if ops_id != want {
            o.push(
                "C13:ops:issuer-is-not-the-key-of-the-bracketed-signature",
                format!("{n} signers, one-pass packet {i}: carries {}, its signature was made by {}", hex::encode(&ops_id), hex::encode(&want)),
            );
        }
        let _ = kids;
    }
    o
}

#[derive(Clone, Debug, Hash, Serialize, Deserialize)]
pub struct MsgEskCase {
    /// recipients in the order they are added: (key, anonymous)
    pub recipients: Vec<(KeyKind, bool)>,
    pub v2: bool,
}

fn run_msg_esk(c: &MsgEskCase) -> Outcome {
    let cfg = MsgCfg {
        source: 0,
        compression: 0,
        enc: if c.v2 { Enc::V2(7, 2, 0) } else { Enc::V1(7) },
        esks: c.recipients.iter().map(|(k, a)| EskSpec::Key(*k, *a)).collect(),
        signers: vec![],
        text: false,
        armor: false,
        checksum: true,
        partial_exp: 9,
    };
    let bytes = match msg::build_vec(&cfg, b"payload", 6) {
        Ok(b) => b,
        Err(e) => return Outcome::bad("C13:esk:build-error", e.to_string()),
    };
    let Ok(ps) = codec::split_packets(&bytes) else {
        return Outcome::bad("C13:esk:unsplittable", String::new());
    };
    let pkesks: Vec<&(u8, Vec<u8>, Vec<u8>)> = ps.iter().filter(|p| p.0 == 1).collect();
    let mut o = Outcome::ok(format!("{} recipients", c.recipients.len()));
    if pkesks.len() != c.recipients.len() {
        o.push("C13:esk:pkesk-count", format!("{} PKESK packets for {} recipients", pkesks.len(), c.recipients.len()));
        return o;
    }
    // the order of the PKESK packets is the library's choice: compare as multisets
    let mut want: Vec<Vec<u8>> = Vec::new();
    for (kind, anonymous) in &c.recipients {
        let cert = common::cert(*kind, 3);
        let sub = &cert.secret_subkeys[0].key;
        want.push(match (c.v2, *anonymous) {
            (true, true) => vec![],
            (true, false) => sub.fingerprint().as_bytes().to_vec(),
            (false, true) => vec![0u8; 8],
            (false, false) => sub.legacy_key_id().as_ref().to_vec(),
        });
    }
    let mut got: Vec<Vec<u8>> = Vec::new();
    for p in &pkesks {
        let Ok(d) = codec::decode_packet(1, &p.2) else {
            o.push("C13:esk:undecodable", String::new());
            return o;
        };
        let kind = if c.v2 { Kind::Fingerprint } else { Kind::KeyId };
        got.push(sub_field(&p.2, &d, kind).map(|x| x.to_vec()).unwrap_or_default());
    }
    let show = |v: &Vec<Vec<u8>>| v.iter().map(hex::encode).collect::<Vec<_>>().join(",");
    let (mut ws, mut gs) = (want.clone(), got.clone());
    ws.sort();
    gs.sort();
    if ws != gs {
        let wild = |v: &Vec<Vec<u8>>| v.iter().filter(|x| x.is_empty() || x.iter().all(|b| *b == 0)).count();
        let sig = if wild(&ws) != wild(&gs) {
            if c.v2 { "C13:esk:anonymous-v6-carries-fingerprint" } else { "C13:esk:anonymous-v3-key-id-not-wildcard" }
        } else if c.v2 {
            "C13:esk:v6-recipient-fingerprint-differs"
        } else {
            "C13:esk:v3-recipient-key-id-differs"
        };
        o.push(sig, format!("recipient fields [{}] for recipients [{}] (in the order added)", show(&got), show(&want)));
    }
    o
}

#[derive(Clone, Debug, Hash, Serialize, Deserialize)]
pub struct CertRecipientCase {
    pub kind: KeyKind,
    pub v2: bool,
}

/// A whole certificate handed to `encrypt_to_key`: refused, or the PKESK names a component key
/// of that certificate, carries that key's algorithm, and that key opens it.
fn run_cert_recipient(c: &CertRecipientCase) -> Outcome {
    use pgp::composed::{Message, MessageBuilder};
    use pgp::crypto::{aead::{AeadAlgorithm, ChunkSize}, sym::SymmetricKeyAlgorithm};
    use std::io::Read;
    let cert = common::cert(c.kind, 3);
    let public = cert.to_public_key();
    let b0 = MessageBuilder::from_bytes("", b"to a certificate".to_vec());
    let built = if c.v2 {
        let mut b = b0.seipd_v2(crate::engine::rng(8), SymmetricKeyAlgorithm::AES128, AeadAlgorithm::Ocb, ChunkSize::default());
        match b.encrypt_to_key(crate::engine::rng(9), &public).map(|_| ()) {
            Ok(()) => b.to_vec(crate::engine::rng(10)),
            Err(e) => Err(e),
        }
    } else {
        let mut b = b0.seipd_v1(crate::engine::rng(8), SymmetricKeyAlgorithm::AES128);
        match b.encrypt_to_key(crate::engine::rng(9), &public).map(|_| ()) {
            Ok(()) => b.to_vec(crate::engine::rng(10)),
            Err(e) => Err(e),
        }
    };
    let bytes = match built {
        Ok(b) => b,
        // a certificate whose primary key cannot encrypt is not a recipient
        Err(_) => return Outcome::ok("refused"),
    };
    let mut o = Outcome::ok("names-the-key-it-encrypted-to");
    let Ok(ps) = codec::split_packets(&bytes) else {
        return Outcome::bad("C13:esk:unsplittable", String::new());
    };
    let Some(p) = ps.iter().find(|p| p.0 == 1) else {
        return Outcome::bad("C13:esk:no-pkesk", String::new());
    };
    let Ok(d) = codec::decode_packet(1, &p.2) else {
        return Outcome::bad("C13:esk:undecodable", String::new());
    };
    let named: Vec<u8> = sub_field(&p.2, &d, if c.v2 { Kind::Fingerprint } else { Kind::KeyId }).map(|x| x.to_vec()).unwrap_or_default();
    let alg = sub_field(&p.2, &d, Kind::PkAlg).and_then(|x| x.first().copied());
    // component keys: (id as the PKESK version writes it, algorithm octet)
    let mut comps: Vec<(Vec<u8>, u8)> = Vec::new();
    let id_of = |fp: &pgp::types::Fingerprint, kid: pgp::types::KeyId| if c.v2 { fp.as_bytes().to_vec() } else { kid.as_ref().to_vec() };
    comps.push((id_of(&public.primary_key.fingerprint(), public.primary_key.legacy_key_id()), u8::from(public.primary_key.algorithm())));
    for sk in &public.public_subkeys {
        comps.push((id_of(&sk.key.fingerprint(), sk.key.legacy_key_id()), u8::from(sk.key.algorithm())));
    }
    match comps.iter().find(|(id, _)| *id == named) {
        None => o.push("C13:esk:certificate-recipient:names-no-key-of-the-certificate", format!("{c:?}: {}", hex::encode(&named))),
        Some((_, a)) => {
            if alg != Some(*a) {
                o.push("C13:esk:certificate-recipient:algorithm-is-not-the-named-key's", format!("{c:?}: PKESK algorithm {alg:?}, the key it names has algorithm {a}"));
            }
        }
    }
    // the certificate's secret half opens it
    let opened = Message::from_bytes(&bytes[..]).map_err(|e| e.to_string()).and_then(|m| m.decrypt(&Password::empty(), &cert).map_err(|e| e.to_string())).and_then(|mut m| {
        let mut out = Vec::new();
        m.read_to_end(&mut out).map_err(|e| e.to_string())?;
        Ok(out)
    });
    match opened {
        Ok(data) if data == b"to a certificate" => {}
        other => o.push("C13:esk:certificate-recipient:named-key-does-not-open-the-message", format!("{c:?}: {:?}", other.map(|d| d.len()))),
    }
    o
}

pub fn check(ctx: &Ctx) {
    // the former thorough bounds take seconds: they are the quick tier now; `deep` = thorough
    let _quick = false;
    #[allow(unused_variables)]
    let deep = ctx.tier == Tier::Thorough;
    // reference hash self-test (the codec carries its own SHA-1 / SHA-256 / MD5)
    use sha1::Digest;
    for m in [&b""[..], b"abc", &[0x61u8; 1000][..]] {
        if codec::sha1(m)[..] != sha1::Sha1::digest(m)[..]
            || codec::sha256(m)[..] != sha2::Sha256::digest(m)[..]
            || codec::md5(m)[..] != md5::Md5::digest(m)[..]
        {
            eprintln!("MACHINERY: reference hash functions disagree with the RustCrypto crates");
            std::process::exit(2);
        }
    }
    // fixture corpus
    let mut files = Vec::new();
    walk(Path::new("/repo/tests"), &mut files);
    let mut fc = Vec::new();
    for f in &files {
        if let Some(stream) = fixture_stream(f) {
            if let Ok(ps) = codec::split_packets(&stream) {
                for (i, (tag, _, _)) in ps.iter().enumerate() {
                    if matches!(tag, 5 | 6 | 7 | 14) {
                        fc.push(FixtureCase {
                            file: f.to_string_lossy().to_string(),
                            index: i,
                        });
                    }
                }
            }
        }
    }
    if fc.len() < 100 {
        eprintln!("MACHINERY: fixture corpus under /repo/tests not found ({} key packets)", fc.len());
        std::process::exit(2);
    }
    for k in [KeyKind::EcdsaP256V4, KeyKind::EcdsaP384V4, KeyKind::EcdsaP521V4, KeyKind::EcdsaK256V4] {
        common::cert(k, 1);
    }
    for (desc, framed) in synthetic_curve_keys() {
        fc.push(FixtureCase { file: format!("synthetic:{desc}:{}", hex::encode(framed)), index: 0 });
    }
    ctx.run_space(
        "fixture_keys",
        true,
        "every key packet (tags 5,6,7,14) of every OpenPGP file under /repo/tests that the library parses, plus key packets assembled by the harness for ECDSA and ECDH on every named curve (P-256/384/521, secp256k1, brainpoolP256r1/P384r1/P512r1) x v4/v6 x primary/subkey: fingerprint and key id = reference value computed from the wire bytes of the public part (v4 SHA-1/0x99, v6 SHA-256/0x9B, v3 MD5 over MPI values; canonical encodings only), identical for the secret packet and its public half, unchanged after re-serialisation and re-parsing",
        fc.into_par_iter(),
        run_fixture,
    );

    let kinds = [
        KeyKind::Ed25519V4,
        KeyKind::Ed25519V6,
        KeyKind::Ed25519LegacyV4,
        KeyKind::Ed448V6,
        KeyKind::EcdsaP256V4,
        KeyKind::EcdsaP256V6,
        KeyKind::EcdsaP384V4,
        KeyKind::EcdsaP521V4,
        KeyKind::EcdsaK256V4,
        KeyKind::Rsa2048V4,
    ];
    let mut gc = Vec::new();
    for k in kinds {
        let seeds: u64 = if k == KeyKind::Rsa2048V4 { if deep { 8 } else { 2 } } else if deep { 12_000 } else { 300 };
        for seed in 0..seeds {
            gc.push(GenCase { kind: k, seed: 500 + seed });
        }
    }
    ctx.run_space(
        "generated_keys",
        true,
        "generated certificates of 10 key kinds x seeds (300 / 12000, RSA 2 / 8; P-521 and legacy EdDSA yield leading-zero MPIs regularly): primary and subkey fingerprints / key ids = reference value; all wrappers agree; issuer subpackets of self-signatures and bindings name the primary, those of the embedded back signature name the subkey; a data signature made through each signing entry point that chooses issuer subpackets itself (detached binary / text, cleartext framework, MessageBuilder::sign) embeds the signer's fingerprint (with the right version octet) and key id (v4 only) and match_identity selects exactly the signer; PKESK v3 key id / v6 fingerprint name the encryption subkey and match_identity selects exactly it",
        gc.into_par_iter(),
        run_generated,
    );

    let mut oc = Vec::new();
    let v4 = [KeyKind::Ed25519V4, KeyKind::EcdsaP256V4, KeyKind::Ed25519LegacyV4];
    let v6 = [KeyKind::Ed25519V6, KeyKind::EcdsaP256V6, KeyKind::Ed448V6];
    for set in [&v4[..], &v6[..]] {
        for n in 1..=3usize {
            // all ordered selections of n distinct signers
            fn perms(pool: &[KeyKind], n: usize, cur: &mut Vec<KeyKind>, out: &mut Vec<Vec<KeyKind>>) {
                if cur.len() == n {
                    out.push(cur.clone());
                    return;
                }
                for k in pool {
                    if !cur.contains(k) {
                        cur.push(*k);
                        perms(pool, n, cur, out);
                        cur.pop();
                    }
                }
            }
            let mut out = Vec::new();
            perms(set, n, &mut Vec::new(), &mut out);
            for signers in out {
                oc.push(OpsCase { signers });
            }
        }
    }
    oc.push(OpsCase { signers: vec![KeyKind::Ed25519V4, KeyKind::Ed25519V6] });
    oc.push(OpsCase { signers: vec![KeyKind::Ed25519V6, KeyKind::Ed25519V4, KeyKind::EcdsaP256V6] });
    ctx.run_space(
        "one_pass_issuers",
        true,
        "messages signed by every ordered selection of 1..3 distinct signers (v4 set, v6 set, mixed): each one-pass packet carries the key id (v3 OPS) / fingerprint (v6 OPS) of the key that made the signature packet it brackets",
        oc.into_par_iter(),
        run_ops,
    );

    let mut ec = Vec::new();
    let v4k = [KeyKind::Ed25519V4, KeyKind::Ed25519LegacyV4, KeyKind::EcdsaP256V4, KeyKind::EcdsaP521V4, KeyKind::Rsa2048V4];
    let v6k = [KeyKind::Ed25519V6, KeyKind::Ed448V6, KeyKind::EcdsaP256V6];
    // (v6 keys are also addressed by version 3 PKESK packets, in front of a SEIPDv1 container)
    for (keys, v2) in [(&v4k[..], false), (&v6k[..], true), (&v6k[..], false)] {
        for k in keys {
            for anonymous in [false, true] {
                ec.push(MsgEskCase { recipients: vec![(*k, anonymous)], v2 });
            }
        }
        // two and three recipients (distinct keys), every named / anonymous pattern
        let pool = &keys[..3];
        for n in [2usize, 3] {
            for first in 0..pool.len() {
                for mask in 0..(1u32 << n) {
                    let recipients = (0..n).map(|i| (pool[(first + i) % pool.len()], mask & (1 << i) != 0)).collect();
                    ec.push(MsgEskCase { recipients, v2 });
                }
            }
        }
    }
    ctx.run_space(
        "message_recipient_fields",
        true,
        "MessageBuilder encrypt_to_key / encrypt_to_key_anonymous for each public-key algorithm (v6 keys behind v6 and behind v3 PKESK packets) and for 2 and 3 recipients in every named / anonymous pattern: the i-th PKESK carries the i-th recipient subkey's key id (v3) / fingerprint (v6), or the wildcard / empty form",
        ec.into_par_iter(),
        run_msg_esk,
    );
    let mut cr = Vec::new();
    for kind in [KeyKind::Ed25519V4, KeyKind::Ed25519LegacyV4, KeyKind::EcdsaP256V4, KeyKind::EcdsaP521V4, KeyKind::Rsa2048V4, KeyKind::Ed25519V6, KeyKind::Ed448V6, KeyKind::EcdsaP256V6, KeyKind::Rsa2048V6] {
        for v2 in [false, true] {
            cr.push(CertRecipientCase { kind, v2 });
        }
    }
    ctx.run_space(
        "certificates_as_recipients",
        true,
        "a whole certificate (SignedPublicKey) handed to MessageBuilder::encrypt_to_key, 9 key kinds x SEIPDv1 / SEIPDv2: either refused, or the PKESK names a component key of the certificate, carries that key's algorithm, and the certificate's secret half opens the message",
        cr.into_par_iter(),
        run_cert_recipient,
    );
    ctx.assume("for non-canonical MPI encodings only stability is demanded: the library hashes its own re-serialisation while the RFC hashes the wire octets");
}

pub fn replay(space: &str, case: &Value) -> Option<Outcome> {
    match space {
        "fixture_keys" => replay_as(case, run_fixture),
        "generated_keys" => replay_as(case, run_generated),
        "one_pass_issuers" => replay_as(case, run_ops),
        "message_recipient_fields" => replay_as(case, run_msg_esk),
        "certificates_as_recipients" => replay_as(case, run_cert_recipient),
        _ => None,
    }
}
