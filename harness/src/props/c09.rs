//! C09 — streaming is transparent: results independent of I/O fragmentation and faults.
//!
//! E1 `ioexplore` over the real builder / reader stacks: every source read, sink write / flush and
//! consumer call is a choice point; executions are enumerated with a bounded number of deviations
//! from the default answers plus uniform adversarial schedules, with one injected fault per run.

use std::{
    io::{BufReader, Read},
    sync::Arc,
};

use pgp::{
    armor,
    base64::{Base64Decoder, Base64Reader},
    composed::{CleartextSignedMessage, DetachedSignature, Message},
    crypto::{hash::HashAlgorithm, sym::SymmetricKeyAlgorithm},
    packet::{Packet, PacketParser, PacketTrait},
    ser::Serialize as _,
    types::Password,
};
use rayon::prelude::*;
use serde::{Deserialize, Serialize};
use serde_json::Value;

use crate::{
    common::{
        self,
        msg::{self, Enc, EskSpec, MsgCfg},
        KeyKind,
    },
    engine::{
        io::{
            self as eio, Consumer, Explore, ExploreStats, Script, ScriptedReader, ScriptedWriter,
            SinkOpts, SrcOpts,
        },
        replay_as, Ctx, Outcome, Tier,
    },
    reference::armor as armor_model,
};

#[derive(Clone, Debug, Hash, Serialize, Deserialize)]
pub struct Sched {
    /// maximum deviations from the default answers
    pub max_dev: usize,
    /// default answer of the source limited to this many bytes per call
    pub uniform: Option<usize>,
    pub faults: bool,
    /// injected errors are transient (returned once) instead of sticky
    #[serde(default)]
    pub transient: bool,
    /// injected errors are `ErrorKind::Interrupted` (returned once; the consumer repeats the call):
    /// the result is the fault-free one or an error, never a clean different result
    #[serde(default)]
    pub interrupt: bool,
    /// capacity of the BufReader between the scripted source and the subject (reader side)
    pub cap: usize,
    pub consumer: Consumer,
}

fn bounds(s: &Sched, horizon: usize) -> Explore {
    Explore {
        max_dev: s.max_dev,
        max_runs: 3_000_000,
        prune: false,
        horizon,
    }
}

/// Generic reader-side exploration: `run` gets the scripted source and must return the complete
/// observation or the first error.  Oracle: without a fault the observation equals `want`; with an
/// injected fault the result is an error.
fn explore_reader<O: PartialEq + std::fmt::Debug>(
    name: &str,
    input: Arc<Vec<u8>>,
    s: &Sched,
    boundaries: &[usize],
    want: &O,
    run: impl Fn(ScriptedReader, &Script) -> Result<O, String>,
) -> Outcome {
    let horizon = 16 * input.len() + 4096;
    let mut viol: Option<(String, String)> = None;
    let stats: ExploreStats = eio::explore(
        bounds(s, horizon),
        |script| {
            let src = ScriptedReader::new(
                input.clone(),
                script.clone(),
                SrcOpts {
                    faults: s.faults,
                    transient: s.transient,
                    interrupt: s.interrupt,
                    boundaries: boundaries.to_vec(),
                    uniform: s.uniform,
                    ..Default::default()
                },
            );
            crate::engine::guarded(|| run(src, script))
        },
        |script, res| {
            let sched = || {
                let t = script.trace();
                let ss = eio::schedule_string(&t);
                if ss.len() > 300 {
                    format!("{} ... ({} points)", &ss[..300], t.len())
                } else {
                    ss
                }
            };
            match res {
                Err((loc, msg)) => {
                    viol = Some((
                        format!("C09:{name}:panic@{}", crate::engine::loc_file(&loc)),
                        format!("panic at {loc}: {msg}; schedule {}", sched()),
                    ));
                    false
                }
                Ok(r) => {
                    if script.horizon_hit() {
                        viol = Some((
                            format!("C09:{name}:livelock"),
                            format!("horizon hit; schedule {}", sched()),
                        ));
                        return false;
                    }
                    if script.fault_injected() && s.interrupt {
                        // an interrupted read is repeated (by std's helpers inside the library, or
                        // by the consumer): the fault-free result, or the interruption passed on
                        match &r {
                            Ok(o) if o == want => true,
                            // the interruption (or the error state it leaves behind) is reported
                            Err(_) => true,
                            other => {
                                let d = format!("{other:?}");
                                viol = Some((
                                    format!("C09:{name}:interrupted-read-changes-the-result"),
                                    format!("one read of the source was interrupted (ErrorKind::Interrupted, nothing consumed) and the result is {} ; schedule {}", &d[..d.len().min(300)], sched()),
                                ));
                                false
                            }
                        }
                    } else if script.fault_injected() {
                        if let Ok(o) = &r {
                            let how = if o == want { "complete" } else { "shorter-or-different" };
                            viol = Some((
                                format!("C09:{name}:source-error-swallowed:{how}-result"),
                                format!(
                                    "the source returned an I/O error but the operation succeeded ({how} result); schedule {}",
                                    sched()
                                ),
                            ));
                            return false;
                        }
                        true
                    } else {
                        match r {
                            Ok(o) if &o == want => true,
                            Ok(o) => {
                                let d = format!("{o:?}");
                                viol = Some((
                                    format!("C09:{name}:result-depends-on-schedule"),
                                    format!(
                                        "observation differs from the reference: {} ; schedule {}",
                                        &d[..d.len().min(300)],
                                        sched()
                                    ),
                                ));
                                false
                            }
                            Err(e) => {
                                viol = Some((
                                    format!("C09:{name}:error-depends-on-schedule"),
                                    format!("fails with \"{e}\" under schedule {}", sched()),
                                ));
                                false
                            }
                        }
                    }
                }
            }
        },
    );
    finish(stats, viol)
}

fn finish(stats: ExploreStats, viol: Option<(String, String)>) -> Outcome {
    let mut o = Outcome::ok("schedule-independent");
    o.evals = stats.runs;
    o.transitions = stats.points;
    if stats.cap_hit {
        o.class = "cap-hit".into();
    }
    if let Some(d) = stats.diverged {
        o.push("MACHINERY:replay-divergence", d);
    }
    if let Some((s, w)) = viol {
        o.push(s, w);
    }
    o
}

// ---------------------------------------------------------------------------------------------
// reader side: Message

#[derive(Clone, Debug, Hash, Serialize, Deserialize)]
pub struct MsgReadCase {
    pub cfg: MsgCfg,
    pub n: usize,
    pub sched: Sched,
    /// a second message follows the first on the stream: every way of consuming the first must
    /// end in the same error
    #[serde(default)]
    pub trailing: bool,
    /// what follows the message when `trailing`: 0 the message once more; 1 a Marker packet and
    /// the message once more; 2 a Padding packet and a literal packet; 3 a Marker packet, a
    /// Padding packet and one stray octet
    #[serde(default)]
    pub trail_kind: u8,
}

#[derive(Debug, PartialEq, Eq, Clone)]
struct MsgObs {
    data: Vec<u8>,
    binary: bool,
    sig_valid: Vec<bool>,
}

fn read_message(
    cfg: &MsgCfg,
    seed: u64,
    src: ScriptedReader,
    cap: usize,
    consumer: Consumer,
    script: &Script,
) -> Result<MsgObs, String> {
    let br = BufReader::with_capacity(cap, src);
    let m = if cfg.armor {
        Message::from_armor(br).map_err(|e| format!("from_armor: {e}"))?.0
    } else {
        Message::from_bytes(br).map_err(|e| format!("from_bytes: {e}"))?
    };
    let mut m = msg::open(cfg, m, seed, false).map_err(|e| format!("open: {e}"))?;
    let c = match consumer {
        Consumer::BufScripted => eio::consume_bufread(&mut m, script),
        other => eio::consume(&mut m, other, script, false, |_, _| {}),
    };
    if let Some(e) = c.err {
        return Err(format!("read: {e}"));
    }
    let hdr = m.literal_data_header().ok_or("no literal header")?;
    let binary = hdr.mode() == pgp::packet::DataMode::Binary;
    let certs: Vec<_> = cfg.signers.iter().map(|(k, _)| common::cert(*k, 1)).collect();
    let mut sig_valid = Vec::new();
    for (i, c) in certs.iter().enumerate() {
        // signatures are stored in reverse order of the one-pass packets
        let ok = (0..certs.len()).any(|j| {
            m.verify_nested_explicit(j, &c.primary_key.public_key()).is_ok()
        });
        let _ = i;
        sig_valid.push(ok);
    }
    Ok(MsgObs {
        data: c.out,
        binary,
        sig_valid,
    })
}

fn run_msg_read(c: &MsgReadCase) -> Outcome {
    let payload = msg::payload(c.n, c.cfg.text);
    let seed = 9000 + c.n as u64;
    let bytes = match msg::build_vec(&c.cfg, &payload, seed) {
        Ok(mut b) => {
            if c.cfg.armor && c.n % 2 == 1 {
                // the same armor with CR LF line endings
                let mut t = Vec::with_capacity(b.len() + b.len() / 60);
                for &x in &b {
                    if x == b'\n' {
                        t.push(b'\r');
                    }
                    t.push(x);
                }
                b = t;
            }
            if c.trailing {
                let again = b.clone();
                let marker = crate::reference::frame::frame_min(10, b"PGP");
                let padding = crate::reference::frame::frame_min(21, &[0x5A; 6]);
                match c.trail_kind {
                    0 => b.extend_from_slice(&again),
                    1 => {
                        b.extend_from_slice(&marker);
                        b.extend_from_slice(&again);
                    }
                    2 => {
                        b.extend_from_slice(&padding);
                        b.extend_from_slice(&crate::reference::frame::frame_min(11, b"b\0\0\0\0\0appended"));
                    }
                    _ => {
                        b.extend_from_slice(&marker);
                        b.extend_from_slice(&padding);
                        b.push(0x00);
                    }
                }
            }
            Arc::new(b)
        }
        Err(e) => return Outcome::bad("C09:msg-read:build-error", e.to_string()),
    };
    let error_obs = || MsgObs { data: b"<error>".to_vec(), binary: false, sig_valid: vec![] };
    let want = if c.trailing {
        error_obs()
    } else {
        MsgObs {
            data: payload,
            binary: !c.cfg.text,
            sig_valid: vec![true; c.cfg.signers.len()],
        }
    };
    let cfg = c.cfg.clone();
    if c.trailing {
        return explore_reader(
            "message-with-trailing-data",
            bytes,
            &c.sched,
            &[512, 8192, 64 + 16],
            &want,
            |src, script| match read_message(&cfg, seed, src, c.sched.cap, c.sched.consumer, script) {
                // the reference outcome is an error whichever way the data is asked for
                Err(_) if !script.fault_injected() => Ok(error_obs()),
                r => r,
            },
        );
    }
    explore_reader(
        if c.cfg.armor { "message-from-armor" } else { "message-from-bytes" },
        bytes,
        &c.sched,
        &[512, 8192, 64 + 16],
        &want,
        |src, script| read_message(&cfg, seed, src, c.sched.cap, c.sched.consumer, script),
    )
}

// ---------------------------------------------------------------------------------------------
// builder side

#[derive(Clone, Debug, Hash, Serialize, Deserialize)]
pub struct BuildCase {
    pub cfg: MsgCfg,
    pub n: usize,
    pub sched: Sched,
    pub short_writes: bool,
}

fn run_build(c: &BuildCase) -> Outcome {
    let payload = Arc::new(msg::payload(c.n, c.cfg.text));
    let seed = 7000 + c.n as u64;
    let mut cfg = c.cfg.clone();
    cfg.source = 1;
    // reference: plain in-memory run
    let want = match {
        let mut out = Vec::new();
        msg::build(&cfg, &payload[..], None, &mut out, seed).map(|_| out)
    } {
        Ok(b) => b,
        Err(e) => return Outcome::bad("C09:builder:build-error", e.to_string()),
    };
    let horizon = 16 * (payload.len() + want.len()) + 4096;
    let mut viol: Option<(String, String)> = None;
    let stats = eio::explore(
        bounds(&c.sched, horizon),
        |script| {
            let src = ScriptedReader::new(
                payload.clone(),
                script.clone(),
                SrcOpts {
                    faults: c.sched.faults,
                    transient: c.sched.transient,
                    interrupt: c.sched.interrupt,
                    boundaries: vec![512, 506, 8192],
                    uniform: c.sched.uniform,
                    ..Default::default()
                },
            );
            let sink = ScriptedWriter::new(
                script.clone(),
                SinkOpts {
                    faults: c.sched.faults,
                    short_writes: c.short_writes,
                    transient: c.sched.transient,
                    interrupt: c.sched.interrupt,
                },
            );
            let handle = sink.handle();
            let r = crate::engine::guarded(|| {
                msg::build(&cfg, src, None, sink, seed).map_err(|e| e.to_string())
            });
            let out = handle.lock().unwrap().clone();
            (r, out)
        },
        |script, (r, out)| {
            let sched = || {
                let t = script.trace();
                let ss = eio::schedule_string(&t);
                if ss.len() > 300 {
                    format!("{} ... ({} points)", &ss[..300], t.len())
                } else {
                    ss
                }
            };
            let name = if cfg.armor { "builder-armored" } else { "builder" };
            match r {
                Err((loc, msg)) => {
                    viol = Some((
                        format!("C09:{name}:panic@{}", crate::engine::loc_file(&loc)),
                        format!("panic at {loc}: {msg}; schedule {}", sched()),
                    ));
                    false
                }
                Ok(res) => {
                    if script.horizon_hit() {
                        viol = Some((format!("C09:{name}:livelock"), sched()));
                        return false;
                    }
                    if script.fault_injected() && c.sched.interrupt {
                        // an interrupted read / write / flush is repeated by std's helpers: the
                        // complete output, or an error - never Ok with another output
                        if res.is_ok() && out != want {
                            viol = Some((
                                format!("C09:{name}:interrupted-call-changes-the-output"),
                                format!("one call of the source or sink answered ErrorKind::Interrupted and the builder returned Ok with {} octets that differ from the {} of the reference; schedule {}", out.len(), want.len(), sched()),
                            ));
                            return false;
                        }
                        true
                    } else if script.fault_injected() {
                        if res.is_ok() {
                            let which = if script
                                .trace()
                                .iter()
                                .any(|p| matches!(p.kind, eio::Kind::SinkWrite | eio::Kind::SinkFlush) && p.chosen == p.n - 1 && p.n > 1)
                            {
                                "sink"
                            } else {
                                "source"
                            };
                            let how = if out == want { "complete" } else { "truncated" };
                            viol = Some((
                                format!("C09:{name}:{which}-error-swallowed:{how}-output"),
                                format!(
                                    "an injected {which} error did not surface: the builder returned Ok with {} of {} output bytes; schedule {}",
                                    out.len(),
                                    want.len(),
                                    sched()
                                ),
                            ));
                            return false;
                        }
                        true
                    } else if let Err(e) = res {
                        viol = Some((
                            format!("C09:{name}:error-depends-on-schedule"),
                            format!("fails with \"{e}\" under schedule {}", sched()),
                        ));
                        false
                    } else if out != want {
                        let at = out
                            .iter()
                            .zip(want.iter())
                            .position(|(a, b)| a != b)
                            .unwrap_or(out.len().min(want.len()));
                        viol = Some((
                            format!("C09:{name}:output-depends-on-schedule"),
                            format!(
                                "output ({} bytes) differs from the reference ({} bytes) at byte {at}; schedule {}",
                                out.len(),
                                want.len(),
                                sched()
                            ),
                        ));
                        false
                    } else {
                        true
                    }
                }
            }
        },
    );
    finish(stats, viol)
}

// ---------------------------------------------------------------------------------------------
// small components fed directly

#[derive(Clone, Debug, Hash, Serialize, Deserialize)]
pub struct SmallCase {
    /// 0 base64 reader+decoder, 1 packet parser over a certificate, 2 Signature::verify(reader)
    /// binary, 3 Signature::verify(reader) text, 4 cleartext from_armor, 5 CFB stream encryptor,
    /// 6 armor::write to a scripted sink, 7 detached signing from a scripted source (text)
    pub subject: u8,
    pub n: usize,
    pub sched: Sched,
    /// all compositions of the input (full menus, unbounded deviations)
    pub all_compositions: bool,
}

fn small_name(s: u8) -> &'static str {
    [
        "base64-decoder",
        "packet-parser",
        "signature-verify-binary",
        "signature-verify-text",
        "cleartext-from-armor",
        "cfb-stream-encryptor",
        "armor-write",
        "detached-sign-text",
    ][s as usize]
}

fn text_payload(n: usize) -> Vec<u8> {
    // lines of varying length with LF, CRLF and lone CR
    let mut out = Vec::with_capacity(n);
    let mut i = 0usize;
    while out.len() < n {
        let b = match i % 23 {
            5 => b'\n',
            11 => b'\r',
            12 => b'\n',
            17 => b'\r',
            _ => b'a' + (i % 7) as u8,
        };
        out.push(b);
        i += 1;
    }
    out
}

fn run_small(c: &SmallCase) -> Outcome {
    let name = small_name(c.subject);
    let cert = common::cert(KeyKind::Ed25519V4, 1);
    let key = &cert.primary_key;
    let pubkey = key.public_key();
    let mut sched = c.sched.clone();
    if c.all_compositions {
        sched.max_dev = usize::MAX;
    }
    match c.subject {
        0 => {
            let data = crate::props::c10::pattern(c.n, 2);
            let mut text = armor_model::body_lines(&data, b"\n");
            text.extend_from_slice(b"=AAAA\n-----END");
            let input = Arc::new(text);
            let want = data;
            explore_small(name, input, &sched, c.all_compositions, &[4, 65], &want, |src, script| {
                let br = BufReader::with_capacity(sched.cap, src);
                let mut d = Base64Decoder::new(Base64Reader::new(br));
                let r = eio::consume(&mut d, sched.consumer, script, true, |_, _| {});
                match r.err {
                    Some(e) => Err(e),
                    None => Ok(r.out),
                }
            })
        }
        1 => {
            let bytes = common::cert(KeyKind::Ed25519V4, 1)
                .to_public_key()
                .to_bytes()
                .expect("cert bytes");
            let want: Vec<Vec<u8>> = PacketParser::new(&bytes[..])
                .map(|p| p.expect("packet").to_bytes().expect("ser"))
                .collect();
            explore_small(name, Arc::new(bytes), &sched, false, &[], &want, |src, _| {
                let br = BufReader::with_capacity(sched.cap, src);
                let mut out = Vec::new();
                for p in PacketParser::new(br) {
                    match p {
                        Ok(p) => out.push(match &p {
                            Packet::PublicKey(_) | Packet::PublicSubkey(_) | Packet::UserId(_) | Packet::Signature(_) => {
                                p.to_bytes().map_err(|e| e.to_string())?
                            }
                            other => return Err(format!("unexpected packet {:?}", other.tag())),
                        }),
                        Err(e) => return Err(e.to_string()),
                    }
                }
                Ok(out)
            })
        }
        2 | 3 => {
            let data = if c.subject == 3 {
                text_payload(c.n)
            } else {
                crate::props::c10::pattern(c.n, 3)
            };
            let sig = if c.subject == 3 {
                DetachedSignature::sign_text_data(crate::engine::rng(1), key, &Password::empty(), HashAlgorithm::Sha256, &data[..])
            } else {
                DetachedSignature::sign_binary_data(crate::engine::rng(1), key, &Password::empty(), HashAlgorithm::Sha256, &data[..])
            }
            .expect("sign");
            explore_small(name, Arc::new(data), &sched, false, &[512, 1024], &(), |src, _| {
                sig.signature.verify(&pubkey, src).map_err(|e| e.to_string())
            })
        }
        4 => {
            let text = String::from_utf8(text_payload(c.n)).expect("ascii");
            // avoid the known lone-CR-at-end case
            let text = text.trim_end_matches('\r').to_string();
            let m = CleartextSignedMessage::sign(crate::engine::rng(2), &text, key, &Password::empty()).expect("sign");
            let doc = m.to_armored_bytes(None.into()).expect("armor");
            let want = (m.text().to_string(), true);
            explore_small(name, Arc::new(doc), &sched, false, &[64, 128], &want, |src, _| {
                let (m2, _) = CleartextSignedMessage::from_armor(src).map_err(|e| e.to_string())?;
                let ok = m2.verify(&pubkey).is_ok();
                Ok((m2.text().to_string(), ok))
            })
        }
        5 => {
            let data = crate::props::c10::pattern(c.n, 3);
            let alg = SymmetricKeyAlgorithm::AES128;
            let keyb = [7u8; 16];
            let mut want = Vec::new();
            alg.stream_encryptor(crate::engine::rng(4), &keyb, &data[..])
                .expect("enc")
                .read_to_end(&mut want)
                .expect("read");
            // independent check of the reference run: it must decrypt
            explore_small(name, Arc::new(data), &sched, false, &[8192], &want, |src, script| {
                let mut e = alg
                    .stream_encryptor(crate::engine::rng(4), &keyb, src)
                    .map_err(|e| e.to_string())?;
                let r = eio::consume(&mut e, sched.consumer, script, false, |_, _| {});
                match r.err {
                    Some(e) => Err(e),
                    None => Ok(r.out),
                }
            })
        }
        6 => {
            // sink side only: armor::write of n bytes
            let data = crate::props::c10::pattern(c.n, 3);
            let want = armor_model::armor("PGP MESSAGE", &[], &data, true, b"\n");
            let horizon = 64 * (c.n + 64) + 4096;
            let mut viol = None;
            let stats = eio::explore(
                bounds(&sched, horizon),
                |script| {
                    let mut sink = ScriptedWriter::new(
                        script.clone(),
                        SinkOpts {
                            faults: sched.faults,
                            short_writes: true,
                            transient: sched.transient,
                            interrupt: sched.interrupt,
                        },
                    );
                    let h = sink.handle();
                    let r = crate::engine::guarded(|| {
                        armor::write(
                            &crate::props::c10::Raw(&data),
                            armor::BlockType::Message,
                            &mut sink,
                            None,
                            true,
                        )
                        .map_err(|e| e.to_string())
                    });
                    let out = h.lock().unwrap().clone();
                    (r, out)
                },
                |script, (r, out)| {
                    let sched_s = eio::schedule_string(&script.trace());
                    match r {
                        Err((loc, m)) => {
                            viol = Some((format!("C09:{name}:panic@{}", crate::engine::loc_file(&loc)), format!("{loc}: {m}")));
                            false
                        }
                        Ok(res) => {
                            if script.fault_injected() && sched.interrupt {
                                if res.is_ok() && out != want {
                                    viol = Some((
                                        format!("C09:{name}:interrupted-call-changes-the-output"),
                                        format!("armor::write returned Ok with {} octets that differ from the {} of the reference after one interrupted write / flush; schedule {sched_s}", out.len(), want.len()),
                                    ));
                                    return false;
                                }
                                true
                            } else if script.fault_injected() {
                                if res.is_ok() {
                                    let how = if out == want { "complete" } else { "truncated" };
                                    viol = Some((
                                        format!("C09:{name}:sink-error-swallowed:{how}-output"),
                                        format!("armor::write returned Ok although the sink failed ({} of {} bytes written); schedule {sched_s}", out.len(), want.len()),
                                    ));
                                    return false;
                                }
                                true
                            } else if res.is_err() || out != want {
                                viol = Some((
                                    format!("C09:{name}:output-depends-on-schedule"),
                                    format!("{res:?}, {} bytes; schedule {sched_s}", out.len()),
                                ));
                                false
                            } else {
                                true
                            }
                        }
                    }
                },
            );
            finish(stats, viol)
        }
        _ => {
            let data = text_payload(c.n);
            let want = DetachedSignature::sign_text_data(crate::engine::rng(1), key, &Password::empty(), HashAlgorithm::Sha256, &data[..])
                .expect("sign")
                .to_bytes()
                .expect("ser");
            explore_small(name, Arc::new(data), &sched, c.all_compositions, &[512, 1024], &want, |src, _| {
                DetachedSignature::sign_text_data(crate::engine::rng(1), key, &Password::empty(), HashAlgorithm::Sha256, src)
                    .map_err(|e| e.to_string())
                    .and_then(|s| s.to_bytes().map_err(|e| e.to_string()))
            })
        }
    }
}

fn explore_small<O: PartialEq + std::fmt::Debug>(
    name: &str,
    input: Arc<Vec<u8>>,
    s: &Sched,
    full_menu: bool,
    boundaries: &[usize],
    want: &O,
    run: impl Fn(ScriptedReader, &Script) -> Result<O, String>,
) -> Outcome {
    if !full_menu {
        return explore_reader(name, input, s, boundaries, want, run);
    }
    // all compositions: full menu, unbounded deviations, no faults
    let horizon = 16 * input.len() + 4096;
    let mut viol = None;
    let stats = eio::explore(
        Explore {
            max_dev: usize::MAX,
            max_runs: 3_000_000,
            prune: false,
            horizon,
        },
        |script| {
            let src = ScriptedReader::new(
                input.clone(),
                script.clone(),
                SrcOpts {
                    full_menu: true,
                    ..Default::default()
                },
            );
            crate::engine::guarded(|| run(src, script))
        },
        |script, r| match r {
            Ok(Ok(o)) if &o == want => true,
            other => {
                let d = format!("{other:?}");
                viol = Some((
                    format!("C09:{name}:result-depends-on-schedule"),
                    format!("{} ; schedule {}", &d[..d.len().min(200)], eio::schedule_string(&script.trace())),
                ));
                false
            }
        },
    );
    finish(stats, viol)
}

// ---------------------------------------------------------------------------------------------

fn cfgs_for_streams() -> Vec<MsgCfg> {
    let mut v = Vec::new();
    for compression in [0u8, 1] {
        for enc in [Enc::None, Enc::V1(7), Enc::V2(7, 2, 0)] {
            for signers in [0usize, 1] {
                for text in [false, true] {
                    for armor in [false, true] {
                        if text && signers == 0 {
                            continue;
                        }
                        v.push(MsgCfg {
                            source: 1,
                            compression,
                            enc,
                            esks: if enc == Enc::None { vec![] } else { vec![EskSpec::Password(0)] },
                            signers: [(KeyKind::Ed25519V4, 0u8)][..signers].to_vec(),
                            text,
                            armor,
                            checksum: true,
                            partial_exp: 9,
                        });
                    }
                }
            }
        }
    }
    v
}

/// File sinks that refuse every write (`/dev/full`: opens, then fails with ENOSPC): the builder's
/// file entry points must report the error, whatever part of the output was still buffered.
#[derive(Clone, Debug, Hash, Serialize, Deserialize)]
pub struct FullSinkCase {
    pub cfg: MsgCfg,
    pub n: usize,
}

fn run_full_sink(c: &FullSinkCase) -> Outcome {
    use std::os::unix::fs::FileTypeExt;
    let path = std::path::Path::new("/dev/full");
    match std::fs::metadata(path) {
        Ok(m) if m.file_type().is_char_device() => {}
        _ => return Outcome::trivial("no /dev/full on this system"),
    }
    let payload = msg::payload(c.n, c.cfg.text);
    match crate::engine::guarded(|| msg::build_file(&c.cfg, &payload, path, 7000 + c.n as u64)) {
        Ok(Err(_)) => Outcome::ok("sink-error-reported"),
        Ok(Ok(())) => Outcome::bad(
            "C09:builder-file-sink:sink-error-swallowed",
            format!("{} of a {}-octet payload onto a device that refuses every write returned Ok(())", if c.cfg.armor { "to_armored_file" } else { "to_file" }, c.n),
        ),
        Err((loc, m)) => Outcome::bad(format!("C09:builder-file-sink:panic@{}", crate::engine::loc_file(&loc)), format!("panic at {loc}: {m}")),
    }
}

pub fn check(ctx: &Ctx) {
    let quick = ctx.tier == Tier::Quick;
    common::cert(KeyKind::Ed25519V4, 1);
    let cfgs = cfgs_for_streams();
    let dev = |max_dev: usize, cap: usize, consumer: Consumer| Sched {
        max_dev,
        uniform: None,
        faults: true,
        transient: false,
        interrupt: false,
        cap,
        consumer,
    };
    // one read of the source is interrupted (ErrorKind::Interrupted) at every call in turn
    let devi = |max_dev: usize, cap: usize, consumer: Consumer| Sched {
        max_dev,
        uniform: None,
        faults: true,
        transient: true,
        interrupt: true,
        cap,
        consumer,
    };
    let devt = |max_dev: usize, cap: usize, consumer: Consumer| Sched {
        max_dev,
        uniform: None,
        faults: true,
        transient: true,
        interrupt: false,
        cap,
        consumer,
    };
    let uni = |u: usize, cap: usize, consumer: Consumer| Sched {
        max_dev: 0,
        uniform: Some(u),
        faults: false,
        transient: false,
        interrupt: false,
        cap,
        consumer,
    };

    // reader side
    let lens: Vec<usize> = if quick {
        vec![0, 1, 2, 63, 64, 65, 505, 506, 507, 511, 512, 513, 1017, 1018, 1019, 1100, 8191, 8192, 8193]
    } else {
        vec![0, 1, 2, 63, 64, 65, 505, 506, 507, 511, 512, 513, 1017, 1018, 1019, 1100, 8191, 8192, 8193, 17000]
    };
    let mut rc = Vec::new();
    for cfg in &cfgs {
        for &n in &lens {
            let mut scheds = vec![
                dev(1, 8192, Consumer::Scripted),
                dev(1, 64, Consumer::ToEnd),
                devt(1, 8192, Consumer::ToEnd),
                devi(1, 8192, Consumer::ToEnd),
                devi(1, 512, Consumer::Fixed(8191)),
                uni(1, 8192, Consumer::ToEnd),
                uni(1, 1, Consumer::Fixed(1)),
                uni(3, 7, Consumer::BufScripted),
                uni(7, 8192, Consumer::Fixed(3)),
            ];
            if !quick || n <= 513 {
                scheds.extend([
                    dev(if n <= 1100 && !(quick && n > 65) { 2 } else { 1 }, 8192, Consumer::Scripted),
                    dev(1, 1, Consumer::Scripted),
                    dev(1, 512, Consumer::BufScripted),
                    uni(2, 8192, Consumer::Scripted),
                    uni(511, 8192, Consumer::Fixed(8191)),
                    uni(513, 513, Consumer::Fixed(511)),
                ]);
            }
            for s in scheds {
                rc.push(MsgReadCase {
                    cfg: cfg.clone(),
                    n,
                    sched: s,
                    trailing: false,
                    trail_kind: 0,
                });
            }
        }
    }
    for cfg in cfgs.iter().filter(|c| c.compression == 0 && !c.text) {
        for n in if quick { vec![100usize, 8400] } else { vec![100usize, 191, 192, 8383, 8384, 8400, 70000] } {
            let mut cfg = cfg.clone();
            cfg.source = 0;
            for s in [
                dev(1, 8192, Consumer::ToEnd),
                uni(1, 8192, Consumer::ToEnd),
                uni(2, 8192, Consumer::ToEnd),
                uni(3, 1, Consumer::Fixed(8191)),
                uni(7, 8192, Consumer::Scripted),
            ] {
                rc.push(MsgReadCase {
                    cfg: cfg.clone(),
                    n,
                    sched: s,
                    trailing: false,
                    trail_kind: 0,
                });
            }
        }
    }
    // a second message after the first: every consumer must end in the same error
    for cfg in cfgs.iter().filter(|c| !c.armor && c.compression == 0).take(if quick { 12 } else { 40 }) {
        for n in [0usize, 100, 600] {
            for s in [
                dev(1, 8192, Consumer::ToEnd),
                dev(1, 8192, Consumer::Scripted),
                dev(1, 64, Consumer::BufScripted),
                uni(1, 8192, Consumer::Fixed(1)),
                uni(7, 8192, Consumer::Fixed(3)),
                uni(3, 7, Consumer::BufScripted),
                uni(511, 8192, Consumer::BufScripted),
            ] {
                for trail_kind in 0..4u8 {
                    rc.push(MsgReadCase { cfg: cfg.clone(), n, sched: s.clone(), trailing: true, trail_kind });
                }
            }
        }
    }
    ctx.run_space(
        "message_reader",
        true,
        "Message::from_bytes/from_armor over BufReader(cap) over a scripted source -> decrypt -> decompress -> consumer -> verify, for 40 configurations (compression none/zip x plain/SEIPDv1/SEIPDv2 x signed or not x binary/text x armor; armored input with LF and, for odd lengths, CR LF line endings) x payload lengths at the partial-body/chunk boundaries (reader-sourced = partial framing; bytes-sourced = fixed 1/2/5-octet lengths): all executions with <= 1 (thorough also 2) deviations from the default read/consumer answers including an injected source error (sticky, transient = returned once, and ErrorKind::Interrupted = nothing read, call again) at every call, plus uniform 1/2/3/7/511/513-byte sources; consumer = read_to_end, fixed 1/3/8191, scripted sizes, fill_buf/consume. Oracle: same data, mode, signature verdicts; a source error surfaces as an error; after an interrupted read, repeated by the consumer as std does, the result is unchanged or an error. Also streams on which something follows the first message (the message once more; a Marker packet and the message once more; a Padding packet and a literal packet; Marker, Padding and a stray octet): every way of consuming (read_to_end, read(k), scripted sizes, fill_buf/consume) ends in an error.",
        rc.into_par_iter(),
        run_msg_read,
    );

    // builder side: the file entry points onto a device that refuses every write
    let mut fsc = Vec::new();
    for cfg in cfgs.iter().filter(|c| c.compression == 0 && !c.text) {
        for n in [0usize, 1, 100, 5000, 8192, 20_000, 100_000] {
            let mut cfg = cfg.clone();
            cfg.source = 0;
            fsc.push(FullSinkCase { cfg, n });
        }
    }
    ctx.run_space(
        "builder_file_sinks_that_fail",
        true,
        "MessageBuilder::to_file / to_armored_file onto /dev/full (opens, every write fails) for the uncompressed binary configurations x payload lengths 0..100000 (output smaller and larger than the file buffer): the call must return an error",
        fsc.into_par_iter(),
        run_full_sink,
    );
    // builder side
    let mut bc = Vec::new();
    // the builder side takes seconds at the former thorough bounds: used in both tiers
    let blens: Vec<usize> = if false {
        vec![0, 1, 506, 507, 1100]
    } else {
        vec![0, 1, 2, 505, 506, 507, 511, 512, 513, 1018, 1019, 1100, 8192, 8193]
    };
    for cfg in &cfgs {
        for &n in &blens {
            let mut scheds = vec![
                (dev(1, 0, Consumer::ToEnd), true),
                (devt(1, 0, Consumer::ToEnd), false),
                (devi(1, 0, Consumer::ToEnd), false),
                (uni(1, 0, Consumer::ToEnd), false),
                (uni(3, 0, Consumer::ToEnd), false),
                (uni(511, 0, Consumer::ToEnd), false),
            ];
            {
                scheds.extend([
                    (dev(if n <= 1100 && !(quick && n > 513) { 2 } else { 1 }, 0, Consumer::ToEnd), n <= 600),
                    (uni(2, 0, Consumer::ToEnd), false),
                    (uni(7, 0, Consumer::ToEnd), false),
                    (uni(513, 0, Consumer::ToEnd), false),
                ]);
            }
            for (s, sw) in scheds {
                bc.push(BuildCase {
                    cfg: cfg.clone(),
                    n,
                    sched: s,
                    short_writes: sw,
                });
            }
        }
    }
    ctx.run_space(
        "message_builder",
        true,
        "MessageBuilder::from_reader(scripted source) -> to_writer / to_armored_writer(scripted sink) for the same 40 configurations and lengths: all executions with <= 1 (thorough 2) deviations: short source reads at every call (incl. sizes ending at 506/512/8192), short sink writes, one injected source or sink error (read, write or flush; sticky, transient, and ErrorKind::Interrupted) at every call; plus uniform 1/2/3/7/511/513-byte sources. Oracle: output byte-identical to the in-memory run (fixed rng, pinned clock); an injected error makes the call return Err (an interrupted call: the identical output, or Err).",
        bc.into_par_iter(),
        run_build,
    );

    // small components
    let mut sc = Vec::new();
    for subject in 0..8u8 {
        let lens: Vec<usize> = match subject {
            0 => if false { vec![0, 1, 2, 3, 47, 48, 49, 767, 768, 769, 1000] } else { (0..=100).chain([766, 767, 768, 769, 770, 1535, 1536, 1537, 3000]).collect() },
            1 => vec![0],
            2 | 3 | 7 => if false { vec![0, 1, 511, 512, 513, 1024, 1500] } else { vec![0, 1, 2, 510, 511, 512, 513, 514, 1023, 1024, 1025, 1535, 1536, 1537, 8191, 8192, 8193] },
            4 => if false { vec![0, 1, 30, 200] } else { vec![0, 1, 2, 30, 63, 64, 65, 200, 1000, 9000] },
            5 => if false { vec![0, 1, 15, 16, 17, 8191, 8192, 8193] } else { vec![0, 1, 2, 15, 16, 17, 31, 32, 33, 8190, 8191, 8192, 8193, 8194, 16384, 16385] },
            _ => if false { vec![0, 1, 2, 3, 47, 48, 49, 100] } else { (0..=100).chain([767, 768, 769]).collect() },
        };
        for n in lens {
            let consumers: Vec<Consumer> = match subject {
                0 | 5 => vec![Consumer::ToEnd, Consumer::Fixed(1), Consumer::Fixed(3), Consumer::Scripted],
                _ => vec![Consumer::ToEnd],
            };
            for consumer in consumers {
                for cap in if matches!(subject, 0 | 1) { vec![1usize, 5, 8192] } else { vec![8192] } {
                    sc.push(SmallCase { subject, n, sched: dev(if quick || n > 200 { 1 } else { 2 }, cap, consumer), all_compositions: false });
                    sc.push(SmallCase { subject, n, sched: devt(1, cap, consumer), all_compositions: false });
                    sc.push(SmallCase { subject, n, sched: devi(1, cap, consumer), all_compositions: false });
                    for u in [1usize, 2, 3, 7] {
                        sc.push(SmallCase { subject, n, sched: uni(u, cap, consumer), all_compositions: false });
                    }
                }
            }
        }
    }
    // all compositions of short inputs for the two small state machines fed directly
    for n in 0..=if quick { 8 } else { 9 } {
        sc.push(SmallCase { subject: 0, n, sched: dev(0, 8192, Consumer::ToEnd), all_compositions: true });
        sc.push(SmallCase { subject: 0, n, sched: dev(0, 8192, Consumer::Fixed(1)), all_compositions: true });
    }
    for n in 0..=if quick { 14 } else { 16 } {
        sc.push(SmallCase { subject: 7, n, sched: dev(0, 8192, Consumer::ToEnd), all_compositions: true });
    }
    ctx.run_space(
        "components",
        true,
        "stream components fed directly from a scripted source/sink: Base64Decoder<Base64Reader<BufReader(cap)>>, PacketParser over a certificate, Signature::verify over a reader (binary, text), CleartextSignedMessage::from_armor, CFB StreamEncryptor, armor::write to a scripted sink (short writes, write/flush errors), DetachedSignature::sign_text_data from a scripted source; <=1 (thorough 2) deviations + uniform sources + faults (sticky, transient, interrupted reads); ALL compositions of the input for base64 bodies of <= 6 (9) bytes and text-signing inputs of <= 12 (16) bytes",
        sc.into_par_iter(),
        run_small,
    );
    ctx.assume("a consumer stops at the first error; behaviour after an error is outside std::io::Read's contract and outside the property");
    ctx.assume("a read into an empty buffer is part of the scripted consumer's menu: it answers Ok(0), is not the end of the stream and must leave the result unchanged");
}

pub fn replay(space: &str, case: &Value) -> Option<Outcome> {
    match space {
        "message_reader" => replay_as(case, run_msg_read),
        "builder_file_sinks_that_fail" => replay_as(case, run_full_sink),
        "message_builder" => replay_as(case, run_build),
        "components" => replay_as(case, run_small),
        _ => None,
    }
}
