use serde_json::Value;

use crate::engine::{Ctx, Outcome};

pub mod c01;
pub mod c02;
pub mod c03;
pub mod c05;
pub mod c06;
pub mod c07;
pub mod c08;
pub mod c09;
pub mod c10;
pub mod c11;
pub mod c12;
pub mod c13;
pub mod c14;
pub mod c15;
pub mod c16;
pub mod c17;
pub mod c18;

pub struct Prop {
    pub check: fn(&Ctx),
    pub replay: fn(&str, &Value) -> Option<Outcome>,
}

pub fn lookup(id: &str) -> Option<Prop> {
    Some(match id {
        "C01" => Prop {
            check: c01::check,
            replay: c01::replay,
        },
        "C02" => Prop {
            check: c02::check,
            replay: c02::replay,
        },
        "C03" => Prop {
            check: c03::check,
            replay: c03::replay,
        },
        "C05" => Prop {
            check: c05::check,
            replay: c05::replay,
        },
        "C06" => Prop {
            check: c06::check,
            replay: c06::replay,
        },
        "C07" => Prop {
            check: c07::check,
            replay: c07::replay,
        },
        "C08" => Prop {
            check: c08::check,
            replay: c08::replay,
        },
        "C09" => Prop {
            check: c09::check,
            replay: c09::replay,
        },
        "C10" => Prop {
            check: c10::check,
            replay: c10::replay,
        },
        "C11" => Prop {
            check: c11::check,
            replay: c11::replay,
        },
        "C12" => Prop {
            check: c12::check,
            replay: c12::replay,
        },
        "C13" => Prop {
            check: c13::check,
            replay: c13::replay,
        },
        "C14" => Prop {
            check: c14::check,
            replay: c14::replay,
        },
        "C15" => Prop {
            check: c15::check,
            replay: c15::replay,
        },
        "C16" => Prop {
            check: c16::check,
            replay: c16::replay,
        },
        "C17" => Prop {
            check: c17::check,
            replay: c17::replay,
        },
        "C18" => Prop {
            check: c18::check,
            replay: c18::replay,
        },
        _ => return None,
    })
}
