use serde_json::Value;

use crate::engine::{Ctx, Outcome};

pub mod c01;
pub mod c02;
pub mod c03;
pub mod c04;
pub mod c05;
pub mod c06;
pub mod c07;
pub mod c08;
pub mod c09;
pub mod c10;
pub mod c11;
pub mod c12;
pub mod c13;
pub mod c14;
pub mod c15;
pub mod c16;
pub mod c17;
pub mod c18;
pub mod c19;

pub struct Prop {
    pub check: fn(&Ctx),
    pub replay: fn(&str, &Value) -> Option<Outcome>,
    /// child-process mode for sharded spaces: (tier, space, start, end) -> result JSON
    pub worker: Option<fn(crate::engine::Tier, &str, u64, u64) -> Option<Value>>,
}

pub fn lookup(id: &str) -> Option<Prop> {
    Some(match id {
        "C01" => Prop {
            check: c01::check,
            replay: c01::replay,
            worker: None,
        },
        "C02" => Prop {
            check: c02::check,
            replay: c02::replay,
            worker: None,
        },
        "C03" => Prop {
            check: c03::check,
            replay: c03::replay,
            worker: None,
        },
        "C04" => Prop {
            check: c04::check,
            replay: c04::replay,
            worker: Some(c04::worker),
        },
        "C05" => Prop {
            check: c05::check,
            replay: c05::replay,
            worker: None,
        },
        "C06" => Prop {
            check: c06::check,
            replay: c06::replay,
            worker: None,
        },
        "C07" => Prop {
            check: c07::check,
            replay: c07::replay,
            worker: None,
        },
        "C08" => Prop {
            check: c08::check,
            replay: c08::replay,
            worker: None,
        },
        "C09" => Prop {
            check: c09::check,
            replay: c09::replay,
            worker: None,
        },
        "C10" => Prop {
            check: c10::check,
            replay: c10::replay,
            worker: None,
        },
        "C11" => Prop {
            check: c11::check,
            replay: c11::replay,
            worker: None,
        },
        "C12" => Prop {
            check: c12::check,
            replay: c12::replay,
            worker: None,
        },
        "C13" => Prop {
            check: c13::check,
            replay: c13::replay,
            worker: None,
        },
        "C14" => Prop {
            check: c14::check,
            replay: c14::replay,
            worker: None,
        },
        "C15" => Prop {
            check: c15::check,
            replay: c15::replay,
            worker: None,
        },
        "C16" => Prop {
            check: c16::check,
            replay: c16::replay,
            worker: None,
        },
        "C17" => Prop {
            check: c17::check,
            replay: c17::replay,
            worker: None,
        },
        "C18" => Prop {
            check: c18::check,
            replay: c18::replay,
            worker: None,
        },
        "C19" => Prop {
            check: c19::check,
            replay: c19::replay,
            worker: Some(c19::worker),
        },
        _ => return None,
    })
}
