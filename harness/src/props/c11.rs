//! C11 — signed digests are exactly those RFC 9580 §5.2.4 prescribes.
//!
//! A recording SigningKey / VerifyingKey sees the digest the library hands to the public-key
//! primitive; the reference computes it from the wire bytes (independent codec + canonicaliser).

use pgp::{
    crypto::hash::HashAlgorithm,
    ser::Serialize as _,
    types::{KeyDetails, Password, SigningKey},
};
use rayon::prelude::*;
use serde::{Deserialize, Serialize};
use serde_json::Value;

use crate::{
    common::{
        self,
        sigs::{self, SigKind, Spec, ALL_KINDS},
        KeyKind, RecVerifier,
    },
    engine::{replay_as, Ctx, Outcome, Tier},
    reference::{canon::canon, codec, kdf},
};

fn run_created(spec: &Spec) -> Outcome {
    let (a, seen) = match sigs::make_recorded(spec) {
        Ok(x) => x,
        Err(e) => return Outcome::bad("C11:sign-error", format!("{:?} {:?} hash {}: {e}", spec.kind, spec.key, spec.hash)),
    };
    let name = format!("{:?}", spec.kind);
    let name = name.split('(').next().unwrap_or("").to_string();
    let mut o = Outcome::ok("digest-equal");
    match sigs::artefact_digest(&a, &a.sig_body, &spec.object) {
        Ok(want) => {
            if want != seen {
                o.push(
                    format!("C11:created:{name}:v{}:digest-differs-from-rfc", if spec.key.is_v6() { 6 } else { 4 }),
                    format!(
                        "{:?} key {:?} hash {} object {} octets notation {}: signed digest {} != RFC digest {}",
                        spec.kind,
                        spec.key,
                        spec.hash,
                        spec.object.len(),
                        spec.notation_len,
                        hex::encode(&seen),
                        hex::encode(&want)
                    ),
                );
            }
        }
        Err(e) => o.push("C11:reference-error", format!("{:?}: {e}", spec.kind)),
    }
    // v6: the salt has the size RFC 9580 5.2.3 (table) fixes for the hash algorithm
    if spec.key.is_v6() {
        if let Ok(d) = codec::decode_packet(2, &a.sig_body) {
            if let codec::Summary::Signature(si) = &d.summary {
                let want = [16usize, 32, 24, 16, 32, 16][spec.hash as usize % 6];
                let got = si.salt.map(|(s, e)| e - s).unwrap_or(0);
                if got != want {
                    o.push(
                        "C11:created:v6-salt-size-not-rfc",
                        format!("{:?} key {:?} hash {}: salt of {got} octets, RFC 9580 says {want}", spec.kind, spec.key, spec.hash),
                    );
                }
            }
        }
    }
    // verification side: re-parse the signature, verify with a recording key
    match sigs::sig_from_body(&a.sig_body) {
        Ok(sig2) => {
            let primary = a.cert.primary_key.public_key();
            let other = a.other.primary_key.public_key();
            let sub = a.cert.secret_subkeys[0].key.public_key();
            let (res, seen_v) = match spec.kind {
                SigKind::ThirdPartyCert | SigKind::PrimaryKeyBinding => {
                    let rv = RecVerifier::new(other);
                    let wrapped = WithSer(&rv, other);
                    let r = match spec.kind {
                        SigKind::ThirdPartyCert => sigs::uid_from_bytes(&spec.object)
                            .ok_or_else(|| pgp::errors::Error::from(std::io::Error::other("uid")))
                            .and_then(|u| sig2.verify_third_party_certification(primary, &wrapped, pgp::types::Tag::UserId, &u)),
                        _ => sig2.verify_primary_key_binding(&wrapped, primary),
                    };
                    (r, rv.last())
                }
                _ => {
                    let rv = RecVerifier::new(primary);
                    let wrapped = WithSer(&rv, primary);
                    let r = sigs::verify_with(&a, &sig2, &spec.object, &wrapped, primary, sub);
                    (r, rv.last())
                }
            };
            if let Err(e) = res {
                o.push(format!("C11:verify:{name}:own-signature-rejected"), format!("{:?} {:?}: {e}", spec.kind, spec.key));
            }
            if let (Some(sv), Ok(want)) = (seen_v, sigs::artefact_digest(&a, &a.sig_body, &spec.object)) {
                if sv != want {
                    o.push(
                        format!("C11:verify:{name}:digest-differs-from-rfc"),
                        format!("{:?} {:?}: verified digest {} != RFC digest {}", spec.kind, spec.key, hex::encode(&sv), hex::encode(&want)),
                    );
                }
            }
        }
        Err(e) => o.push("C11:own-signature-does-not-parse", format!("{:?}: {e}", spec.kind)),
    }
    o
}

/// A verifying key wrapper that also serialises as the wrapped public key (the verify APIs
/// frame the key themselves).
#[derive(Debug)]
struct WithSer<'a, V: pgp::types::VerifyingKey, P: pgp::ser::Serialize>(&'a V, &'a P);

impl<V: pgp::types::VerifyingKey, P: pgp::ser::Serialize + std::fmt::Debug> KeyDetails for WithSer<'_, V, P> {
    fn version(&self) -> pgp::types::KeyVersion {
        self.0.version()
    }
    fn legacy_key_id(&self) -> pgp::types::KeyId {
        self.0.legacy_key_id()
    }
    fn fingerprint(&self) -> pgp::types::Fingerprint {
        self.0.fingerprint()
    }
    fn algorithm(&self) -> pgp::crypto::public_key::PublicKeyAlgorithm {
        self.0.algorithm()
    }
    fn created_at(&self) -> pgp::types::Timestamp {
        self.0.created_at()
    }
    fn legacy_v3_expiration_days(&self) -> Option<u16> {
        self.0.legacy_v3_expiration_days()
    }
    fn public_params(&self) -> &pgp::types::PublicParams {
        self.0.public_params()
    }
}
impl<V: pgp::types::VerifyingKey, P: pgp::ser::Serialize + std::fmt::Debug> pgp::types::VerifyingKey for WithSer<'_, V, P> {
    fn verify(&self, hash: HashAlgorithm, data: &[u8], sig: &pgp::types::SignatureBytes) -> pgp::errors::Result<()> {
        self.0.verify(hash, data, sig)
    }
}
impl<V: pgp::types::VerifyingKey, P: pgp::ser::Serialize + std::fmt::Debug> pgp::ser::Serialize for WithSer<'_, V, P> {
    fn to_writer<W: std::io::Write>(&self, w: &mut W) -> pgp::errors::Result<()> {
        self.1.to_writer(w)
    }
    fn write_len(&self) -> usize {
        self.1.write_len()
    }
}

#[derive(Clone, Debug, Hash, Serialize, Deserialize)]
pub struct V3Case {
    pub kind: SigKind,
    pub key: KeyKind,
    pub hash: u8,
    pub object: Vec<u8>,
}

fn mpi(v: &[u8]) -> Vec<u8> {
    let mut v = v;
    while v.first() == Some(&0) {
        v = &v[1..];
    }
    let bits = if v.is_empty() { 0 } else { v.len() * 8 - v[0].leading_zeros() as usize };
    let mut out = (bits as u16).to_be_bytes().to_vec();
    out.extend_from_slice(v);
    out
}

/// v3 signatures are assembled by the reference (the library cannot create them) and verified by
/// the library: document and certification signatures made with a v4 key's raw signer.
fn run_v3(c: &V3Case) -> Outcome {
    let cert = common::cert(c.key, 1);
    let key = &cert.primary_key;
    let primary_body = key.public_key().to_bytes().expect("ser");
    let hash = common::msg::HASHES[c.hash as usize];
    let hash_id = u8::from(hash);
    let typ = c.kind.type_octet();
    let created = common::NOW.to_be_bytes();
    // digest: content || type || creation time
    let mut parts: Vec<Vec<u8>> = Vec::new();
    match c.kind {
        SigKind::DocBinary => parts.push(c.object.clone()),
        SigKind::DocText => parts.push(canon(&c.object)),
        SigKind::CertUserId(_) => {
            parts.push(sigs::key_frame(&primary_body));
            parts.push(c.object.clone());
        }
        SigKind::DirectKey => parts.push(sigs::key_frame(&primary_body)),
        _ => return Outcome::trivial("kind-not-modelled-for-v3"),
    }
    parts.push(vec![typ]);
    parts.push(created.to_vec());
    let refs: Vec<&[u8]> = parts.iter().map(|p| &p[..]).collect();
    let digest = kdf::hash(hash_id, &refs);
    let raw = match key.sign(&Password::empty(), hash, &digest) {
        Ok(r) => r,
        Err(e) => return Outcome::bad("C11:v3:raw-sign-error", e.to_string()),
    };
    let mut body = vec![3u8, 5, typ];
    body.extend_from_slice(&created);
    body.extend_from_slice(key.legacy_key_id().as_ref());
    body.push(u8::from(key.algorithm()));
    body.push(hash_id);
    body.extend_from_slice(&digest[..2]);
    match &raw {
        pgp::types::SignatureBytes::Mpis(ms) => {
            for m in ms {
                body.extend_from_slice(&mpi(m.as_ref()));
            }
        }
        pgp::types::SignatureBytes::Native(b) => body.extend_from_slice(b),
    }
    let sig = match sigs::sig_from_body(&body) {
        Ok(s) => s,
        Err(e) => return Outcome::bad("C11:v3:reference-signature-does-not-parse", format!("{:?}: {e}", c.kind)),
    };
    let pk = key.public_key();
    let rv = RecVerifier::new(pk);
    let w = WithSer(&rv, pk);
    let res = match c.kind {
        SigKind::DocBinary | SigKind::DocText => sig.verify(&w, &c.object[..]),
        SigKind::CertUserId(_) => sigs::uid_from_bytes(&c.object)
            .ok_or_else(|| pgp::errors::Error::from(std::io::Error::other("uid")))
            .and_then(|u| sig.verify_certification(&w, pgp::types::Tag::UserId, &u)),
        _ => sig.verify_key(&w),
    };
    let mut o = Outcome::ok("v3-verifies");
    let name = format!("{:?}", c.kind);
    let name = name.split('(').next().unwrap_or("");
    match res {
        Ok(()) => {
            if rv.last().as_deref() != Some(&digest[..]) {
                o.push(format!("C11:v3:{name}:digest-differs-from-rfc"), format!("{c:?}"));
            }
        }
        Err(e) => {
            let seen = rv.last();
            let class = if seen.is_some() && seen.as_deref() != Some(&digest[..]) {
                "digest-differs-from-rfc"
            } else {
                "rejected"
            };
            o.push(
                format!("C11:v3:{name}:{class}"),
                format!("{:?} key {:?}: reference-made v3 signature is not verified: {e}", c.kind, c.key),
            );
        }
    }
    o
}

/// Inline and cleartext carriers of a data signature: the digest handed to the key on these
/// verification paths must be the RFC digest too.
#[derive(Clone, Debug, Hash, Serialize, Deserialize)]
pub struct InlineCase {
    pub key: KeyKind,
    pub hash: u8,
    pub text: bool,
    /// 0 prefixed (signature packet, literal), 1 one-pass (MessageBuilder), 2 cleartext framework
    pub carrier: u8,
    pub doc: Vec<u8>,
}

fn run_inline(c: &InlineCase) -> Outcome {
    use pgp::composed::{CleartextSignedMessage, Message};
    use std::io::Read;
    let cert = common::cert(c.key, 1);
    let primary = cert.primary_key.public_key();
    let primary_body = primary.to_bytes().expect("ser");
    let kind = if c.text { SigKind::DocText } else { SigKind::DocBinary };
    let name = ["prefixed", "one-pass", "cleartext", "cleartext-new", "cleartext-new_many"][c.carrier as usize];
    let ver = if c.key.is_v6() { 6 } else { 4 };
    let what = format!("{name} {:?} hash {} text {} doc {} octets", c.key, c.hash, c.text, c.doc.len());
    let mut o = Outcome::ok("digest-equal");
    // (message bytes or cleartext object, signature body, the octets the RFC digest is over)
    let rv = RecVerifier::new(primary);
    let wrapped = WithSer(&rv, primary);
    let (sig_body, signed_over): (Vec<u8>, Vec<u8>) = match c.carrier {
        0 | 1 => {
            let bytes = if c.carrier == 0 {
                let spec = Spec { kind, key: c.key, hash: c.hash, object: c.doc.clone(), notation_len: 0, critical_time: false };
                let a = match sigs::make(&spec) {
                    Ok(a) => a,
                    Err(e) => return Outcome::bad("C11:sign-error", format!("{what}: {e}")),
                };
                let mut lit = vec![if c.text { b'u' } else { b'b' }, 0, 0, 0, 0, 0];
                lit.extend_from_slice(&c.doc);
                [crate::reference::frame::frame_min(2, &a.sig_body), crate::reference::frame::frame_min(11, &lit)].concat()
            } else {
                // a utf8 literal must already be in CR LF form (the builder refuses anything else)
                if c.text && (std::str::from_utf8(&c.doc).is_err() || canon(&c.doc) != c.doc) {
                    return Outcome::trivial("not-a-utf8-literal");
                }
                let cfg = crate::common::msg::MsgCfg { signers: vec![(c.key, c.hash)], text: c.text, ..Default::default() };
                match crate::common::msg::build_vec(&cfg, &c.doc, 3) {
                    Ok(b) => b,
                    Err(e) => return Outcome::bad("C11:sign-error", format!("{what}: {e}")),
                }
            };
            let Ok(ps) = codec::split_packets(&bytes) else { return Outcome::bad("C11:reference-error", format!("{what}: message does not split")) };
            let Some(sig_body) = ps.iter().find(|p| p.0 == 2).map(|p| p.2.clone()) else { return Outcome::bad("C11:reference-error", format!("{what}: no signature packet")) };
            let mut m = match Message::from_bytes(&bytes[..]) {
                Ok(m) => m,
                Err(e) => return Outcome::bad(format!("C11:verify:{name}:own-message-rejected"), format!("{what}: {e}")),
            };
            let mut sink = Vec::new();
            if let Err(e) = m.read_to_end(&mut sink) {
                return Outcome::bad(format!("C11:verify:{name}:own-message-rejected"), format!("{what}: read: {e}"));
            }
            if let Err(e) = m.verify(&wrapped) {
                o.push(format!("C11:verify:{name}:v{ver}:own-signature-rejected"), format!("{what}: {e}"));
            }
            (sig_body, c.doc.clone())
        }
        _ => {
            let Ok(text) = String::from_utf8(c.doc.clone()) else { return Outcome::trivial("not utf-8") };
            let pw = pgp::types::Password::empty();
            let signed_form = crate::reference::canon::csf_signed_form(text.as_bytes());
            // carrier 2: sign; 3: new (caller's configuration); 4: new_many (the caller signs the
            // text the library hands over) - the signing key records the digest it is asked for
            let rs = common::RecSigner::new(&cert.primary_key);
            let cfg_for = || -> pgp::errors::Result<pgp::packet::SignatureConfig> {
                use pgp::packet::{SignatureConfig, SignatureType, Subpacket, SubpacketData};
                let h = common::msg::HASHES[c.hash as usize];
                let mut cfg = if c.key.is_v6() {
                    SignatureConfig::v6(crate::engine::rng(13), SignatureType::Text, cert.primary_key.algorithm(), h)?
                } else {
                    SignatureConfig::v4(SignatureType::Text, cert.primary_key.algorithm(), h)
                };
                cfg.hashed_subpackets = vec![
                    Subpacket::regular(SubpacketData::SignatureCreationTime(pgp::types::Timestamp::from_secs(common::NOW)))?,
                    Subpacket::regular(SubpacketData::IssuerFingerprint(cert.primary_key.fingerprint()))?,
                ];
                Ok(cfg)
            };
            let made = match c.carrier {
                2 => CleartextSignedMessage::sign(crate::engine::rng(5), &text, &rs, &pw),
                3 => cfg_for().and_then(|cfg| CleartextSignedMessage::new(&text, cfg, &rs, &pw)),
                _ => CleartextSignedMessage::new_many(&text, |to_sign| Ok(vec![cfg_for()?.sign(&rs, &pw, to_sign.as_bytes())?])),
            };
            let csf = match made {
                Ok(m) => m,
                // a hash the key's algorithm refuses to sign with
                Err(_) if c.carrier != 2 => return Outcome::trivial("signer-refuses"),
                Err(e) => return Outcome::bad("C11:sign-error", format!("{what}: {e}")),
            };
            let Some(sig) = csf.signatures().first().cloned() else { return Outcome::bad("C11:reference-error", format!("{what}: no signature")) };
            let sig_body = sig.to_bytes().expect("ser");
            if let (Some(seen), Ok(want)) = (rs.last(), sigs::reference_digest(&sig_body, SigKind::DocText, &signed_form, &primary_body, &primary_body, &[])) {
                if seen != want {
                    o.push(
                        format!("C11:created:{name}:v{ver}:digest-differs-from-rfc"),
                        format!("{what}: signed digest {} != RFC digest over the 7.2 signed form {}", hex::encode(&seen), hex::encode(&want)),
                    );
                }
            }
            if let Err(e) = csf.verify(&wrapped) {
                o.push(format!("C11:verify:{name}:v{ver}:own-signature-rejected"), format!("{what}: {e}"));
            }
            // RFC 9580 7.2: trailing spaces and tabs removed from every line, line endings CR LF
            (sig_body, signed_form)
        }
    };
    let kind_for_ref = if c.carrier >= 2 { SigKind::DocText } else { kind };
    match (rv.last(), sigs::reference_digest(&sig_body, kind_for_ref, &signed_over, &primary_body, &primary_body, &[])) {
        (Some(seen), Ok(want)) => {
            if seen != want {
                o.push(
                    format!("C11:verify:{name}:v{ver}:digest-differs-from-rfc"),
                    format!("{what}: verified digest {} != RFC digest {}", hex::encode(&seen), hex::encode(&want)),
                );
            }
        }
        (None, _) => {
            if o.viol.is_empty() {
                o.push(format!("C11:verify:{name}:v{ver}:key-never-asked"), what.clone());
            }
        }
        (_, Err(e)) => o.push("C11:reference-error", format!("{what}: {e}")),
    }
    o
}

/// Version 6 signatures assembled by the reference with the salt size RFC 9580 fixes for the hash:
/// the library must accept them (a library that disagrees about the table refuses them).
#[derive(Clone, Debug, Hash, Serialize, Deserialize)]
pub struct CraftedV6 {
    pub key: KeyKind,
    pub hash: u8,
    pub text: bool,
}

fn run_crafted_v6(c: &CraftedV6) -> Outcome {
    let cert = common::cert(c.key, 1);
    let key = &cert.primary_key;
    let pk = key.public_key();
    let hash = common::msg::HASHES[c.hash as usize];
    let salt_len = [16usize, 32, 24, 16, 32, 16][c.hash as usize % 6];
    let salt: Vec<u8> = (0..salt_len).map(|i| 0x30 + i as u8).collect();
    let mut hashed = sigs::raw_subpacket(2, false, &common::NOW.to_be_bytes());
    let mut fp = vec![6u8];
    fp.extend_from_slice(pk.fingerprint().as_bytes());
    hashed.extend_from_slice(&sigs::raw_subpacket(33, false, &fp));
    let doc: &[u8] = b"crafted\ndocument";
    let content = if c.text { canon(doc) } else { doc.to_vec() };
    let what = format!("{:?} hash {} text {}", c.key, c.hash, c.text);
    let body = match sigs::craft_signature(key, 6, if c.text { 1 } else { 0 }, hash, &hashed, &[], &salt, &[&content[..]]) {
        Ok(b) => b,
        // a hash the key's algorithm refuses to sign with
        Err(_) => return Outcome::trivial("raw-signer-refuses"),
    };
    let mut o = Outcome::ok("accepted");
    match sigs::sig_from_body(&body) {
        Ok(sig) => {
            if let Err(e) = sig.verify(pk, doc) {
                o.push("C11:crafted-v6:rfc-signature-rejected", format!("{what}: salt of {salt_len} octets: {e}"));
            }
        }
        Err(e) => o.push("C11:crafted-v6:rfc-signature-does-not-parse", format!("{what}: salt of {salt_len} octets: {e}")),
    }
    // the same through the inline path
    let mut lit = vec![if c.text { b't' } else { b'b' }, 0, 0, 0, 0, 0];
    lit.extend_from_slice(doc);
    let stream = [crate::reference::frame::frame_min(2, &body), crate::reference::frame::frame_min(11, &lit)].concat();
    let inline = pgp::composed::Message::from_bytes(&stream[..]).map_err(|e| e.to_string()).and_then(|mut m| {
        use std::io::Read as _;
        let mut sink = Vec::new();
        m.read_to_end(&mut sink).map_err(|e| e.to_string())?;
        m.verify(pk).map(|_| ()).map_err(|e| e.to_string())
    });
    if let Err(e) = inline {
        o.push("C11:crafted-v6:rfc-signature-rejected-inline", format!("{what}: {e}"));
    }
    o
}

#[derive(Clone, Debug, Hash, Serialize, Deserialize)]
pub struct ParsedAttrCase {
    pub key: KeyKind,
    pub hash: u8,
    /// sub-record length written in the five-octet form whatever its value
    pub long_form: bool,
    /// sub-record size: type octet + content
    pub size: usize,
    /// attribute type octet (1 = image)
    pub typ: u8,
}

/// User attributes that arrive from the wire (other implementations' framing of the sub-record
/// length included): what is hashed is the packet body as it was certified.
fn run_parsed_attr(c: &ParsedAttrCase) -> Outcome {
    use pgp::packet::{PacketParser, SignatureConfig, Subpacket, SubpacketData};
    let cert = common::cert(c.key, 1);
    let key = &cert.primary_key;
    let pk = key.public_key();
    let hash = common::msg::HASHES[c.hash as usize];
    let v6 = c.key.is_v6();
    // the attribute packet body
    let mut rec = vec![c.typ];
    if c.typ == 1 && c.size >= 17 {
        rec.extend_from_slice(&[0x10, 0x00, 0x01, 0x01]);
        rec.extend_from_slice(&[0u8; 12]);
    }
    while rec.len() < c.size {
        rec.push(0x40 + (rec.len() % 23) as u8);
    }
    rec.truncate(c.size.max(1));
    let mut body = Vec::new();
    if c.long_form {
        body.push(0xFF);
        body.extend_from_slice(&(rec.len() as u32).to_be_bytes());
    } else {
        let framed = sigs::raw_subpacket(rec[0], false, &rec[1..]);
        body.extend_from_slice(&framed[..framed.len() - rec.len()]);
    }
    body.extend_from_slice(&rec);
    let framed = crate::reference::frame::frame_min(17, &body);
    let ua = match PacketParser::new(&framed[..]).next() {
        Some(Ok(pgp::packet::Packet::UserAttribute(u))) => u,
        // attributes the library does not take (e.g. an image shorter than its header)
        _ => return Outcome::trivial("attribute-not-accepted"),
    };
    let what = format!("{:?} hash {} sub-record of {} octets type {} {}", c.key, c.hash, c.size, c.typ, if c.long_form { "five-octet length" } else { "minimal length" });
    let pub_body = pk.to_bytes().expect("key");
    let mut o = Outcome::ok("digest-equal");
    // (a) the library certifies the parsed attribute
    let made = (|| -> pgp::errors::Result<(Vec<u8>, Vec<u8>)> {
        let typ = pgp::packet::SignatureType::CertPositive;
        let mut cfg = if v6 { SignatureConfig::v6(crate::engine::rng(5), typ, key.algorithm(), hash)? } else { SignatureConfig::v4(typ, key.algorithm(), hash) };
        cfg.hashed_subpackets = vec![
            Subpacket::regular(SubpacketData::SignatureCreationTime(pgp::types::Timestamp::from_secs(common::NOW)))?,
            Subpacket::regular(SubpacketData::IssuerFingerprint(key.fingerprint()))?,
        ];
        let rs = common::RecSigner::new(key);
        let sig = cfg.sign_certification(&rs, pk, &Password::empty(), pgp::types::Tag::UserAttribute, &ua)?;
        Ok((sig.to_bytes()?, rs.last().unwrap_or_default()))
    })();
    match made {
        Ok((sig_body, seen)) => match sigs::reference_digest(&sig_body, SigKind::CertUserAttr, &[], &pub_body, &[], &body) {
            Ok(want) => {
                if want != seen {
                    o.push(
                        format!("C11:parsed-attribute:v{}:signed-digest-differs-from-rfc", if v6 { 6 } else { 4 }),
                        format!("{what}: signed digest {} != RFC digest over the wire body {}", hex::encode(&seen), hex::encode(&want)),
                    );
                }
                // ... and verifies it, over the same digest
                if let Ok(sig2) = sigs::sig_from_body(&sig_body) {
                    let rv = RecVerifier::new(pk);
                    let wrapped = WithSer(&rv, pk);
                    let r = sig2.verify_third_party_certification(pk, &wrapped, pgp::types::Tag::UserAttribute, &ua);
                    if let Some(sv) = rv.last() {
                        if sv != want {
                            o.push("C11:parsed-attribute:verified-digest-differs-from-rfc", format!("{what}: {} != {}", hex::encode(&sv), hex::encode(&want)));
                        }
                    }
                    if let Err(e) = r {
                        o.push("C11:parsed-attribute:own-signature-rejected", format!("{what}: {e}"));
                    }
                }
            }
            Err(e) => o.push("C11:reference-error", format!("{what}: {e}")),
        },
        // a hash the key's algorithm refuses to sign with
        Err(_) => return Outcome::trivial("signer-refuses"),
    }
    // (b) a certification made by the model over the wire bytes is accepted
    let mut hashed = sigs::raw_subpacket(2, false, &common::NOW.to_be_bytes());
    let mut fp = vec![if v6 { 6u8 } else { 4 }];
    fp.extend_from_slice(pk.fingerprint().as_bytes());
    hashed.extend_from_slice(&sigs::raw_subpacket(33, false, &fp));
    let salt_len = [16usize, 32, 24, 16, 32, 16][c.hash as usize % 6];
    let salt: Vec<u8> = (0..salt_len).map(|i| 0x51 + i as u8).collect();
    let kf = sigs::key_frame(&pub_body);
    let mut prefix = vec![0xD1];
    prefix.extend_from_slice(&(body.len() as u32).to_be_bytes());
    if let Ok(sig_body) = sigs::craft_signature(key, if v6 { 6 } else { 4 }, 0x13, hash, &hashed, &[], &salt, &[&kf[..], &prefix[..], &body[..]]) {
        match sigs::sig_from_body(&sig_body) {
            Ok(sig) => {
                if let Err(e) = sig.verify_certification(pk, pgp::types::Tag::UserAttribute, &ua) {
                    o.push("C11:parsed-attribute:rfc-certification-rejected", format!("{what}: {e}"));
                }
            }
            Err(e) => o.push("C11:parsed-attribute:rfc-certification-does-not-parse", format!("{what}: {e}")),
        }
    }
    o
}

pub fn check(ctx: &Ctx) {
    // the former thorough bounds take seconds: they are the quick tier now; `deep` = thorough
    let quick = false;
    #[allow(unused_variables)]
    let deep = ctx.tier == Tier::Thorough;
    let keys: Vec<(KeyKind, Vec<u8>)> = vec![
        (KeyKind::Ed25519V4, vec![0, 1, 2, 3, 4]),
        (KeyKind::Ed25519V6, vec![0, 1, 2, 3, 4]),
        (KeyKind::EcdsaP256V4, vec![0, 1, 3]),
        (KeyKind::EcdsaP256V6, vec![0, 1]),
        (KeyKind::Ed448V6, vec![1, 4]),
        (KeyKind::Rsa2048V4, vec![0, 1, 5]),
        (KeyKind::Rsa2048V6, vec![0, 5, 2, 4]),
        (KeyKind::EcdsaP521V4, vec![1]),
        (KeyKind::Ed25519LegacyV4, vec![0]),
    ];
    for (k, _) in &keys {
        common::cert(*k, 1);
        common::cert(*k, 2);
    }
    let mut docs: Vec<Vec<u8>> = vec![
        vec![],
        b"a".to_vec(),
        b"line one\nline two\r\nthree\r".to_vec(),
        b"\n".to_vec(),
        vec![0u8; 300],
        // text documents ending exactly at the reader-side normaliser's 512-octet window
        [&vec![b't'; 511][..], b"\r"].concat(),
        [&vec![b't'; 1022][..], b"\r\n"].concat(),
        [&vec![b't'; 511][..], b"\n"].concat(),
    ];
    if !quick {
        // a line ending of each kind on every alignment around the 512 / 1024 windows
        for window in if deep { vec![512usize, 1024, 1536, 8192] } else { vec![512usize, 1024] } {
            for off in window - if deep { 8 } else { 4 }..=window + if deep { 4 } else { 2 } {
                for tail in [&b"\r"[..], b"\n", b"\r\n", b"\r\r\n"] {
                    docs.push([&vec![b't'; off][..], tail, b"x"].concat());
                }
            }
        }
    }
    let ids: Vec<Vec<u8>> = {
        let mut v = vec![
            vec![],
            b"a".to_vec(),
            b"Alice <alice@example.org>".to_vec(),
            vec![b'u'; 255],
            vec![b'u'; 256],
        ];
        if !quick {
            v.push(vec![b'u'; 70_000]);
        }
        v
    };
    let mut specs = Vec::new();
    for (key, hashes) in &keys {
        for &hash in hashes {
            for kind in ALL_KINDS {
                let objects: &Vec<Vec<u8>> = match kind {
                    SigKind::DocBinary | SigKind::DocText => &docs,
                    _ => &ids,
                };
                let only_first = !matches!(
                    kind,
                    SigKind::DocBinary | SigKind::DocText | SigKind::CertUserId(0x13) | SigKind::CertUserAttr | SigKind::ThirdPartyCert
                );
                for (oi, object) in objects.iter().enumerate() {
                    // thorough: the full product of kinds x objects
                    if only_first && oi != 2 && quick {
                        continue;
                    }
                    if *key == KeyKind::Rsa2048V4 && oi > 2 && quick {
                        continue;
                    }
                    // hashed area shapes: default, then sizes that put the area length on the
                    // 1/2-octet subpacket length and 16-bit area boundaries
                    let notations: Vec<usize> = if (hash == hashes[0] && oi <= 2) || (!quick && *key != KeyKind::Rsa2048V4 && oi <= 4) {
                        if quick {
                            vec![0, 100, 150, 60_000]
                        } else if deep && oi <= 2 {
                            // every area size around the 1/2-octet and 2/5-octet subpacket length edges
                            (0..=2usize).chain(100..=200).chain(8300..=8345).chain([16_000, 60_000, 65_300, 65_399, 65_400]).collect()
                        } else {
                            vec![0, 1, 100, 143, 144, 150, 8300, 8340, 60_000, 65_400]
                        }
                    } else {
                        vec![0]
                    };
                    for n in notations {
                        for critical_time in [false, true] {
                            if critical_time && n != 0 {
                                continue;
                            }
                            specs.push(Spec {
                                kind,
                                key: *key,
                                hash,
                                object: object.clone(),
                                notation_len: n,
                                critical_time,
                            });
                        }
                    }
                }
            }
        }
    }
    ctx.run_space(
        "created_and_verified",
        true,
        "14 signature kinds (0x00, 0x01, 0x10-0x13 over user ids, 0x13 over a user attribute, third-party 0x13, 0x18, 0x28, 0x19, 0x1F, 0x20, 0x30) x 9 signer keys (v4/v6; Ed25519, Ed448, ECDSA P-256/P-521, EdDSA-legacy, RSA v4 and v6 with SHA-224 among the hashes) x hashes x objects (documents incl. empty and mixed line endings; user ids of length 0, 1, 25, 255, 256 (70000 thorough); attributes) x hashed-area shapes (default, text-carrying subpackets with multi-byte characters, notation data sizing the area to 100..65400 octets - thorough: every size 100..200 and 8300..8345 -, critical bit): created through the public signing API with a recording SigningKey, re-parsed and verified with a recording VerifyingKey; both digests = RFC 9580 5.2.4 digest computed from the wire bytes",
        specs.into_par_iter(),
        run_created,
    );

    let mut v3 = Vec::new();
    for key in [KeyKind::Rsa2048V4, KeyKind::Ed25519LegacyV4, KeyKind::EcdsaP256V4] {
        for hash in [0u8, 1] {
            for (kind, objs) in [
                (SigKind::DocBinary, &docs),
                (SigKind::DocText, &docs),
                (SigKind::CertUserId(0x10), &ids),
                (SigKind::CertUserId(0x13), &ids),
                (SigKind::DirectKey, &docs),
            ] {
                for o in objs.iter().take(5) {
                    v3.push(V3Case {
                        kind,
                        key,
                        hash,
                        object: o.clone(),
                    });
                    if kind == SigKind::DirectKey {
                        break;
                    }
                }
            }
        }
    }
    ctx.run_space(
        "v3_signatures_verify_only",
        true,
        "version 3 signatures (document binary/text, certifications 0x10/0x13 without the 0xB4 prefix, direct key) assembled by the reference from the RFC digest and the raw signer of 3 v4 keys: the library must verify them and hand the same digest to the key",
        v3.into_par_iter(),
        run_v3,
    );
    let mut cv = Vec::new();
    for key in [KeyKind::Ed25519V6, KeyKind::EcdsaP256V6, KeyKind::Ed448V6, KeyKind::Rsa2048V6] {
        for hash in 0..6u8 {
            for text in [false, true] {
                cv.push(CraftedV6 { key, hash, text });
            }
        }
    }
    ctx.run_space(
        "crafted_v6_signatures",
        true,
        "version 6 document signatures assembled by the reference (RFC 9580 5.2.4 digest, salt of the size the RFC table fixes for the hash: 16 / 32 / 24 / 16 / 32 / 16 octets for SHA-256 / SHA-512 / SHA-384 / SHA3-256 / SHA3-512 / SHA-224) and signed with the raw signer of 4 v6 keys (Ed25519, ECDSA P-256, Ed448, RSA) x 6 hashes x binary / text: Signature::verify and the inline message path must accept them",
        cv.into_par_iter(),
        run_crafted_v6,
    );
    let mut ic = Vec::new();
    let inline_docs: Vec<Vec<u8>> = vec![
        vec![],
        b"a".to_vec(),
        b"line one\nline two\r\nthree\r".to_vec(),
        b"trailing blank \ntab\t\n- dash\nform feed\x0c\nnbsp\xc2\xa0\nvt\x0b \nwide\xe3\x80\x80\n".to_vec(),
        b"- item one\n- - item two \n-----BEGIN PGP SIGNATURE-----\nFrom here\n-\n".to_vec(),
        b"last line without end \x0c".to_vec(),
        b"crlf only\r\nlines \r\nend\r\n".to_vec(),
        [&vec![b't'; 511][..], b"\r\nx"].concat(),
    ];
    for (key, hashes) in &keys {
        for &hash in hashes {
            for text in [false, true] {
                for carrier in 0..5u8 {
                    if carrier >= 2 && !text {
                        continue;
                    }
                    for doc in &inline_docs {
                        if *key == KeyKind::Rsa2048V4 && quick && doc.len() > 1 {
                            continue;
                        }
                        ic.push(InlineCase { key: *key, hash, text, carrier, doc: doc.clone() });
                    }
                }
            }
        }
    }
    ctx.run_space(
        "inline_and_cleartext_verification",
        true,
        "data signatures carried inline: prefixed form (signature packet + literal, assembled by the harness around a library-made signature), one-pass form (MessageBuilder) and the cleartext framework (sign / new / new_many, the signing side recorded too), x 8 signer keys (v4/v6) x hashes x binary/text x documents (empty, mixed line endings, dash and '- ' lines, lines ending in blank / TAB / FF / VT / NBSP / U+3000, text at the 512 window): Message::verify / CleartextSignedMessage::verify with a recording key - the digest handed to the key = RFC 9580 5.2.4 digest (salt, canonical text or the 7.2 signed form, fields, trailer) computed from the wire bytes",
        ic.into_par_iter(),
        run_inline,
    );
    let mut pa = Vec::new();
    for key in [KeyKind::Ed25519V4, KeyKind::Ed25519V6, KeyKind::EcdsaP256V4, KeyKind::Rsa2048V4, KeyKind::Ed448V6] {
        for hash in [1u8, 2] {
            for long_form in [false, true] {
                for size in [1usize, 2, 17, 18, 40, 191, 192, 193, 1000, 16319, 16320] {
                    for typ in [1u8, 100] {
                        pa.push(ParsedAttrCase { key, hash, long_form, size, typ });
                    }
                }
            }
        }
    }
    ctx.run_space(
        "parsed_user_attributes",
        true,
        "user attribute packets read from the wire (image and unknown type; sub-record sizes 1..16320; sub-record length in its minimal and in the five-octet form) x 5 keys (v4/v6) x 2 hashes: a certification the library makes over the parsed attribute (recording signer) and its verification (recording verifier) hash the packet body as it was on the wire behind 0xD1 + four-octet length; a certification made by the model over the wire bytes verifies",
        pa.into_par_iter(),
        run_parsed_attr,
    );
    ctx.assume("key packet bodies are taken from the library's serialisation (their correctness is C05/C13); the claim here is framing, prefixes, length widths, salt, hashed fields and trailer");
    let _ = codec::sha1;
}

pub fn replay(space: &str, case: &Value) -> Option<Outcome> {
    match space {
        "created_and_verified" => replay_as(case, run_created),
        "v3_signatures_verify_only" => replay_as(case, run_v3),
        "crafted_v6_signatures" => replay_as(case, run_crafted_v6),
        "inline_and_cleartext_verification" => replay_as(case, run_inline),
        "parsed_user_attributes" => replay_as(case, run_parsed_attr),
        _ => None,
    }
}
