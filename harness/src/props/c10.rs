//! C10 — ASCII armor round trip, checksum correctness and tolerant reading.

use std::{
    collections::BTreeMap,
    io::{BufReader, Read},
    sync::Arc,
};

use pgp::armor::{self, ArmorCrc24Status, BlockType, Dearmor, DearmorOptions, PKCS1Type};
use rayon::prelude::*;
use serde::{Deserialize, Serialize};
use serde_json::Value;

use crate::{
    engine::{
        io::{self as eio, Consumer, Explore, Script, ScriptedReader, SrcOpts},
        replay_as, Ctx, Outcome,
    },
    reference::armor as model,
};

/// Raw bytes as a `Serialize` source for `armor::write`.
pub struct Raw<'a>(pub &'a [u8]);

impl pgp::ser::Serialize for Raw<'_> {
    fn to_writer<W: std::io::Write>(&self, w: &mut W) -> pgp::errors::Result<()> {
        w.write_all(self.0)?;
        Ok(())
    }
    fn write_len(&self) -> usize {
        self.0.len()
    }
}

/// A source that delivers its octets in pieces, optionally flushing the writer in between (what a
/// caller-written `Serialize` may do): the armor that comes out must not depend on it.
pub struct Pieces<'a> {
    pub data: &'a [u8],
    pub cut: usize,
    pub flush: bool,
}

impl pgp::ser::Serialize for Pieces<'_> {
    fn to_writer<W: std::io::Write>(&self, w: &mut W) -> pgp::errors::Result<()> {
        let cut = self.cut.min(self.data.len());
        w.write_all(&self.data[..cut])?;
        if self.flush {
            w.flush()?;
        }
        w.write_all(&self.data[cut..])?;
        Ok(())
    }
    fn write_len(&self) -> usize {
        self.data.len()
    }
}

pub fn pattern(len: usize, p: u8) -> Vec<u8> {
    match p {
        0 => vec![0u8; len],
        1 => vec![0xFFu8; len],
        2 => (0..len).map(|i| (i * 7 + 3) as u8).collect(),
        _ => (0..len).map(|i| ((i * 131) ^ (i >> 3)) as u8).collect(),
    }
}

pub fn blocks() -> Vec<BlockType> {
    vec![
        BlockType::Message,
        BlockType::PublicKey,
        BlockType::PrivateKey,
        BlockType::Signature,
        BlockType::File,
        BlockType::MultiPartMessage(1, 2),
        BlockType::MultiPartMessage(12, 345),
        BlockType::MultiPartMessage(65535, 65536),
        BlockType::MultiPartMessage(1 << 32, 0),
        BlockType::MultiPartMessage(usize::MAX, usize::MAX),
        BlockType::PublicKeyPKCS1(PKCS1Type::RSA),
        BlockType::PublicKeyPKCS1(PKCS1Type::DSA),
        BlockType::PublicKeyPKCS1(PKCS1Type::EC),
        BlockType::PublicKeyPKCS8,
        BlockType::PublicKeyOpenssh,
        BlockType::PrivateKeyPKCS1(PKCS1Type::RSA),
        BlockType::PrivateKeyPKCS1(PKCS1Type::DSA),
        BlockType::PrivateKeyPKCS1(PKCS1Type::EC),
        BlockType::PrivateKeyPKCS8,
        BlockType::PrivateKeyOpenssh,
    ]
}

pub fn header_sets() -> Vec<Vec<(String, String)>> {
    let h = |v: &[(&str, &str)]| {
        v.iter()
            .map(|(a, b)| (a.to_string(), b.to_string()))
            .collect::<Vec<_>>()
    };
    vec![
        h(&[]),
        h(&[("Version", "rpgp 1.0")]),
        h(&[("Comment", "a b c"), ("Version", "x")]),
        h(&[("Comment", "first"), ("Comment", "second")]),
        h(&[("Comment", "")]),
        h(&[("Comment", "h\u{e9}llo \u{4e16}\u{754c}")]),
        h(&[("Comment", "key: value inside")]),
        h(&[("X-Long", "0123456789012345678901234567890123456789012345678901234567890123456789012345678901234567890123456789")]),
    ]
}

fn to_map(h: &[(String, String)]) -> BTreeMap<String, Vec<String>> {
    let mut m: BTreeMap<String, Vec<String>> = BTreeMap::new();
    for (k, v) in h {
        m.entry(k.clone()).or_default().push(v.clone());
    }
    m
}

/// headers in the order the writer emits them (BTreeMap order, values in insertion order)
fn map_order(h: &[(String, String)]) -> Vec<(String, String)> {
    let m = to_map(h);
    let mut out = Vec::new();
    for (k, vs) in m {
        for v in vs {
            out.push((k.clone(), v));
        }
    }
    out
}

#[derive(Clone, Debug, Hash, Serialize, Deserialize)]
pub struct RtCase {
    pub len: usize,
    pub pat: u8,
    pub block: usize,
    pub hdr: usize,
    pub checksum: bool,
}

fn dearmor_all(
    input: &[u8],
    opts: DearmorOptions,
) -> Result<(Vec<u8>, Option<BlockType>, armor::Headers, Option<u64>, ArmorCrc24Status), String> {
    let mut d = Dearmor::with_options(BufReader::new(input), opts);
    let mut out = Vec::new();
    d.read_to_end(&mut out).map_err(|e| e.to_string())?;
    let st = d.crc24_status();
    Ok((out, d.typ, d.headers.clone(), d.checksum, st))
}

fn run_roundtrip(c: &RtCase) -> Outcome {
    let data = pattern(c.len, c.pat);
    let block = blocks()[c.block];
    let hdrs = &header_sets()[c.hdr];
    let map = to_map(hdrs);
    let mut written = Vec::new();
    if let Err(e) = armor::write(
        &Raw(&data),
        block,
        &mut written,
        if hdrs.is_empty() { None } else { Some(&map) },
        c.checksum,
    ) {
        return Outcome::bad("C10:write:error", e.to_string());
    }
    let mut o = Outcome::ok("roundtrip-ok");
    let want = model::armor(&block.to_string(), &map_order(hdrs), &data, c.checksum, b"\n");
    // the same data handed over in two pieces, with and without a flush in between, at every cut
    // (short data) / at the cuts around the line and quantum edges
    if c.pat == 2 && c.block == 0 {
        let cuts: Vec<usize> = if c.len <= 200 { (0..=c.len).collect() } else { vec![1, 2, 3, 47, 48, 49, 95, 96, 97, c.len / 2, c.len - 1] };
        for cut in cuts {
            for flush in [false, true] {
                let mut w2 = Vec::new();
                let r = armor::write(&Pieces { data: &data, cut, flush }, block, &mut w2, if hdrs.is_empty() { None } else { Some(&map) }, c.checksum);
                if r.is_err() || w2 != written {
                    o.push(
                        "C10:write:output-depends-on-how-the-source-writes",
                        format!("len {} hdr {}: data written as {cut} + {} octets{}: {}", c.len, c.hdr, c.len - cut.min(c.len), if flush { " with a flush in between" } else { "" }, if r.is_err() { "error".to_string() } else { format!("{} octets instead of {}", w2.len(), written.len()) }),
                    );
                    break;
                }
            }
            if !o.viol.is_empty() {
                break;
            }
        }
    }
    if written != want {
        // decide which stated sub-property is broken
        let text = String::from_utf8_lossy(&written).to_string();
        let body: Vec<&str> = text
            .lines()
            .skip_while(|l| !l.is_empty())
            .skip(1)
            .take_while(|l| !l.starts_with('=') && !l.starts_with("-----"))
            .collect();
        if body.iter().any(|l| l.len() > 64) {
            o.push("C10:write:line-longer-than-64", format!("len {} block {:?}", c.len, block));
        } else if body.concat().as_bytes() != &model::b64_encode(&data)[..] {
            o.push(
                "C10:write:body-not-canonical-base64",
                format!("len {} pat {}: body differs from canonical base64", c.len, c.pat),
            );
        } else if c.checksum
            && !text
                .lines()
                .any(|l| l.as_bytes() == &model::checksum_line(&data)[..])
        {
            o.push(
                "C10:write:checksum-not-crc24",
                format!(
                    "len {} pat {}: emitted checksum line is not {}",
                    c.len,
                    c.pat,
                    String::from_utf8_lossy(&model::checksum_line(&data))
                ),
            );
        } else {
            o.push(
                "C10:write:differs-from-model",
                format!(
                    "len {} block {:?} hdr {}: written armor differs from the model encoding at byte {}",
                    c.len,
                    block,
                    c.hdr,
                    written
                        .iter()
                        .zip(want.iter())
                        .position(|(a, b)| a != b)
                        .unwrap_or(written.len().min(want.len()))
                ),
            );
        }
    }
    match dearmor_all(&written, DearmorOptions::new()) {
        Ok((out, typ, headers, checksum, st)) => {
            if out != data {
                o.push(
                    "C10:roundtrip:data-differs",
                    format!("len {} pat {}: got {} bytes", c.len, c.pat, out.len()),
                );
            }
            if typ != Some(block) {
                o.push(
                    "C10:roundtrip:type-differs",
                    format!("wrote {:?}, read {:?}", block, typ),
                );
            }
            if headers != map {
                o.push(
                    format!("C10:roundtrip:headers-differ:set{}", c.hdr),
                    format!("wrote {:?}, read {:?}", map, headers),
                );
            }
            let want_ck = c.checksum.then(|| model::crc24(&data) as u64);
            if checksum != want_ck {
                o.push(
                    "C10:roundtrip:checksum-field",
                    format!("footer checksum {:?}, model {:?}", checksum, want_ck),
                );
            }
            let st_ok = match (c.checksum, st) {
                (false, ArmorCrc24Status::NoCrc24) => true,
                (true, ArmorCrc24Status::Unchecked { footer_crc }) => {
                    footer_crc == model::crc24(&data)
                }
                _ => false,
            };
            if !st_ok {
                o.push("C10:roundtrip:crc-status", format!("{st:?}"));
            }
        }
        Err(e) => o.push(
            "C10:roundtrip:dearmor-error",
            format!("len {} block {:?} hdr {}: {e}", c.len, block, c.hdr),
        ),
    }
    o
}

#[derive(Clone, Debug, Hash, Serialize, Deserialize)]
pub struct VarCase {
    pub len: usize,
    pub pat: u8,
    pub variant: u8,
    pub hdr: usize,
    pub checksum: bool,
}

pub const VARIANTS: [&str; 10] = [
    "crlf",
    "blank-line-with-space-tab",
    "leading-text",
    "trailing-newlines",
    "no-final-newline",
    "crlf+leading+trailing",
    "blank-line-crlf-with-space",
    "leading-text-crlf",
    "blank-line-with-tab",
    "empty-line-after-checksum",
];

fn variant_text(c: &VarCase) -> (Vec<u8>, Vec<u8>, BTreeMap<String, Vec<String>>) {
    let data = pattern(c.len, c.pat);
    let hdrs = &header_sets()[c.hdr];
    let base = |eol: &[u8]| model::armor("PGP MESSAGE", &map_order(hdrs), &data, c.checksum, eol);
    let blank_with = |eol: &[u8], ws: &[u8]| {
        // replace the empty separator line by a whitespace-only one
        let mut out = Vec::new();
        out.extend_from_slice(b"-----BEGIN PGP MESSAGE-----");
        out.extend_from_slice(eol);
        for (k, v) in map_order(hdrs) {
            out.extend_from_slice(k.as_bytes());
            out.extend_from_slice(b": ");
            out.extend_from_slice(v.as_bytes());
            out.extend_from_slice(eol);
        }
        out.extend_from_slice(ws);
        out.extend_from_slice(eol);
        out.extend_from_slice(&model::body_lines(&data, eol));
        if c.checksum {
            out.extend_from_slice(&model::checksum_line(&data));
            out.extend_from_slice(eol);
        }
        out.extend_from_slice(b"-----END PGP MESSAGE-----");
        out.extend_from_slice(eol);
        out
    };
    let text = match c.variant {
        0 => base(b"\r\n"),
        1 => blank_with(b"\n", b" \t "),
        2 => [&b"Some leading text, then the block.\n\n"[..], &base(b"\n")].concat(),
        3 => [&base(b"\n")[..], b"\n\n"].concat(),
        4 => {
            let mut t = base(b"\n");
            t.pop();
            t
        }
        5 => [&b"junk\r\n"[..], &base(b"\r\n"), b"\r\n"].concat(),
        6 => blank_with(b"\r\n", b" "),
        7 => [&b"leading\r\nlines\r\n"[..], &base(b"\r\n")].concat(),
        8 => blank_with(b"\n", b"\t"),
        _ => {
            // an empty line between the checksum (or the last body line) and the END line
            let t = base(b"\n");
            let marker = b"-----END";
            let p = t.windows(marker.len()).rposition(|w| w == marker).unwrap_or(t.len());
            [&t[..p], b"\n", &t[p..]].concat()
        }
    };
    (text, data, to_map(hdrs))
}

fn run_variant(c: &VarCase) -> Outcome {
    let (text, data, map) = variant_text(c);
    let name = VARIANTS[c.variant as usize];
    if c.variant == 9 {
        // not a layout the format spells out: demanded is only that the verdict does not depend
        // on the data length (the reference length is 5)
        let (ref_text, ref_data, _) = variant_text(&VarCase { len: 5, ..c.clone() });
        let reference = dearmor_all(&ref_text, DearmorOptions::new()).map(|r| r.0 == ref_data);
        let here = dearmor_all(&text, DearmorOptions::new()).map(|r| r.0 == data);
        return match (reference, here) {
            (Ok(true), Ok(true)) => Outcome::ok(format!("{name}:accepted-at-every-length")),
            (Err(_), Err(_)) => Outcome::ok(format!("{name}:rejected-at-every-length")),
            (r, h) => Outcome::bad(
                format!("C10:variant:{name}:verdict-depends-on-length"),
                format!("len {} hdr {} checksum {}: {:?}, at length 5: {:?}", c.len, c.hdr, c.checksum, h.map_err(|e| e.to_string()), r.map_err(|e| e.to_string())),
            ),
        };
    }
    match dearmor_all(&text, DearmorOptions::new()) {
        Ok((out, typ, headers, checksum, _)) => {
            let mut o = Outcome::ok(format!("{name}:same-result"));
            if out != data || typ != Some(BlockType::Message) || headers != map {
                o.push(
                    format!("C10:variant:{name}:different-result"),
                    format!(
                        "len {}: data equal={} type {:?} headers {:?}",
                        c.len,
                        out == data,
                        typ,
                        headers
                    ),
                );
            }
            if checksum != c.checksum.then(|| model::crc24(&data) as u64) {
                o.push(
                    format!("C10:variant:{name}:checksum-field"),
                    format!("{checksum:?}"),
                );
            }
            o
        }
        Err(e) => Outcome::bad(
            format!("C10:variant:{name}:rejected"),
            format!("len {} hdr {} checksum {}: {e}", c.len, c.hdr, c.checksum),
        ),
    }
}

#[derive(Clone, Debug, Hash, Serialize, Deserialize)]
pub struct CrcCase {
    pub len: usize,
    pub pat: u8,
    /// 0 correct, 1..=24 flip bit k-1, 25 the CRC-24 init value, 26 absent, 27 all zero
    pub footer: u8,
    pub crlf: bool,
}

fn run_crc(c: &CrcCase) -> Outcome {
    let data = pattern(c.len, c.pat);
    let good = model::crc24(&data);
    let footer: Option<u32> = match c.footer {
        0 => Some(good),
        k @ 1..=24 => Some(good ^ (1 << (k - 1))),
        25 => Some(model::CRC24_INIT),
        26 => None,
        _ => Some(0),
    };
    let eol: &[u8] = if c.crlf { b"\r\n" } else { b"\n" };
    let mut text = Vec::new();
    text.extend_from_slice(b"-----BEGIN PGP MESSAGE-----");
    text.extend_from_slice(eol);
    text.extend_from_slice(eol);
    text.extend_from_slice(&model::body_lines(&data, eol));
    if let Some(f) = footer {
        text.push(b'=');
        text.extend_from_slice(&model::b64_encode(&[(f >> 16) as u8, (f >> 8) as u8, f as u8]));
        text.extend_from_slice(eol);
    }
    text.extend_from_slice(b"-----END PGP MESSAGE-----");
    text.extend_from_slice(eol);
    let matches = footer.is_none_or(|f| f == good);
    let res = dearmor_all(&text, DearmorOptions::new().enable_crc24_check());
    let calc = |e: &str| {
        // classify through a second read that tolerates the error: what was calculated?
        let mut d = Dearmor::with_options(
            BufReader::new(&text[..]),
            DearmorOptions::new().enable_crc24_check(),
        );
        let mut sink = Vec::new();
        let _ = d.read_to_end(&mut sink);
        match d.crc24_status() {
            ArmorCrc24Status::CheckedInvalid { calculated_crc, .. } => {
                if calculated_crc == model::CRC24_INIT {
                    "calculated=init-value".to_string()
                } else if calculated_crc == good {
                    "calculated=correct".to_string()
                } else {
                    "calculated=other".to_string()
                }
            }
            other => format!("status={other:?}:{e}")
                .chars()
                .take(60)
                .collect(),
        }
    };
    match (matches, res) {
        (true, Ok((out, _, _, _, st))) => {
            let mut o = Outcome::ok("match:accepted");
            if out != data {
                o.push("C10:crc-check:data-differs", format!("len {}", c.len));
            }
            let st_ok = match (footer, st) {
                (None, ArmorCrc24Status::NoCrc24) => true,
                (Some(f), ArmorCrc24Status::CheckedOk { crc }) => crc == f,
                _ => false,
            };
            if !st_ok {
                o.push("C10:crc-check:status", format!("{st:?} for footer {footer:?}"));
            }
            o
        }
        (false, Err(_)) => Outcome::ok("mismatch:rejected"),
        (true, Err(e)) => {
            let cl = calc(&e);
            Outcome::bad(
                format!("C10:crc-check:correct-checksum-rejected:{cl}"),
                format!(
                    "len {} pat {}: body with its correct CRC-24 {:06x} is rejected with the check enabled: {e} ({cl})",
                    c.len, c.pat, good
                ),
            )
        }
        (false, Ok(_)) => {
            let which = if footer == Some(model::CRC24_INIT) {
                "footer=init-value"
            } else {
                "footer=other"
            };
            Outcome::bad(
                format!("C10:crc-check:wrong-checksum-accepted:{which}"),
                format!(
                    "len {} pat {}: footer {:06x} != CRC-24 {:06x} but the armor is accepted with the check enabled",
                    c.len,
                    c.pat,
                    footer.unwrap_or(0),
                    good
                ),
            )
        }
    }
}

#[derive(Clone, Debug, Hash, Serialize, Deserialize)]
pub struct SchedCase {
    pub len: usize,
    pub cap: usize,
    pub consumer: Consumer,
    pub uniform: Option<usize>,
    pub faults: bool,
    pub crlf: bool,
    pub max_dev: usize,
    pub stateful: bool,
    /// header layout: 0 the default two headers; 1 none; 2 repeated key + empty value + a value
    /// containing ": "; 3 forty lines (longer than the small buffer capacities); 4 one 100-octet value
    #[serde(default)]
    pub hdr: u8,
    /// text (incl. a blank line and dashes short of five) in front of the armor header line
    #[serde(default)]
    pub lead: bool,
    /// content of the blank line that ends the headers: 0 empty, 1 one blank, 2 a TAB, 3 blank TAB blank
    #[serde(default)]
    pub sep: u8,
}

fn sched_headers(hdr: u8) -> Vec<(String, String)> {
    let sets = header_sets();
    match hdr {
        0 => sets[2].clone(),
        1 => vec![],
        2 => [sets[3].clone(), sets[4].clone(), sets[6].clone()].concat(),
        3 => (0..40).map(|i| ("Comment".to_string(), format!("line {i}"))).collect(),
        _ => sets[7].clone(),
    }
}

#[derive(Debug, PartialEq, Eq, Clone)]
struct Obs {
    out: Vec<u8>,
    err: Option<String>,
    typ: Option<BlockType>,
    headers: BTreeMap<String, Vec<String>>,
    checksum: Option<u64>,
}

fn run_sched(c: &SchedCase) -> Outcome {
    let data = pattern(c.len, 2);
    let hdrs = &sched_headers(c.hdr);
    let eol: &[u8] = if c.crlf { b"\r\n" } else { b"\n" };
    let mut armored = model::armor("PGP MESSAGE", &map_order(hdrs), &data, true, eol);
    if c.sep != 0 {
        // the first empty line is the header / body separator
        let ws: &[u8] = [&b" "[..], b"\t", b" \t "][(c.sep - 1) as usize % 3];
        let double = [eol, eol].concat();
        if let Some(p) = armored.windows(double.len()).position(|w| w == double) {
            let at = p + eol.len();
            armored.splice(at..at, ws.iter().copied());
        }
    }
    let text = Arc::new(if c.lead { [&b"some text\n\n-- not yet ----\n"[..], &armored[..]].concat() } else { armored });
    let want_headers = to_map(hdrs);
    let horizon = 8 * text.len() + 256;
    let bounds = Explore {
        max_dev: c.max_dev,
        max_runs: 2_000_000,
        prune: c.stateful,
        horizon,
    };
    let mut o = Outcome::ok("schedule-independent");
    let mut viol: Option<(String, String)> = None;
    let stats = eio::explore(
        bounds,
        |script: &Script| {
            let src = ScriptedReader::new(
                text.clone(),
                script.clone(),
                SrcOpts {
                    faults: c.faults,
                    boundaries: vec![4, 65, 66, 1024],
                    uniform: c.uniform,
                    reduced_menu: c.stateful,
                    ..Default::default()
                },
            );
            let mut d = Dearmor::new(BufReader::with_capacity(c.cap, src));
            let cons = if c.stateful {
                eio::consume(&mut d, Consumer::Scripted, script, true, |d, n| {
                    script.mark_state(crate::engine::h64(&(format!("{d:?}"), n)));
                })
            } else {
                eio::consume(&mut d, c.consumer, script, false, |_, _| {})
            };
            Obs {
                out: cons.out,
                err: cons.err,
                typ: d.typ,
                headers: d.headers.clone(),
                checksum: d.checksum,
            }
        },
        |script, obs| {
            if script.horizon_hit() {
                viol = Some((
                    "C10:schedule:livelock".into(),
                    format!("horizon {horizon} hit: {}", eio::schedule_string(&script.trace())),
                ));
                return false;
            }
            if script.fault_injected() {
                if obs.err.is_none() {
                    viol = Some((
                        "C10:schedule:source-error-swallowed".into(),
                        format!(
                            "len {} cap {}: source returned an error but dearmoring ended cleanly with {} of {} bytes; schedule {}",
                            c.len,
                            c.cap,
                            obs.out.len(),
                            data.len(),
                            eio::schedule_string(&script.trace())
                        ),
                    ));
                    return false;
                }
                return true;
            }
            if obs.err.is_some()
                || obs.out != data
                || obs.typ != Some(BlockType::Message)
                || obs.headers != want_headers
                || obs.checksum != Some(model::crc24(&data) as u64)
            {
                viol = Some((
                    "C10:schedule:result-depends-on-fragmentation".into(),
                    format!(
                        "len {} cap {} consumer {:?}: err {:?}, {} bytes (want {}), type {:?}; schedule {}",
                        c.len,
                        c.cap,
                        c.consumer,
                        obs.err,
                        obs.out.len(),
                        data.len(),
                        obs.typ,
                        eio::schedule_string(&script.trace())
                    ),
                ));
                return false;
            }
            true
        },
    );
    o.evals = stats.runs;
    o.transitions = stats.points;
    if stats.runs > 50_000 && std::env::var_os("VERIF_DEBUG").is_some() {
        eprintln!("[debug] {c:?}: {stats:?}");
    }
    if let Some(d) = stats.diverged {
        o.push("MACHINERY:replay-divergence", d);
    }
    if stats.cap_hit {
        o.class = "cap-hit".into();
    }
    if c.stateful {
        o.class = format!("stateful:{}", o.class);
        o.states = vec![]; // states are counted through `stateful_states`
    }
    if let Some((s, w)) = viol {
        o.push(s, w);
    }
    o
}

pub fn check(ctx: &Ctx) {
    if let Err(e) = model::self_test() {
        eprintln!("MACHINERY: armor reference model self-test failed: {e}");
        std::process::exit(2);
    }
    let maxlen = ctx.tier.pick(4096, 20_000);
    let mut rt = Vec::new();
    let mut lens: Vec<usize> = (0..=maxlen).collect();
    if false {
        // every residue mod 48 (one base64 line) up to 4096, sparsely
        for k in (513..=4096).step_by(48 * 4 + 1) {
            lens.push(k);
        }
    } else {
        lens.extend([8191, 8192, 8193, 65535, 65536, 65537, 1 << 20]);
    }
    for &len in &lens {
        for pat in 0..3u8 {
            for checksum in [true, false] {
                rt.push(RtCase {
                    len,
                    pat,
                    block: 0,
                    hdr: (len + pat as usize) % header_sets().len(),
                    checksum,
                });
            }
        }
    }
    for block in 0..blocks().len() {
        for hdr in 0..header_sets().len() {
            for len in [0usize, 1, 2, 3, 47, 48, 49, 100] {
                for checksum in [true, false] {
                    rt.push(RtCase {
                        len,
                        pat: 3,
                        block,
                        hdr,
                        checksum,
                    });
                }
            }
        }
    }
    ctx.run_space(
        "roundtrip",
        true,
        &format!("armor::write (the source writing at once, in two pieces, and in two pieces with a flush in between at every cut) -> byte-compare with the model encoder -> Dearmor: every length 0..={maxlen} (+ sparse up to 4096 / large in thorough) x 3 patterns x checksum on/off; all 20 block types x 8 header sets x 8 lengths x checksum"),
        rt.into_par_iter(),
        run_roundtrip,
    );

    let mut vc = Vec::new();
    let vlens: Vec<usize> = if false {
        (0..=200).chain(755..=775).chain(1525..=1540).chain([1023, 1024, 1025, 2000]).collect()
    } else {
        (0..=ctx.tier.pick(2100, 6200)).collect()
    };
    for &len in &vlens {
        for variant in 0..VARIANTS.len() as u8 {
            for checksum in [true, false] {
                vc.push(VarCase {
                    len,
                    pat: 2,
                    variant,
                    hdr: len % 6,
                    checksum,
                });
            }
        }
    }
    ctx.run_space(
        "reader_variants",
        true,
        "model-armored text in 9 tolerated layouts (CRLF, whitespace-only separator line with blanks / a TAB, leading text, trailing newlines, no final newline, combinations) and with an empty line in front of the END line (verdict must not depend on the length) x lengths x 6 header sets x checksum present/absent -> same (data, type, headers)",
        vc.into_par_iter(),
        run_variant,
    );

    let mut cc = Vec::new();
    let clens: Vec<usize> = if ctx.tier == crate::engine::Tier::Quick {
        (0..=130).chain([767, 768, 769, 1500]).collect()
    } else {
        (0..=1600).collect()
    };
    for &len in &clens {
        for footer in 0..=27u8 {
            for crlf in [false, true] {
                cc.push(CrcCase {
                    len,
                    pat: 2,
                    footer,
                    crlf,
                });
            }
        }
    }
    ctx.run_space(
        "crc_check",
        true,
        "Dearmor with enable_crc24_check: footer in {correct, each of 24 single-bit flips, CRC-24 init value, absent, zero} x lengths x LF/CRLF: accepted iff footer = model CRC-24 (or absent)",
        cc.into_par_iter(),
        run_crc,
    );

    let mut sc = Vec::new();
    // the former thorough bounds take seconds: they are the quick tier now; `deep` = thorough
    let quick = false;
    #[allow(unused_variables)]
    let deep = ctx.tier == crate::engine::Tier::Thorough;
    let slens: &[usize] = if quick {
        &[0, 1, 3, 48, 49, 97, 770]
    } else {
        &[0, 1, 2, 3, 4, 5, 46, 47, 48, 49, 50, 95, 96, 97, 143, 144, 145, 767, 768, 769, 770, 1536, 1600, 4000]
    };
    let layouts: Vec<(u8, bool, u8)> = if quick {
        vec![(0, false, 0), (1, false, 2), (2, true, 1), (3, false, 3)]
    } else {
        (0..5u8).flat_map(|h| [(h, false, 0), (h, true, 0), (h, false, 1), (h, false, 2), (h, true, 3)]).collect()
    };
    for &len in slens {
      for &(hdr, lead, sep) in &layouts {
        // the layouts other than the default one on the short bodies
        if hdr != 0 && len > if quick { 49 } else { 145 } {
            continue;
        }
        for crlf in [false, true] {
            for cap in [1usize, 5, 64, 8192] {
                for consumer in [
                    Consumer::ToEnd,
                    Consumer::Fixed(1),
                    Consumer::Fixed(3),
                    Consumer::Fixed(64),
                    Consumer::Scripted,
                ] {
                    // uniform adversarial schedules (0 deviations needed)
                    for uniform in [Some(1), Some(2), Some(3), Some(7)] {
                        sc.push(SchedCase {
                            len,
                            cap,
                            consumer,
                            uniform,
                            faults: false,
                            crlf,
                            max_dev: 0,
                            stateful: false,
                            hdr,
                            lead,
                            sep,
                        });
                    }
                    // deviation bounded (every single deviation incl. a source fault at every call)
                    let dev_ok = if quick {
                        len <= 100
                    } else {
                        len <= 200 || cap >= 64
                    };
                    if dev_ok {
                        sc.push(SchedCase {
                            len,
                            cap,
                            consumer,
                            uniform: None,
                            faults: true,
                            crlf,
                            max_dev: if !quick && ((len <= 49 && hdr == 0) || (deep && len <= 97 && hdr <= 1)) { 2 } else { 1 },
                            stateful: false,
                            hdr,
                            lead,
                            sep,
                        });
                    }
                }
            }
        }
      }
    }
    ctx.run_space(
        "read_schedules",
        true,
        "E1: Dearmor<BufReader(cap) over scripted source> for 5 header layouts (none, two, repeated / empty / colon-carrying values, forty lines, one long value) with and without leading text in front of the armor, separator line empty / blank / TAB / mixed: uniform 1/2/3/7-byte sources, all executions with <=1 (thorough: <=2 for short inputs) deviation from the default answer incl. an injected source error at every call, oracle: same (data,type,headers,checksum) / error surfaces",
        sc.into_par_iter(),
        run_sched,
    );
    ctx.assume("header values are single-line text without CR/LF; keys contain no ':'");
}

pub fn replay(space: &str, case: &Value) -> Option<Outcome> {
    match space {
        "roundtrip" => replay_as(case, run_roundtrip),
        "reader_variants" => replay_as(case, run_variant),
        "crc_check" => replay_as(case, run_crc),
        "read_schedules" => replay_as(case, run_sched),
        _ => None,
    }
}
