//! C02 — signature soundness: only the signed content under the signer's key verifies.
//!
//! E2 `mutexplore`: every single-bit deviation of small valid artefacts (content, signature
//! packet, verifying key, one-pass header, whole messages, whole certificates); verdict demanded
//! only where the independent decoder says a protected abstract value changed.

use std::io::Read;

use pgp::{
    composed::{Deserializable, DetachedSignature, Message, SignedPublicKey},
    packet::{Packet, PacketParser},
    ser::Serialize as _,
    types::KeyDetails,
};
use rayon::prelude::*;
use serde::{Deserialize, Serialize};
use serde_json::Value;

use crate::{
    common::{
        self,
        msg::{self, Enc, MsgCfg},
        sigs::{self, Artefact, SigKind, Spec, ALL_KINDS},
        KeyKind,
    },
    engine::{replay_as, Ctx, Outcome, Tier},
    reference::{
        canon::canon,
        codec::{self, Kind, Summary},
        frame::frame_min,
    },
};

/// The protected abstract value of a signature packet: everything except the unhashed area,
/// with MPI values normalised (leading zero octets / bit counts do not matter).
pub fn protected_view(sig_body: &[u8]) -> Option<Vec<u8>> {
    let d = codec::decode_packet(2, sig_body).ok()?;
    let Summary::Signature(s) = &d.summary else { return None };
    let mut out = Vec::new();
    for f in &d.fields {
        // skip the unhashed area (its length field and content)
        let in_unhashed = f.start >= s.unhashed_len_field.0 && f.end <= s.unhashed.1 && s.version >= 4;
        if in_unhashed {
            continue;
        }
        match f.kind {
            Kind::MpiBits => {}
            Kind::MpiBody => {
                let mut v = &sig_body[f.start..f.end];
                while v.first() == Some(&0) {
                    v = &v[1..];
                }
                out.push(0xAA);
                out.extend_from_slice(&(v.len() as u32).to_be_bytes());
                out.extend_from_slice(v);
            }
            _ => {
                out.push(0xBB);
                out.extend_from_slice(&((f.end - f.start) as u32).to_be_bytes());
                out.extend_from_slice(&sig_body[f.start..f.end]);
            }
        }
    }
    // an MPI whose value became empty/shorter is covered by the value comparison above
    Some(out)
}

/// The abstract value of a public key packet body (MPI bit counts and leading zeros ignored).
pub fn key_view(tag: u8, body: &[u8]) -> Option<Vec<u8>> {
    let d = codec::decode_packet(tag, body).ok()?;
    let mut out = Vec::new();
    for f in &d.fields {
        match f.kind {
            Kind::MpiBits => {}
            Kind::MpiBody => {
                let mut v = &body[f.start..f.end];
                while v.first() == Some(&0) {
                    v = &v[1..];
                }
                out.push(0xAA);
                out.extend_from_slice(&(v.len() as u32).to_be_bytes());
                out.extend_from_slice(v);
            }
            _ => {
                out.push(0xBB);
                out.extend_from_slice(&((f.end - f.start) as u32).to_be_bytes());
                out.extend_from_slice(&body[f.start..f.end]);
            }
        }
    }
    Some(out)
}

#[derive(Clone, Copy, Debug, Hash, PartialEq, Eq, Serialize, Deserialize)]
pub enum Target {
    Content,
    SignaturePacket,
    KeyPacket,
    OtherKeys,
}

#[derive(Clone, Debug, Hash, Serialize, Deserialize)]
pub struct ArtCase {
    pub spec: Spec,
    pub target: Target,
}

fn equivalent_content(kind: SigKind, a: &[u8], b: &[u8]) -> bool {
    match kind {
        SigKind::DocText => canon(a) == canon(b),
        _ => a == b,
    }
}

fn run_art(c: &ArtCase) -> Outcome {
    let a: Artefact = match sigs::make(&c.spec) {
        Ok(a) => a,
        Err(e) => return Outcome::bad("C02:sign-error", format!("{:?}: {e}", c.spec)),
    };
    let name = format!("{:?}", c.spec.kind);
    let name = name.split('(').next().unwrap_or("").to_string();
    let mut o = Outcome::ok("all-deviations-rejected");
    let mut evals = 0u64;
    let mut rejected_at_parse = 0u64;
    let mut accepted_unprotected = 0u64;
    // the unmodified artefact must verify (guards against a vacuous oracle)
    if let Err(e) = sigs::verify_default(&a, &a.sig, &c.spec.object) {
        return Outcome::bad(format!("C02:{name}:authentic-signature-rejected"), format!("{:?}: {e}", c.spec));
    }
    let ctx = |what: String| format!("{:?} key {:?} hash {}: {what}", c.spec.kind, c.spec.key, c.spec.hash);
    match c.target {
        Target::Content => {
            let obj = &c.spec.object;
            let mut variants: Vec<(String, Vec<u8>)> = Vec::new();
            for pos in 0..obj.len() {
                for bit in 0..8 {
                    let mut v = obj.clone();
                    v[pos] ^= 1 << bit;
                    variants.push((format!("bit {bit} of content octet {pos} flipped"), v));
                }
            }
            for len in 0..obj.len() {
                variants.push((format!("content truncated to {len} octets"), obj[..len].to_vec()));
            }
            for ext in [&b"\0"[..], b"a", b"\n", b"\r\n", b"\0\0", b"ab", b" "] {
                let mut v = obj.clone();
                v.extend_from_slice(ext);
                variants.push((format!("content extended by {:?}", ext), v));
                let mut v = ext.to_vec();
                v.extend_from_slice(obj);
                variants.push((format!("content prefixed by {:?}", ext), v));
            }
            for (what, v) in variants {
                if matches!(c.spec.kind, SigKind::SubkeyBinding | SigKind::SubkeyRevocation | SigKind::PrimaryKeyBinding | SigKind::DirectKey | SigKind::KeyRevocation) {
                    break; // the signed object is a key: see Target::KeyPacket
                }
                if matches!(c.spec.kind, SigKind::CertUserId(_) | SigKind::CertRevocation | SigKind::ThirdPartyCert) && sigs::uid_from_bytes(&v).is_none() {
                    continue;
                }
                evals += 1;
                let r = sigs::verify_default(&a, &a.sig, &v);
                let same = equivalent_content(c.spec.kind, &v, obj);
                match (same, r.is_ok()) {
                    (false, true) => {
                        o.push(format!("C02:{name}:modified-content-verifies"), ctx(what));
                        break;
                    }
                    (true, false) => {
                        o.push(format!("C02:{name}:equivalent-content-rejected"), ctx(what));
                        break;
                    }
                    _ => {}
                }
            }
        }
        Target::SignaturePacket => {
            let orig_view = protected_view(&a.sig_body);
            for pos in 0..a.sig_body.len() {
                for bit in 0..8 {
                    let mut b = a.sig_body.clone();
                    b[pos] ^= 1 << bit;
                    evals += 1;
                    let sig = match sigs::sig_from_body(&b) {
                        Ok(s) => s,
                        Err(_) => {
                            rejected_at_parse += 1;
                            continue;
                        }
                    };
                    let r = sigs::verify_default(&a, &sig, &c.spec.object);
                    if r.is_ok() {
                        let view = protected_view(&b);
                        if view.is_none() {
                            o.push(
                                format!("C02:{name}:malformed-signature-verifies"),
                                ctx(format!("bit {bit} of signature octet {pos} flipped: not decodable by the reference, but verifies")),
                            );
                        } else if view != orig_view {
                            let field = codec::decode_packet(2, &a.sig_body)
                                .ok()
                                .and_then(|d| d.fields.iter().find(|f| f.start <= pos && pos < f.end).map(|f| format!("{:?} ({})", f.kind, f.path)))
                                .unwrap_or_default();
                            o.push(
                                format!("C02:{name}:modified-signature-verifies"),
                                ctx(format!("bit {bit} of signature octet {pos} flipped (field {field}): still verifies")),
                            );
                        } else {
                            accepted_unprotected += 1;
                        }
                    }
                    if o.viol.len() >= 3 {
                        break;
                    }
                }
            }
            // one octet inserted into / removed from the hashed subpacket area at every position,
            // with the area length corrected (a structure-aware deviation: the result is a
            // well-formed packet whose hashed area differs from what was signed)
            if let Ok(d) = codec::decode_packet(2, &a.sig_body) {
                if let Summary::Signature(si) = &d.summary {
                    if si.version >= 4 && o.viol.is_empty() {
                        let (hs, he) = si.hashed;
                        let (ls, le) = si.hashed_len_field;
                        let mut variants: Vec<(String, Vec<u8>)> = Vec::new();
                        let set_len = |b: &mut Vec<u8>, n: usize| {
                            let w = le - ls;
                            let bytes = (n as u64).to_be_bytes();
                            b[ls..le].copy_from_slice(&bytes[8 - w..]);
                        };
                        for p in hs..=he {
                            for v in [0u8, 1, 2, 0x80, 0xFF] {
                                let mut b = a.sig_body.clone();
                                b.insert(p, v);
                                set_len(&mut b, he - hs + 1);
                                variants.push((format!("octet {v:#04x} inserted at offset {} of the hashed area (length field corrected)", p - hs), b));
                            }
                        }
                        for p in hs..he {
                            let mut b = a.sig_body.clone();
                            b.remove(p);
                            set_len(&mut b, he - hs - 1);
                            variants.push((format!("octet at offset {} of the hashed area removed (length field corrected)", p - hs), b));
                        }
                        // the packet body with octets appended after the signature value
                        for ext in [&[0u8][..], &[0xFF], &[0, 0], &[1, 2, 3, 4, 5, 6, 7, 8]] {
                            let mut b = a.sig_body.clone();
                            b.extend_from_slice(ext);
                            variants.push((format!("{} octets appended after the signature value", ext.len()), b));
                        }
                        for (what, b) in variants {
                            evals += 1;
                            let Ok(sig) = sigs::sig_from_body(&b) else {
                                rejected_at_parse += 1;
                                continue;
                            };
                            if sigs::verify_default(&a, &sig, &c.spec.object).is_ok() && protected_view(&b) != orig_view {
                                o.push(format!("C02:{name}:modified-signature-verifies"), ctx(format!("{what}: still verifies")));
                                break;
                            }
                        }
                    }
                }
            }
        }
        Target::KeyPacket => {
            // the verifying key (and for key-related signatures: the signed key) with one bit flipped
            let primary = a.cert.primary_key.public_key();
            let body = primary.to_bytes().expect("ser");
            let orig = key_view(6, &body);
            for pos in 0..body.len() {
                for bit in 0..8 {
                    let mut b = body.clone();
                    b[pos] ^= 1 << bit;
                    evals += 1;
                    let framed = frame_min(6, &b);
                    let k = match PacketParser::new(&framed[..]).next() {
                        Some(Ok(Packet::PublicKey(k))) => k,
                        _ => {
                            rejected_at_parse += 1;
                            continue;
                        }
                    };
                    let sub = a.cert.secret_subkeys[0].key.public_key();
                    let r = match c.spec.kind {
                        SigKind::ThirdPartyCert => sigs::uid_from_bytes(&c.spec.object)
                            .ok_or_else(|| pgp::errors::Error::from(std::io::Error::other("uid")))
                            .and_then(|u| a.sig.verify_third_party_certification(&k, a.other.primary_key.public_key(), pgp::types::Tag::UserId, &u)),
                        SigKind::PrimaryKeyBinding => a.sig.verify_primary_key_binding(a.other.primary_key.public_key(), &k),
                        _ => sigs::verify_with(&a, &a.sig, &c.spec.object, &k, &k, sub),
                    };
                    if r.is_ok() {
                        // the same abstract key (non-canonical encodings of it are C05's subject):
                        // the reference view is unchanged, or the library's own canonical
                        // serialisation of what it parsed equals the original key
                        let same_key = key_view(6, &b) == orig || k.to_bytes().ok().as_deref() == Some(&body[..]);
                        if !same_key {
                            o.push(
                                format!("C02:{name}:modified-key-verifies"),
                                ctx(format!("bit {bit} of key packet octet {pos} flipped: signature still verifies")),
                            );
                        } else {
                            accepted_unprotected += 1;
                        }
                    }
                    if o.viol.len() >= 3 {
                        break;
                    }
                }
            }
        }
        Target::OtherKeys => {
            // substitution with every other key of the ring
            for kind in [
                KeyKind::Ed25519V4,
                KeyKind::Ed25519V6,
                KeyKind::EcdsaP256V4,
                KeyKind::EcdsaP256V6,
                KeyKind::Ed25519LegacyV4,
                KeyKind::Rsa2048V4,
            ] {
                for seed in [1u64, 2, 5] {
                    let other = common::cert(kind, seed);
                    // certificates generated from the same seed can share their subkey material (the
                    // rng stream is the same after primaries of equal size): not "another" key then
                    let ok = other.primary_key.fingerprint() != a.cert.primary_key.fingerprint()
                        && other.primary_key.fingerprint() != a.other.primary_key.fingerprint()
                        && other.secret_subkeys[0].key.public_key().to_bytes().ok() != a.cert.secret_subkeys[0].key.public_key().to_bytes().ok();
                    if !ok {
                        continue;
                    }
                    evals += 1;
                    let k = other.primary_key.public_key();
                    let sub = other.secret_subkeys[0].key.public_key();
                    // the other key as verifier
                    let r1 = match c.spec.kind {
                        SigKind::ThirdPartyCert => sigs::uid_from_bytes(&c.spec.object)
                            .ok_or_else(|| pgp::errors::Error::from(std::io::Error::other("uid")))
                            .and_then(|u| a.sig.verify_third_party_certification(a.cert.primary_key.public_key(), k, pgp::types::Tag::UserId, &u)),
                        SigKind::PrimaryKeyBinding => a.sig.verify_primary_key_binding(k, a.cert.primary_key.public_key()),
                        _ => sigs::verify_with(&a, &a.sig, &c.spec.object, k, k, sub),
                    };
                    if r1.is_ok() {
                        o.push(format!("C02:{name}:verifies-under-another-key"), ctx(format!("{kind:?} seed {seed}")));
                    }
                    // the right verifier, but another key as the signed object
                    let r2 = match c.spec.kind {
                        SigKind::SubkeyBinding | SigKind::SubkeyRevocation => Some(a.sig.verify_subkey_binding(a.cert.primary_key.public_key(), sub)),
                        SigKind::PrimaryKeyBinding => Some(a.sig.verify_primary_key_binding(a.other.primary_key.public_key(), k)),
                        SigKind::ThirdPartyCert => sigs::uid_from_bytes(&c.spec.object)
                            .map(|u| a.sig.verify_third_party_certification(k, a.other.primary_key.public_key(), pgp::types::Tag::UserId, &u)),
                        _ => None,
                    };
                    if let Some(Ok(())) = r2 {
                        o.push(format!("C02:{name}:verifies-over-another-key"), ctx(format!("{kind:?} seed {seed}")));
                    }
                }
            }
        }
    }
    o.evals = evals.max(1);
    if o.viol.is_empty() {
        o.class = format!(
            "{:?}:rejected (parse {}%, unprotected-accepted {})",
            c.target,
            if evals > 0 { rejected_at_parse * 100 / evals } else { 0 },
            if accepted_unprotected > 0 { "some" } else { "none" }
        );
    }
    o
}

#[derive(Clone, Debug, Hash, Serialize, Deserialize)]
pub struct MsgCase {
    pub key: KeyKind,
    pub signers: u8,
    pub text: bool,
    /// true: one-pass (builder); false: prefixed signature packet + literal
    pub one_pass: bool,
    pub n: usize,
    /// explicit payload instead of msg::payload(n, text)
    #[serde(default)]
    pub doc: Option<Vec<u8>>,
}

fn run_msg(c: &MsgCase) -> Outcome {
    // the second signer is a different key: two signatures by one key over the same data have
    // equal protected fields and cannot be told apart when pairing them with their one-pass headers
    let second = match (c.key.is_v6(), c.key) {
        (true, KeyKind::EcdsaP256V6) => KeyKind::Ed25519V6,
        (true, _) => KeyKind::EcdsaP256V6,
        (false, KeyKind::EcdsaP256V4) => KeyKind::Ed25519V4,
        (false, _) => KeyKind::EcdsaP256V4,
    };
    let kinds: Vec<KeyKind> = if c.signers == 2 { vec![c.key, second] } else { vec![c.key] };
    let payload = c.doc.clone().unwrap_or_else(|| msg::payload(c.n, c.text));
    let cfg = MsgCfg {
        source: 0,
        compression: 0,
        enc: Enc::None,
        esks: vec![],
        signers: kinds.iter().map(|k| (*k, if *k == KeyKind::Ed448V6 { 1 } else { 0 })).collect(),
        text: c.text,
        armor: false,
        checksum: true,
        partial_exp: 9,
    };
    let bytes = if c.one_pass {
        match msg::build_vec(&cfg, &payload, 11) {
            Ok(b) => b,
            Err(e) => return Outcome::bad("C02:message:build-error", e.to_string()),
        }
    } else {
        // prefixed form: signature packet(s), then the literal
        let cert = common::cert(c.key, 1);
        let sig = if c.text {
            DetachedSignature::sign_text_data(crate::engine::rng(1), &cert.primary_key, &pgp::types::Password::empty(), pgp::crypto::hash::HashAlgorithm::Sha512, &payload[..])
        } else {
            DetachedSignature::sign_binary_data(crate::engine::rng(1), &cert.primary_key, &pgp::types::Password::empty(), pgp::crypto::hash::HashAlgorithm::Sha512, &payload[..])
        };
        let sig = match sig {
            Ok(s) => s,
            Err(e) => return Outcome::bad("C02:message:sign-error", e.to_string()),
        };
        let mut b = frame_min(2, &sig.signature.to_bytes().expect("ser"));
        let mut lit = vec![if c.text { b'u' } else { b'b' }, 0, 0, 0, 0, 0];
        lit.extend_from_slice(&payload);
        b.extend_from_slice(&frame_min(11, &lit));
        b
    };
    let certs: Vec<_> = kinds.iter().map(|k| common::cert(*k, 1)).collect();
    let packets = codec::split_packets(&bytes).expect("own message splits");
    // original protected views per packet
    let orig_sig_views: Vec<Vec<u8>> = packets.iter().filter(|p| p.0 == 2).filter_map(|p| protected_view(&p.2)).collect();
    let orig_ops: Vec<Vec<u8>> = packets.iter().filter(|p| p.0 == 4).map(|p| p.2.clone()).collect();
    let mut o = Outcome::ok("all-deviations-rejected-or-harmless");
    let mut evals = 0u64;
    let check = |mutated: &[u8], what: String, o: &mut Outcome| {
        let Ok(mut m) = Message::from_bytes(mutated) else { return };
        let mut data = Vec::new();
        if m.read_to_end(&mut data).is_err() {
            return;
        }
        for (i, cert) in certs.iter().enumerate() {
            let pk = cert.primary_key.public_key();
            for idx in 0..certs.len() {
                if let Ok(vsig) = m.verify_nested_explicit(idx, pk) {
                    // accepted: everything protected must be authentic
                    let content_ok = if c.text { canon(&data) == canon(&payload) } else { data == payload };
                    let ps = codec::split_packets(mutated).unwrap_or_default();
                    let vview = vsig.to_bytes().ok().and_then(|b| protected_view(&b));
                    let sig_ok = vview.as_ref().map(|v| orig_sig_views.contains(v)).unwrap_or(false);
                    // the one-pass header paired with the verifying signature packet (OPS i brackets
                    // signature n-1-i) must agree with the original in the fields that determine hashing
                    let sig_packets: Vec<&(u8, Vec<u8>, Vec<u8>)> = ps.iter().filter(|p| p.0 == 2).collect();
                    // a one-pass packet of a version the library does not know is skipped by its
                    // message parser (RFC 9580: unknown versions are ignored); it brackets nothing,
                    // and positional pairing is only meaningful over the recognised ones
                    let ops_packets: Vec<&(u8, Vec<u8>, Vec<u8>)> = ps.iter().filter(|p| p.0 == 4 && matches!(p.2.first(), Some(3 | 6))).collect();
                    let vbytes = vsig.to_bytes().ok();
                    let j = sig_packets
                        .iter()
                        .position(|p| Some(&p.2) == vbytes.as_ref())
                        .or_else(|| sig_packets.iter().position(|p| protected_view(&p.2) == vview && vview.is_some()));
                    let pick = |d: &codec::Decoded, body: &[u8]| -> Vec<u8> {
                        d.fields
                            .iter()
                            .filter(|f| matches!(f.kind, Kind::Version | Kind::SigType | Kind::HashAlg | Kind::Salt))
                            .flat_map(|f| body[f.start..f.end].to_vec())
                            .collect()
                    };
                    let ops_ok = match (j, ops_packets.len() == sig_packets.len()) {
                        (Some(j), true) if !ops_packets.is_empty() => {
                            let p = ops_packets[sig_packets.len() - 1 - j];
                            orig_ops.iter().any(|orig| match (codec::decode_packet(4, &p.2), codec::decode_packet(4, orig)) {
                                (Ok(a), Ok(b)) => pick(&a, &p.2) == pick(&b, orig),
                                _ => false,
                            })
                        }
                        _ => true, // prefixed form / pairing not determinable
                    };
                    if !content_ok {
                        o.push("C02:message:modified-content-verifies", format!("{c:?} signer {i}: {what}: read {} octets != payload, signature slot {idx} verifies", data.len()));
                    } else if !sig_ok {
                        o.push("C02:message:modified-signature-verifies", format!("{c:?} signer {i}: {what}"));
                    } else if !ops_ok {
                        o.push("C02:message:one-pass-header-disagrees-but-verifies", format!("{c:?} signer {i}: {what}"));
                    }
                }
            }
        }
    };
    // unmodified must verify
    {
        let mut m = match Message::from_bytes(&bytes[..]) {
            Ok(m) => m,
            Err(e) => return Outcome::bad("C02:message:own-message-rejected", e.to_string()),
        };
        let mut d = Vec::new();
        if m.read_to_end(&mut d).is_err() || d != payload {
            return Outcome::bad("C02:message:own-message-unreadable", format!("{c:?}"));
        }
        for (i, cert) in certs.iter().enumerate() {
            if !(0..certs.len()).any(|idx| m.verify_nested_explicit(idx, cert.primary_key.public_key()).is_ok()) {
                return Outcome::bad("C02:message:authentic-signature-rejected", format!("{c:?} signer {i}"));
            }
        }
        // substituting another key: verify_nested over every ordered selection of candidate keys
        // (the signers and two strangers) reports a key as valid exactly when it made a signature
        // of the message, wherever it stands in the list
        let strangers = [common::cert(c.key, 2), common::cert(second, 2)];
        let mut pool: Vec<(bool, &pgp::packet::PublicKey)> = certs.iter().map(|k| (true, k.primary_key.public_key())).collect();
        pool.extend(strangers.iter().map(|k| (false, k.primary_key.public_key())));
        let mut lists: Vec<Vec<usize>> = vec![vec![]];
        for len in 1..=pool.len().min(3) {
            let mut next = Vec::new();
            for l in lists.iter().filter(|l| l.len() == len - 1) {
                for i in 0..pool.len() {
                    if !l.contains(&i) {
                        let mut l2 = l.clone();
                        l2.push(i);
                        next.push(l2);
                    }
                }
            }
            lists.extend(next);
        }
        for l in lists.iter().filter(|l| !l.is_empty()) {
            let keys: Vec<&dyn pgp::types::VerifyingKey> = l.iter().map(|i| pool[*i].1 as &dyn pgp::types::VerifyingKey).collect();
            evals += 1;
            match m.verify_nested(&keys) {
                Ok(res) => {
                    for (pos, (i, r)) in l.iter().zip(res.iter()).enumerate() {
                        let valid = matches!(r, pgp::composed::VerificationResult::Valid(_));
                        if valid != pool[*i].0 {
                            o.push(
                                if valid { "C02:message:verify_nested-credits-a-key-that-did-not-sign" } else { "C02:message:verify_nested-misses-a-signer" },
                                format!("{c:?}: candidate list {l:?} (indices < {} are the signers), position {pos}: reported {}", certs.len(), if valid { "Valid" } else { "Invalid" }),
                            );
                        }
                    }
                    if res.len() != l.len() {
                        o.push("C02:message:verify_nested-result-count", format!("{c:?}: {} results for {} keys", res.len(), l.len()));
                    }
                }
                Err(e) => o.push("C02:message:verify_nested-error", format!("{c:?}: {e}")),
            }
        }
    }
    for pos in 0..bytes.len() {
        for bit in 0..8 {
            let mut b = bytes.clone();
            b[pos] ^= 1 << bit;
            evals += 1;
            check(&b, format!("bit {bit} of message octet {pos}/{} flipped", bytes.len()), &mut o);
            if o.viol.len() >= 3 {
                break;
            }
        }
    }
    // truncation / extension of the stream
    for len in 0..bytes.len() {
        evals += 1;
        check(&bytes[..len], format!("message truncated to {len} octets"), &mut o);
    }
    // line-ending deviations of the signed data: CR / LF substituted, inserted, an octet deleted
    // at every position of the literal data (the packet re-framed with a truthful length)
    if let Some(li) = packets.iter().position(|p| p.0 == 11) {
        let lit = &packets[li].2;
        if lit.len() >= payload.len() && lit[lit.len() - payload.len()..] == payload[..] {
            let head = &lit[..lit.len() - payload.len()];
            let mut variants: Vec<(String, Vec<u8>)> = Vec::new();
            for pos in 0..=payload.len() {
                for ch in [b'\r', b'\n'] {
                    let mut v = payload.clone();
                    v.insert(pos, ch);
                    variants.push((format!("{ch:#04x} inserted at data offset {pos}"), v));
                    if pos < payload.len() && payload[pos] != ch {
                        let mut v = payload.clone();
                        v[pos] = ch;
                        variants.push((format!("data octet {pos} ({:#04x}) replaced by {ch:#04x}", payload[pos]), v));
                    }
                }
                if pos < payload.len() {
                    let mut v = payload.clone();
                    v.remove(pos);
                    variants.push((format!("data octet {pos} ({:#04x}) deleted", payload[pos]), v));
                }
            }
            for (what, v) in variants {
                let mut out = Vec::new();
                for (i, p) in packets.iter().enumerate() {
                    if i == li {
                        out.extend_from_slice(&frame_min(11, &[head, &v[..]].concat()));
                    } else {
                        out.extend_from_slice(&frame_min(p.0, &p.2));
                    }
                }
                evals += 1;
                check(&out, what, &mut o);
                if o.viol.len() >= 3 {
                    break;
                }
            }
        }
    }
    o.evals = evals.max(1);
    o
}

#[derive(Clone, Debug, Hash, Serialize, Deserialize)]
pub struct CertCase {
    pub key: KeyKind,
    pub signing_subkey: bool,
    /// process positions pos % stride == phase only (splits the work)
    pub stride: usize,
    pub phase: usize,
}

fn component_views(cert_bytes: &[u8]) -> Option<Vec<(u8, Vec<u8>)>> {
    let ps = codec::split_packets(cert_bytes).ok()?;
    let mut out = Vec::new();
    for (tag, _, body) in ps {
        let v = match tag {
            2 => protected_view(&body)?,
            6 | 14 => key_view(tag, &body)?,
            _ => body.clone(),
        };
        out.push((tag, v));
    }
    Some(out)
}

fn run_cert(c: &CertCase) -> Outcome {
    let cert = if c.signing_subkey {
        use crate::props::c07::{Alg, Case as KCase, Shape, Sub};
        let shape = Shape {
            v6: c.key.is_v6(),
            primary: if matches!(c.key, KeyKind::EcdsaP256V4 | KeyKind::EcdsaP256V6) { Alg::EcdsaP256 } else { Alg::Ed25519 },
            subs: vec![Sub { alg: Alg::Ed25519, sign: true, encrypt: false, lock: 0, caps: 0 }, Sub { alg: Alg::X25519, sign: false, encrypt: true, lock: 0, caps: 0 }],
            lock: 0,
            uids: 2,
            prefs: false,
            subkey_v6: None,
        };
        match crate::props::c07::build(&KCase { shape, seed: 8, force_draw: None, mode: 0 }) {
            Ok(Ok(k)) => std::sync::Arc::new(k),
            other => return Outcome::bad("C02:cert:generation-failed", format!("{:?}", other.map(|r| r.map(|_| ())))),
        }
    } else {
        common::cert(c.key, 1)
    };
    let public = cert.to_public_key();
    let bytes = public.to_bytes().expect("ser");
    let orig = component_views(&bytes).expect("own certificate decodes");
    if public.verify_bindings().is_err() {
        return Outcome::bad("C02:cert:authentic-certificate-rejected", format!("{c:?}"));
    }
    let mut o = Outcome::ok("accepted-components-authentic");
    let mut evals = 0u64;
    let mut accepted = 0u64;
    for pos in (0..bytes.len()).filter(|p| p % c.stride == c.phase) {
        for bit in 0..8 {
            let mut b = bytes.clone();
            b[pos] ^= 1 << bit;
            evals += 1;
            let Ok(k) = SignedPublicKey::from_bytes(&b[..]) else { continue };
            if k.verify_bindings().is_err() {
                continue;
            }
            accepted += 1;
            // every component of the accepted certificate must be an authentic one
            let re = k.to_bytes().unwrap_or_default();
            match component_views(&re) {
                Some(views) => {
                    for (tag, v) in views {
                        if !orig.iter().any(|(t, ov)| *t == tag && *ov == v) {
                            o.push(
                                format!("C02:cert:non-authentic-component-accepted:tag{tag}"),
                                format!("{c:?}: bit {bit} of certificate octet {pos}/{} flipped: from_bytes + verify_bindings accept a certificate containing a tag-{tag} packet that is not one of the original's", bytes.len()),
                            );
                        }
                    }
                }
                None => o.push("C02:cert:accepted-certificate-undecodable", format!("{c:?}: octet {pos} bit {bit}")),
            }
            if o.viol.len() >= 3 {
                break;
            }
        }
    }
    // a forged copy of each signature packet (one bit of its hashed area / of its signature value
    // changed) placed next to the genuine one: a certificate that carries a forged certification
    // or binding must not come out as verified with that packet in it
    if c.phase == 0 {
        if let Ok(ps) = codec::split_packets(&bytes) {
            let mut offsets = Vec::new();
            let mut at = 0usize;
            for (tag, hdr, body) in &ps {
                offsets.push((at, *tag, hdr.len(), body.len()));
                at += hdr.len() + body.len();
            }
            for (start, tag, hl, bl) in offsets {
                if tag != 2 {
                    continue;
                }
                let pkt = &bytes[start..start + hl + bl];
                for (what, flip_at) in [("signature value", hl + bl - 1), ("hashed area", hl + 7)] {
                    if flip_at >= pkt.len() {
                        continue;
                    }
                    let mut forged = pkt.to_vec();
                    forged[flip_at] ^= 0x01;
                    for before in [true, false] {
                        let mut b = bytes[..start].to_vec();
                        if before {
                            b.extend_from_slice(&forged);
                            b.extend_from_slice(pkt);
                        } else {
                            b.extend_from_slice(pkt);
                            b.extend_from_slice(&forged);
                        }
                        b.extend_from_slice(&bytes[start + hl + bl..]);
                        evals += 1;
                        let Ok(k) = SignedPublicKey::from_bytes(&b[..]) else { continue };
                        if k.verify_bindings().is_err() {
                            continue;
                        }
                        let re = k.to_bytes().unwrap_or_default();
                        if let Some(views) = component_views(&re) {
                            for (t, v) in views {
                                if !orig.iter().any(|(ot, ov)| *ot == t && *ov == v) {
                                    o.push(
                                        "C02:cert:forged-signature-next-to-a-genuine-one-accepted".to_string(),
                                        format!("{c:?}: a copy of the signature packet at offset {start} with one bit of its {what} changed, placed {} the genuine one: from_bytes + verify_bindings accept the certificate with the forged packet in it", if before { "before" } else { "after" }),
                                    );
                                }
                            }
                        }
                    }
                }
            }
        }
    }
    o.evals = evals.max(1);
    if o.viol.is_empty() {
        o.class = format!("accepted-components-authentic ({}% accepted)", if evals > 0 { accepted * 100 / evals } else { 0 });
    }
    o
}

pub fn check(ctx: &Ctx) {
    // the former thorough bounds take seconds: they are the quick tier now; `deep` = thorough
    let quick = false;
    let deep = ctx.tier == Tier::Thorough;
    for k in [KeyKind::Ed25519V4, KeyKind::Ed25519V6, KeyKind::EcdsaP256V4, KeyKind::EcdsaP256V6, KeyKind::Ed25519LegacyV4, KeyKind::Rsa2048V4] {
        for s in [1u64, 2, 5] {
            common::cert(k, s);
        }
    }
    let keys: Vec<(KeyKind, u8)> = if quick {
        vec![(KeyKind::Ed25519V4, 0), (KeyKind::Ed25519V6, 1), (KeyKind::EcdsaP256V4, 0)]
    } else {
        vec![
            (KeyKind::Ed25519V4, 0),
            (KeyKind::Ed25519V6, 1),
            (KeyKind::EcdsaP256V4, 0),
            (KeyKind::EcdsaP256V6, 1),
            (KeyKind::Ed25519LegacyV4, 2),
            (KeyKind::Rsa2048V4, 0),
            (KeyKind::Ed448V6, 1),
        ]
        .into_iter()
        .chain(if deep { vec![(KeyKind::EcdsaP384V4, 2), (KeyKind::EcdsaP521V4, 1), (KeyKind::EcdsaK256V4, 0), (KeyKind::Rsa2048V6, 0)] } else { vec![] })
        .collect()
    };
    let mut ac = Vec::new();
    for (key, hash) in &keys {
        for kind in ALL_KINDS {
            let objects: Vec<Vec<u8>> = match kind {
                SigKind::DocBinary => vec![vec![], vec![0x41], (0..16u8).collect()],
                SigKind::DocText => vec![vec![], b"a".to_vec(), b"ab\r\ncd\nef".to_vec()],
                _ => vec![b"Alice <a@example.org>".to_vec()],
            };
            for object in objects {
                for target in [Target::Content, Target::SignaturePacket, Target::KeyPacket, Target::OtherKeys] {
                    if *key == KeyKind::Rsa2048V4 && quick && target != Target::SignaturePacket {
                        continue;
                    }
                    ac.push(ArtCase {
                        spec: Spec {
                            kind,
                            key: *key,
                            hash: *hash,
                            object: object.clone(),
                            notation_len: 0,
                            critical_time: false,
                        },
                        target,
                    });
                }
            }
        }
    }
    if quick {
        // the signature-packet deviations also for the signature encodings of the other algorithms
        for (key, hash) in [(KeyKind::Ed448V6, 1u8), (KeyKind::Ed25519LegacyV4, 2), (KeyKind::EcdsaP256V6, 1), (KeyKind::Rsa2048V4, 0)] {
            for kind in [SigKind::DocBinary, SigKind::CertUserId(0x13), SigKind::SubkeyBinding] {
                let object = if kind == SigKind::DocBinary { vec![0x41] } else { b"Alice <a@example.org>".to_vec() };
                ac.push(ArtCase { spec: Spec { kind, key, hash, object, notation_len: 0, critical_time: false }, target: Target::SignaturePacket });
            }
        }
    }
    ctx.run_space(
        "signature_artefacts",
        true,
        "14 signature kinds x signer keys (7: Ed25519 v4/v6/legacy, ECDSA P-256 v4/v6, RSA, Ed448; thorough + P-384, P-521, secp256k1, RSA v6) x small objects: EVERY single-bit flip of the signature packet body (and one octet inserted into / removed from the hashed subpacket area at every position, area length corrected; octets appended after the signature value), of the verifying key packet body, and of the signed content (plus every truncation and short extensions / prefixes), and substitution of 18 other keys as verifier and as signed key; each through the applicable verification API. A verdict is demanded only when the independent decoder finds the protected abstract value changed (content modulo text canonicalisation; type, algorithms, hashed area, salt, left-16, signature value with MPI normalisation; key version/time/algorithm/material); the unmodified artefact must verify. evaluations = verification attempts.",
        ac.into_par_iter(),
        run_art,
    );

    let mut mc = Vec::new();
    for key in if quick { vec![KeyKind::Ed25519V4, KeyKind::Ed25519V6] } else { vec![KeyKind::Ed25519V4, KeyKind::Ed25519V6, KeyKind::EcdsaP256V4, KeyKind::Ed25519LegacyV4] } {
        for signers in [1u8, 2] {
            for text in [false, true] {
                for one_pass in [true, false] {
                    if !one_pass && signers == 2 {
                        continue;
                    }
                    for n in if quick { vec![0usize, 12] } else if deep { vec![0usize, 1, 2, 12, 40, 100, 513] } else { vec![0usize, 1, 12, 40] } {
                        mc.push(MsgCase { key, signers, text, one_pass, n, doc: None });
                    }
                }
            }
        }
    }
    // texts with every kind of line ending next to each other (lone CR, CR LF, LF, CR CR LF)
    for key in [KeyKind::Ed25519V4, KeyKind::Ed25519V6] {
        for one_pass in [true, false] {
            for doc in [&b"a\rb\r\nc\r\rd\r\n\re\r\n"[..], &b"\r\nx\r"[..], &b"one\ntwo\rthree\n\n"[..]] {
                // the builder takes a utf8 literal only in CR LF form
                if one_pass && crate::reference::canon::canon(doc) != doc {
                    continue;
                }
                mc.push(MsgCase { key, signers: 1, text: true, one_pass, n: doc.len(), doc: Some(doc.to_vec()) });
            }
        }
    }
    ctx.run_space(
        "signed_messages",
        true,
        "one-pass signed messages (1 and 2 signers) and prefixed-signature messages, binary and text, v4 and v6: EVERY single-bit flip of the whole message (one-pass headers, literal packet incl. its header, signature packets), every truncation, and CR / LF substituted or inserted and an octet deleted at every position of the literal data (texts mixing lone CR, CR LF and LF included); verify_nested over every ordered selection of up to 3 candidate keys out of {the signers, two other keys} credits exactly the signers; when Message::from_bytes + read_to_end + verify accept for a signer, the data read must be the signed payload (modulo text canonicalisation), the verifying signature packet's protected fields and the hashing-relevant one-pass fields (version, type, hash, salt) must be authentic",
        mc.into_par_iter(),
        run_msg,
    );

    let mut cc = Vec::new();
    let stride = 8;
    for key in if quick { vec![KeyKind::Ed25519V4, KeyKind::Ed25519V6] } else { vec![KeyKind::Ed25519V4, KeyKind::Ed25519V6, KeyKind::EcdsaP256V4, KeyKind::Ed25519LegacyV4] } {
        for signing_subkey in [false, true] {
            for phase in 0..stride {
                cc.push(CertCase { key, signing_subkey, stride, phase });
            }
        }
    }
    ctx.run_space(
        "certificates",
        true,
        "transferable public keys (with an encryption subkey; with a signing subkey carrying an embedded back signature + 2 user ids): EVERY single-bit flip of the whole certificate; when SignedPublicKey::from_bytes + verify_bindings accept, every packet of the accepted certificate must be one of the original's (keys and signatures compared by protected abstract value): nothing forged is ever bound; also a forged copy of every signature packet (one bit of hashed area / signature value changed) placed before / after the genuine one",
        cc.into_par_iter(),
        run_cert,
    );
    ctx.run_space(
        "cleartext_documents",
        true,
        "armored cleartext-signed documents (5 / 8 base texts incl. dash lines, trailing blank / TAB, lines ending in FF / NBSP; v4 and v6, one and two signers): every single-bit flip, every single-octet deletion and every insertion of one of 10 strings (dash, blank, LF, CR, TAB, letter, dash escape, FF, VT, NBSP) at every position of the Hash header and text section; if the library accepts the document and verifies it, an independent reader must see an unchanged RFC 9580 7.2 signed form",
        crate::props::c16::tamper_cases(quick).into_par_iter(),
        run_cleartext,
    );
    let mut uc = Vec::new();
    for key in [KeyKind::Ed25519V4, KeyKind::Ed25519V6, KeyKind::EcdsaP256V4, KeyKind::Rsa2048V4] {
        for how in 0..3u8 {
            for secret in [false, true] {
                uc.push(UnboundCase { key, how, secret });
            }
        }
    }
    ctx.run_space(
        "unbound_components",
        true,
        "certificates (public and secret form, 4 key kinds) changed through the public fields: the subkey's binding signatures removed; another certificate's subkey added without a signature, and with that other certificate's binding signature: verify_bindings must not accept (a key nothing binds is a substituted key)",
        uc.into_par_iter(),
        run_unbound,
    );
    let mut xc = Vec::new();
    for (lines, eol, fin, cfg) in [(vec![1u8], 0u8, 0u8, 0u8), (vec![1, 2, 6], 0, 1, 0), (vec![], 0, 0, 0), (vec![10, 7], 0, 1, 3)] {
        let base = crate::props::c16::TextCase { lines, eol, fin, cfg };
        for ws in 0..4u8 {
            for count in (0..=70usize).chain([127, 128, 129, 200, 511, 512, 513, 8191, 8192, 8193]) {
                for tail in 0..5u8 {
                    xc.push(ExtCase { base: base.clone(), ws, count, tail });
                }
            }
        }
    }
    ctx.run_space(
        "cleartext_documents_extended",
        true,
        "armored cleartext-signed documents (4 base texts, v4 / v6) followed by 0..70, 127..129, 200, 511..513, 8191..8193 octets of padding (LF, blank, CR LF, TAB) and then appended data (a letter, a line, the whole document again, a signature block header, a second signature block): from_armor / from_string / Any::from_string must not hand back a document that verifies (extending the message makes verification fail)",
        xc.into_par_iter(),
        run_cleartext_ext,
    );
    ctx.assume("cryptographic malleability that is not a single-bit deviation (e.g. ECDSA (r, n-s)) is not enumerated");
}

/// Cleartext-signed documents: the single deviations of C16's adversary, judged by C02's rule
/// (a document whose signed form changed must not verify).
/// A cleartext document with something appended behind its signature block.
#[derive(Clone, Debug, Hash, Serialize, Deserialize)]
pub struct ExtCase {
    pub base: crate::props::c16::TextCase,
    /// padding between the document and the appended data: 0 LF, 1 blank, 2 CR LF, 3 TAB
    pub ws: u8,
    pub count: usize,
    /// 0 "x", 1 a line of text, 2 the whole document once more, 3 a signature block header,
    /// 4 a second signature block (the same one)
    pub tail: u8,
}

fn run_cleartext_ext(c: &ExtCase) -> Outcome {
    use pgp::composed::CleartextSignedMessage;
    let text = crate::props::c16::build_text(&c.base);
    let ks = crate::props::c16::keys(c.base.cfg);
    let Ok(msg) = crate::props::c16::sign_text(&c.base, &text) else {
        return Outcome::trivial("base-sign-error");
    };
    let Ok(doc) = msg.to_armored_bytes(None.into()) else {
        return Outcome::trivial("base-write-error");
    };
    let pad: &[u8] = [&b"\n"[..], b" ", b"\r\n", b"\t"][c.ws as usize % 4];
    let sig_block = {
        let marker = b"-----BEGIN PGP SIGNATURE-----";
        let p = doc.windows(marker.len()).rposition(|w| w == marker).unwrap_or(0);
        doc[p..].to_vec()
    };
    let tail: Vec<u8> = match c.tail {
        0 => b"x".to_vec(),
        1 => b"appended line\n".to_vec(),
        2 => doc.clone(),
        3 => b"-----BEGIN PGP SIGNATURE-----\n".to_vec(),
        _ => sig_block,
    };
    let mut d = doc.clone();
    for _ in 0..c.count {
        d.extend_from_slice(pad);
    }
    d.extend_from_slice(&tail);
    let what = format!("document for text \"{}\" followed by {} x {:?} and {} octets of appended data (kind {})", crate::common::esc(text.as_bytes()), c.count, String::from_utf8_lossy(pad), tail.len(), c.tail);
    let mut o = Outcome::ok("extended-document-rejected");
    let check = |name: &str, m: Option<CleartextSignedMessage>, o: &mut Outcome| {
        if let Some(m) = m {
            if ks.iter().any(|k| m.verify(&k.primary_key.public_key()).is_ok()) {
                o.push(format!("C02:cleartext:extended-document-verifies:{name}"), what.clone());
            }
        }
    };
    check("from_armor", CleartextSignedMessage::from_armor(&d[..]).ok().map(|x| x.0), &mut o);
    if let Ok(s) = std::str::from_utf8(&d) {
        check("from_string", CleartextSignedMessage::from_string(s).ok().map(|x| x.0), &mut o);
        let any = pgp::composed::Any::from_string(s).ok().and_then(|(a, _)| match a {
            pgp::composed::Any::Cleartext(m) => Some(m),
            _ => None,
        });
        check("Any::from_string", any, &mut o);
    }
    o
}

#[derive(Clone, Debug, Hash, Serialize, Deserialize)]
pub struct UnboundCase {
    pub key: KeyKind,
    /// 0: the subkey's binding signatures removed; 1: a subkey of another certificate added
    /// without any signature; 2: the same with the other certificate's binding signature
    pub how: u8,
    pub secret: bool,
}

/// Components that nothing binds to the primary key: `verify_bindings` must not accept them.
fn run_unbound(c: &UnboundCase) -> Outcome {
    let cert = common::cert(c.key, 1);
    let other = common::cert(c.key, 2);
    let mut o = Outcome::ok("rejected");
    let what = format!("{c:?}");
    let verdict: Result<(), String> = if c.secret {
        let mut k = (*cert).clone();
        match c.how {
            0 => k.secret_subkeys[0].signatures.clear(),
            1 => {
                let mut s = other.secret_subkeys[0].clone();
                s.signatures.clear();
                k.secret_subkeys.push(s);
            }
            _ => k.secret_subkeys.push(other.secret_subkeys[0].clone()),
        }
        k.verify_bindings().map_err(|e| e.to_string())
    } else {
        let mut k = cert.to_public_key();
        let op = other.to_public_key();
        match c.how {
            0 => k.public_subkeys[0].signatures.clear(),
            1 => {
                let mut s = op.public_subkeys[0].clone();
                s.signatures.clear();
                k.public_subkeys.push(s);
            }
            _ => k.public_subkeys.push(op.public_subkeys[0].clone()),
        }
        k.verify_bindings().map_err(|e| e.to_string())
    };
    if verdict.is_ok() {
        o.push(
            "C02:cert:unbound-subkey-accepted",
            format!("{what}: verify_bindings accepts a certificate with a subkey that {} binds to its primary key", if c.how == 2 { "another primary's signature" } else { "no signature" }),
        );
    }
    o
}

fn run_cleartext(c: &crate::props::c16::MutCase) -> Outcome {
    let mut o = crate::props::c16::run_mut(c);
    for v in &mut o.viol {
        v.sig = v.sig.replace("C16:tamper:", "C02:cleartext:");
    }
    o
}

pub fn replay(space: &str, case: &Value) -> Option<Outcome> {
    if space == "cleartext_documents" {
        return replay_as(case, run_cleartext);
    }
    if space == "unbound_components" {
        return replay_as(case, run_unbound);
    }
    if space == "cleartext_documents_extended" {
        return replay_as(case, run_cleartext_ext);
    }
    match space {
        "signature_artefacts" => replay_as(case, run_art),
        "signed_messages" => replay_as(case, run_msg),
        "certificates" => replay_as(case, run_cert),
        _ => None,
    }
}
