//! C16 — cleartext signatures: text survives, framing is unspoofable, signature binds.

use pgp::{
    composed::{CleartextSignedMessage, SignedSecretKey},
    crypto::hash::HashAlgorithm,
    packet::{SignatureConfig, SignatureType, Subpacket, SubpacketData},
    types::{KeyDetails, KeyVersion, Password, Timestamp},
};
use rayon::prelude::*;
use serde::{Deserialize, Serialize};
use serde_json::Value;

use crate::{
    common::{self, esc, KeyKind},
    engine::{replay_as, Ctx, Outcome, Tier},
    reference::{
        canon::csf_signed_form,
        csf::{dash_unescape, read_document},
    },
};

pub const LINES: [&str; 17] = [
    "",
    "a",
    "-",
    "- a",
    "-----BEGIN PGP SIGNATURE-----",
    "-----BEGIN PGP SIGNED MESSAGE-----",
    "a ",
    "a\t ",
    " ",
    "From a",
    "\u{e9}",
    "a\rb",
    "a-",
    "a\r ",
    // whitespace that is NOT removed at line ends (RFC 9580 7.2 strips space and tab only)
    "a\u{c}",
    "b\u{a0} ",
    // an armor boundary behind a blank: not dash-escaped by the writer, and not a boundary
    " -----BEGIN PGP SIGNATURE-----",
];
/// sub-alphabet for deeper texts: indices into LINES
pub const SHAPES4: [u8; 4] = [0, 1, 2, 6];

#[derive(Clone, Debug, Hash, Serialize, Deserialize)]
pub struct TextCase {
    pub lines: Vec<u8>,
    /// 0 LF, 1 CRLF, 2 alternating LF/CRLF
    pub eol: u8,
    /// 0 nothing after the last line, 1 a line ending, 2 a lone CR
    pub fin: u8,
    /// 0: sign() v4 key (SHA-256); 1: sign() v6 key; 2: new() v4 with SHA-512 config; 3: new_many with two signers
    pub cfg: u8,
}

pub fn build_text(c: &TextCase) -> String {
    let mut t = String::new();
    for (i, &l) in c.lines.iter().enumerate() {
        if i > 0 {
            let crlf = match c.eol {
                0 => false,
                1 => true,
                _ => i % 2 == 0,
            };
            t.push_str(if crlf { "\r\n" } else { "\n" });
        }
        t.push_str(LINES[l as usize]);
    }
    match c.fin {
        1 => t.push_str(if c.eol == 1 { "\r\n" } else { "\n" }),
        2 => t.push('\r'),
        _ => {}
    }
    t
}

pub fn keys(cfg: u8) -> Vec<std::sync::Arc<SignedSecretKey>> {
    match cfg {
        1 => vec![common::cert(KeyKind::Ed25519V6, 1)],
        3 => vec![
            common::cert(KeyKind::Ed25519V4, 1),
            common::cert(KeyKind::EcdsaP256V4, 2),
        ],
        _ => vec![common::cert(KeyKind::Ed25519V4, 1)],
    }
}

fn make_config(
    key: &pgp::packet::SecretKey,
    hash: HashAlgorithm,
    seed: u64,
) -> pgp::errors::Result<SignatureConfig> {
    let mut rng = crate::engine::rng(seed);
    let mut config = match key.version() {
        KeyVersion::V6 => SignatureConfig::v6(&mut rng, SignatureType::Text, key.algorithm(), hash)?,
        _ => SignatureConfig::v4(SignatureType::Text, key.algorithm(), hash),
    };
    config.hashed_subpackets = vec![
        Subpacket::regular(SubpacketData::SignatureCreationTime(Timestamp::from_secs(
            common::NOW,
        )))?,
        Subpacket::regular(SubpacketData::IssuerFingerprint(key.fingerprint()))?,
    ];
    Ok(config)
}

pub fn sign_text(c: &TextCase, text: &str) -> pgp::errors::Result<CleartextSignedMessage> {
    let ks = keys(c.cfg);
    let pw = Password::empty();
    match c.cfg {
        0 | 1 => CleartextSignedMessage::sign(crate::engine::rng(11), text, &ks[0].primary_key, &pw),
        2 => {
            let cfg = make_config(&ks[0].primary_key, HashAlgorithm::Sha512, 12)?;
            CleartextSignedMessage::new(text, cfg, &ks[0].primary_key, &pw)
        }
        _ => CleartextSignedMessage::new_many(text, |t| {
            let mut sigs = Vec::new();
            for (i, k) in ks.iter().enumerate() {
                let hash = if i == 0 {
                    HashAlgorithm::Sha256
                } else {
                    HashAlgorithm::Sha512
                };
                let cfg = make_config(&k.primary_key, hash, 13 + i as u64)?;
                sigs.push(cfg.sign(&k.primary_key, &pw, t.as_bytes())?);
            }
            Ok(sigs)
        }),
    }
}

fn run_text(c: &TextCase) -> Outcome {
    let text = build_text(c);
    let tb = text.as_bytes();
    // every violation that needs a text ending in a lone CR carries this marker
    let mark = if text.ends_with('\r') {
        "trailing-lone-CR:"
    } else {
        ""
    };
    let ks = keys(c.cfg);
    let msg = match sign_text(c, &text) {
        Ok(m) => m,
        Err(e) => {
            return Outcome::bad(
                format!("C16:{mark}sign-error"),
                format!("text \"{}\": {e}", esc(tb)),
            )
        }
    };
    let nontrivial = text.contains('-') || text.contains(' ') || text.contains('\r') || text.contains('\t');
    let mut o = if nontrivial {
        Outcome::ok("roundtrip+verify-ok")
    } else {
        Outcome::trivial("roundtrip+verify-ok")
    };
    let want_signed = csf_signed_form(tb);
    if msg.signed_text().as_bytes() != &want_signed[..] {
        o.push(
            format!("C16:{mark}signed-form-not-rfc"),
            format!(
                "text \"{}\": signed_text() = \"{}\", RFC signed form = \"{}\"",
                esc(tb),
                esc(msg.signed_text().as_bytes()),
                esc(&want_signed)
            ),
        );
    }
    for (i, k) in ks.iter().enumerate() {
        if let Err(e) = msg.verify(&k.primary_key.public_key()) {
            o.push(
                format!("C16:{mark}fresh-message-does-not-verify"),
                format!("text \"{}\" signer {i}: {e}", esc(tb)),
            );
        }
    }
    let doc = match msg.to_armored_string(None.into()) {
        Ok(d) => d,
        Err(e) => {
            o.push(format!("C16:{mark}write-error"), e.to_string());
            return o;
        }
    };
    // independent reader: the emitted document must carry exactly this text
    match read_document(doc.as_bytes()) {
        Some(d) => {
            let got = dash_unescape(&d.escaped_text);
            if got != tb {
                let class = if got.len() < tb.len() && tb.starts_with(&got) {
                    "text-section-ends-early"
                } else {
                    "document-carries-different-text"
                };
                o.push(
                    format!("C16:{mark}{class}"),
                    format!(
                        "text \"{}\": an independent reader of the emitted document sees \"{}\"",
                        esc(tb),
                        esc(&got)
                    ),
                );
            }
        }
        None => o.push(
            format!("C16:{mark}emitted-document-malformed"),
            format!("text \"{}\": emitted document is not a well-formed cleartext signed message", esc(tb)),
        ),
    }
    match CleartextSignedMessage::from_string(&doc) {
        Ok((m2, _)) => {
            if m2.text() != msg.text() {
                o.push(
                    format!("C16:{mark}reread-text-differs"),
                    format!(
                        "text \"{}\": text() before \"{}\" after re-reading \"{}\"",
                        esc(tb),
                        esc(msg.text().as_bytes()),
                        esc(m2.text().as_bytes())
                    ),
                );
            }
            if dash_unescape(m2.text().as_bytes()) != tb {
                o.push(
                    format!("C16:{mark}reread-text-not-original"),
                    format!(
                        "text \"{}\": re-read and unescaped text is \"{}\"",
                        esc(tb),
                        esc(&dash_unescape(m2.text().as_bytes()))
                    ),
                );
            }
            if m2.signed_text() != msg.signed_text() {
                o.push(
                    format!("C16:{mark}reread-signed-form-differs"),
                    format!("text \"{}\"", esc(tb)),
                );
            }
            for (i, k) in ks.iter().enumerate() {
                if let Err(e) = m2.verify(&k.primary_key.public_key()) {
                    o.push(
                        format!("C16:{mark}reread-does-not-verify"),
                        format!("text \"{}\" signer {i}: {e}", esc(tb)),
                    );
                }
            }
            // the sibling verifier: every signature is handed to the callback with the signed text
            let many = m2.verify_many(|_, sig, data| {
                if ks.iter().any(|k| sig.verify(&k.primary_key.public_key(), data).is_ok()) {
                    Ok(())
                } else {
                    Err(pgp::errors::Error::from(std::io::Error::other("no signer key verifies this signature over the text handed to the callback")))
                }
            });
            if let Err(e) = many {
                o.push(format!("C16:{mark}reread-does-not-verify"), format!("text \"{}\" through verify_many: {e}", esc(tb)));
            }
            if m2.signatures().len() != ks.len() {
                o.push(
                    format!("C16:{mark}signature-count"),
                    format!("{} != {}", m2.signatures().len(), ks.len()),
                );
            }
        }
        Err(e) => o.push(
            format!("C16:{mark}own-document-rejected"),
            format!("text \"{}\": from_string fails: {e}", esc(tb)),
        ),
    }
    // the sibling ways in: from_armor over a reader, and the type-sniffing Any::from_string
    let via_reader = CleartextSignedMessage::from_armor(doc.as_bytes()).map(|(m, _)| m);
    let via_any = pgp::composed::Any::from_string(&doc).map_err(|e| e.to_string()).and_then(|(a, _)| match a {
        pgp::composed::Any::Cleartext(m) => Ok(m),
        _ => Err("Any::from_string does not classify the document as a cleartext message".to_string()),
    });
    for (name, parsed) in [("from_armor", via_reader.map_err(|e| e.to_string())), ("Any::from_string", via_any)] {
        match parsed {
            Ok(m3) => {
                if m3.signed_text() != msg.signed_text() || m3.text() != msg.text() {
                    o.push(format!("C16:{mark}reread-text-differs"), format!("text \"{}\" through {name}", esc(tb)));
                }
                for (i, k) in ks.iter().enumerate() {
                    if let Err(e) = m3.verify(&k.primary_key.public_key()) {
                        o.push(format!("C16:{mark}reread-does-not-verify"), format!("text \"{}\" through {name}, signer {i}: {e}", esc(tb)));
                    }
                }
            }
            Err(e) => o.push(format!("C16:{mark}own-document-rejected"), format!("text \"{}\": {name} fails: {e}", esc(tb))),
        }
    }
    o
}

#[derive(Clone, Debug, Hash, Serialize, Deserialize)]
pub struct MutCase {
    pub base: TextCase,
    /// 0: flip bit `arg` of byte `pos`; 1: delete byte `pos`; 2: insert INSERTS[arg] before `pos`
    pub op: u8,
    pub pos: usize,
    pub arg: u8,
}

pub const INSERTS: [&[u8]; 10] = [b"-", b" ", b"\n", b"x", b"\r", b"\t", b"- ", b"\x0c", b"\x0b", b"\xc2\xa0"];

/// region of the document open to the adversary: after the first line, before the signature block
fn mut_region(doc: &[u8]) -> (usize, usize) {
    let start = doc.iter().position(|&b| b == b'\n').map(|p| p + 1).unwrap_or(0);
    let marker = b"\n-----BEGIN PGP SIGNATURE-----";
    let end = doc
        .windows(marker.len())
        .rposition(|w| w == marker)
        .map(|p| p + 1)
        .unwrap_or(doc.len());
    (start, end)
}

pub fn run_mut(c: &MutCase) -> Outcome {
    let text = build_text(&c.base);
    let ks = keys(c.base.cfg);
    let Ok(msg) = sign_text(&c.base, &text) else {
        return Outcome::trivial("base-sign-error");
    };
    let Ok(doc) = msg.to_armored_bytes(None.into()) else {
        return Outcome::trivial("base-write-error");
    };
    let orig_signed = csf_signed_form(text.as_bytes());
    let mut d = doc.clone();
    match c.op {
        0 => d[c.pos] ^= 1 << c.arg,
        1 => {
            d.remove(c.pos);
        }
        _ => {
            let ins = INSERTS[c.arg as usize];
            for (i, b) in ins.iter().enumerate() {
                d.insert(c.pos + i, *b);
            }
        }
    }
    let parsed = CleartextSignedMessage::from_armor(&d[..]);
    let Ok((m2, _)) = parsed else {
        return Outcome::ok("rejected@parse");
    };
    let verifies = ks
        .iter()
        .any(|k| m2.verify(&k.primary_key.public_key()).is_ok());
    let reference = read_document(&d);
    let same_signed = reference
        .as_ref()
        .map(|r| csf_signed_form(&dash_unescape(&r.escaped_text)) == orig_signed);
    match (verifies, same_signed) {
        (false, Some(false)) | (false, None) => Outcome::ok("changed:rejected@verify"),
        (true, Some(true)) => Outcome::ok("signed-form-unchanged:accepted"),
        (false, Some(true)) => Outcome::ok("signed-form-unchanged:rejected"),
        (true, Some(false)) => Outcome::bad(
            "C16:tamper:changed-signed-form-verifies",
            format!(
                "document for text \"{}\" modified (op {} at {} arg {}) so that its signed form is \"{}\" still verifies (library sees signed text \"{}\")",
                esc(text.as_bytes()),
                c.op,
                c.pos,
                c.arg,
                esc(&csf_signed_form(&dash_unescape(&reference.unwrap().escaped_text))),
                esc(m2.signed_text().as_bytes())
            ),
        ),
        (true, None) => Outcome::bad(
            "C16:tamper:malformed-document-verifies",
            format!(
                "document for text \"{}\" modified (op {} at {} arg {}) is not a well-formed cleartext document for an independent reader but verifies",
                esc(text.as_bytes()),
                c.op,
                c.pos,
                c.arg
            ),
        ),
    }
}

#[derive(Clone, Debug, Hash, Serialize, Deserialize)]
pub struct HeaderCase {
    pub header: String,
    pub after_hash: bool,
}

fn run_header(c: &HeaderCase) -> Outcome {
    let base = TextCase {
        lines: vec![1, 2],
        eol: 0,
        fin: 0,
        cfg: 0,
    };
    let text = build_text(&base);
    let msg = sign_text(&base, &text).expect("sign");
    let doc = msg.to_armored_string(None.into()).expect("write");
    let hash_line = "Hash: SHA256\n";
    let Some(p) = doc.find(hash_line) else {
        return Outcome::bad("MACHINERY:no-hash-line", doc);
    };
    let at = if c.after_hash { p + hash_line.len() } else { p };
    let mut d = doc.clone();
    d.insert_str(at, &format!("{}\n", c.header));
    match CleartextSignedMessage::from_string(&d) {
        Err(_) => Outcome::ok("extra-header:rejected"),
        Ok(_) => Outcome::bad(
            "C16:extra-armor-header-accepted",
            format!("cleartext header section with extra line \"{}\" is accepted", c.header),
        ),
    }
}

fn seqs(alpha: &[u8], max_len: usize) -> Vec<Vec<u8>> {
    let mut out: Vec<Vec<u8>> = vec![vec![]];
    let mut level: Vec<Vec<u8>> = vec![vec![]];
    for _ in 0..max_len {
        let mut next = Vec::new();
        for s in &level {
            for &a in alpha {
                let mut t = s.clone();
                t.push(a);
                next.push(t);
            }
        }
        out.extend(next.iter().cloned());
        level = next;
    }
    out
}

/// Single deviations of armored cleartext documents (shared with C02's cleartext space).
pub fn tamper_cases(quick: bool) -> Vec<MutCase> {
    let bases: Vec<TextCase> = [
        (vec![1u8], 0u8, 0u8, 0u8),
        (vec![1, 2, 6], 0, 1, 0),
        (vec![3, 4], 1, 0, 0),
        (vec![7, 15], 0, 1, 0),
        (vec![6, 0, 12], 0, 0, 1),
        (vec![], 0, 0, 0),
        (vec![10, 7], 0, 1, 3),
        (vec![14, 8, 1], 1, 1, 0),
    ]
    .into_iter()
    .take(if quick { 8 } else { 8 })
    .map(|(lines, eol, fin, cfg)| TextCase {
        lines,
        eol,
        fin,
        cfg,
    })
    .collect();
    let mut muts = Vec::new();
    for b in &bases {
        let text = build_text(b);
        let doc = sign_text(b, &text)
            .and_then(|m| m.to_armored_bytes(None.into()))
            .expect("base document");
        let (s, e) = mut_region(&doc);
        for pos in s..e {
            for bit in 0..8u8 {
                muts.push(MutCase {
                    base: b.clone(),
                    op: 0,
                    pos,
                    arg: bit,
                });
            }
            muts.push(MutCase {
                base: b.clone(),
                op: 1,
                pos,
                arg: 0,
            });
        }
        for pos in s..=e {
            for k in 0..INSERTS.len() as u8 {
                muts.push(MutCase {
                    base: b.clone(),
                    op: 2,
                    pos,
                    arg: k,
                });
            }
        }
    }
    muts
}

pub fn check(ctx: &Ctx) {
    let all: Vec<u8> = (0..LINES.len() as u8).collect();
    let quick = ctx.tier == Tier::Quick;
    let mut cases = Vec::new();
    // full line alphabet
    for lines in seqs(&all, if quick { 4 } else { 5 }) {
        for eol in 0..3u8 {
            if eol == 2 && lines.len() < 3 {
                continue;
            }
            for fin in 0..3u8 {
                cases.push(TextCase {
                    lines: lines.clone(),
                    eol,
                    fin,
                    cfg: 0,
                });
            }
        }
    }
    // deeper texts over the 4-shape sub-alphabet
    for lines in seqs(&SHAPES4, if quick { 8 } else { 10 }) {
        if lines.len() <= 3 {
            continue;
        }
        for eol in 0..2u8 {
            for fin in 0..2u8 {
                cases.push(TextCase {
                    lines: lines.clone(),
                    eol,
                    fin,
                    cfg: 0,
                });
            }
        }
    }
    // other signing interfaces / versions / hashes / two signers on the short texts
    for lines in seqs(&all, 2) {
        for cfg in 1..=3u8 {
            for eol in 0..2u8 {
                for fin in 0..3u8 {
                    cases.push(TextCase {
                        lines: lines.clone(),
                        eol,
                        fin,
                        cfg,
                    });
                }
            }
        }
    }
    ctx.run_space(
        "texts",
        true,
        "texts = sequences of lines from a 17-line alphabet (dash lines, armor boundary strings - also behind a leading blank -, trailing blanks, inner CR, UTF-8, lines ending in FF / NBSP) up to 4 (thorough 5) lines and from a 4-shape sub-alphabet up to 8 (10) lines x line ending {LF,CRLF,mixed} x final {none,newline,lone CR} x {sign v4, sign v6, new SHA-512, new_many 2 signers}: sign -> signed_text = RFC form -> armored -> independent reader sees the text -> from_string / from_armor / Any::from_string -> same text, verifies (verify and verify_many); non-trivial = text contains '-', blank, TAB or CR",
        cases.into_par_iter(),
        run_text,
    );

    // adversary on the armored document
    let muts = tamper_cases(quick);
    ctx.run_space(
        "document_tamper",
        true,
        "for base documents: every single-bit flip, every single-byte deletion and every insertion of one of 10 strings (dash, blank, LF, CR, TAB, letter, dash escape, FF, VT, NBSP) at every position of the Hash header + text section; oracle: if the library accepts and verifies, an independent reader must see the same RFC signed form",
        muts.into_par_iter(),
        run_mut,
    );

    let mut hc = Vec::new();
    for h in ["Comment: x", "Version: 1", "Charset: UTF-8", "NotDashEscaped: You need GnuPG to verify this message", "Foo", "Hash: NOSUCH"] {
        for after in [false, true] {
            hc.push(HeaderCase {
                header: h.to_string(),
                after_hash: after,
            });
        }
    }
    ctx.run_space(
        "extra_headers",
        true,
        "an armor header other than a valid Hash header inserted before/after the Hash line of the cleartext header section must make from_string fail",
        hc.into_par_iter(),
        run_header,
    );
    ctx.assume("texts are valid UTF-8 (the API takes &str)");
}

pub fn replay(space: &str, case: &Value) -> Option<Outcome> {
    match space {
        "texts" => replay_as(case, run_text),
        "document_tamper" => replay_as(case, run_mut),
        "extra_headers" => replay_as(case, run_header),
        _ => None,
    }
}
