//! C14 — text canonicalisation is one function, however the text is delivered.
//!
//! Enumerates all strings over {CR, LF, x} up to a length bound and all chunkings of each, through
//! every canonicalising implementation in the library; reference model: `reference::canon`.

use std::io::Read;

use pgp::{
    composed::DetachedSignature,
    crypto::hash::HashAlgorithm,
    line_writer::LineBreak,
    normalize_lines::NormalizedReader,
    packet::{LiteralData, SignatureConfig, SignatureType},
    types::{KeyDetails, Password},
};
use rayon::prelude::*;
use serde::{Deserialize, Serialize};
use serde_json::Value;
use sha2::{Digest, Sha256};

use crate::{
    common::{self, esc, KeyKind, RecSigner},
    engine::{replay_as, Ctx, Outcome},
    reference::canon::{canon, canon_to},
};

const ABC: [&[u8]; 3] = [b"\r", b"\n", b"x"];

#[derive(Clone, Debug, Hash, Serialize, Deserialize)]
pub struct TextCase {
    pub s: Vec<u8>,
}

#[derive(Clone, Debug, Hash, Serialize, Deserialize)]
pub struct ReaderCase {
    pub s: Vec<u8>,
    pub eol: u8, // 0 = LF, 1 = CRLF, 2 = CR
}

#[derive(Clone, Debug, Hash, Serialize, Deserialize)]
pub struct PairCase {
    pub s: Vec<u8>,
    pub t: Vec<u8>,
}

#[derive(Clone, Debug, Hash, Serialize, Deserialize)]
pub struct BoundaryCase {
    pub w: Vec<u8>,
    pub boundary: usize,
    /// w starts at boundary - back
    pub back: usize,
    /// number of bytes after w (0: the text ends with w)
    #[serde(default)]
    pub tail: usize,
}

#[derive(Clone, Debug, Hash, Serialize, Deserialize)]
pub struct GateCase {
    pub s: Vec<u8>,
}

fn nontrivial(s: &[u8]) -> bool {
    s.contains(&b'\r') || s.contains(&b'\n')
}

/// (1) crate-private streaming hasher (hook H2), all compositions of the string.
fn run_hasher_h2(c: &TextCase) -> Outcome {
    let want = canon(&c.s);
    let n = c.s.len();
    let masks: u32 = if n <= 1 { 1 } else { 1 << (n - 1) };
    let mut o = if nontrivial(&c.s) {
        Outcome::ok("equal")
    } else {
        Outcome::trivial("equal")
    };
    o.evals = masks as u64;
    for mask in 0..masks {
        let parts = common::composition(n, mask);
        let chunks = common::split_by(&c.s, &parts);
        let got = pgp::verif_hooks::normalizing_hasher_bytes(&chunks, true);
        if got != want {
            let class = if c.s.last() == Some(&b'\r') && got.len() == want.len() + 1 {
                "trailing-lone-CR:extra-LF"
            } else {
                "mismatch"
            };
            o.push(
                format!("C14:streaming-hasher:{class}"),
                format!(
                    "NormalizingHasher over \"{}\" chunked {:?}: hashed \"{}\", canonical form is \"{}\"",
                    esc(&c.s),
                    parts,
                    esc(&got),
                    esc(&want)
                ),
            );
            break;
        }
        // binary mode must be the identity
        let got_bin = pgp::verif_hooks::normalizing_hasher_bytes(&chunks, false);
        if got_bin != c.s {
            o.push(
                "C14:streaming-hasher:binary-mode-not-identity",
                format!("binary mode changed \"{}\" to \"{}\"", esc(&c.s), esc(&got_bin)),
            );
            break;
        }
    }
    o
}

fn v4_text_digest(canon_text: &[u8], pub_alg: u8) -> Vec<u8> {
    // RFC 9580 5.2.4, v4, type 0x01, empty hashed area
    let mut h = Sha256::new();
    h.update(canon_text);
    h.update([4u8, 0x01, pub_alg, 8 /* SHA-256 */, 0, 0]);
    h.update([4u8, 0xFF, 0, 0, 0, 6]);
    h.finalize().to_vec()
}

/// (2) public route: `SignatureConfig::into_hasher()` as `io::Write`, every 1- and 2-chunk split;
/// digest seen by a recording signer = SHA-256(canon(text) || hashed fields || trailer); then the
/// reader-side canonicaliser (`Signature::verify` over a reader) must accept.
fn run_hasher_public(c: &TextCase) -> Outcome {
    use std::io::Write;
    let cert = common::cert(KeyKind::Ed25519V4, 1);
    let key = &cert.primary_key;
    let pubkey = key.public_key();
    let want = v4_text_digest(&canon(&c.s), u8::from(key.algorithm()));
    let mut o = if nontrivial(&c.s) {
        Outcome::ok("digest-equal+verifies")
    } else {
        Outcome::trivial("digest-equal+verifies")
    };
    let n = c.s.len();
    for cut in 0..=n {
        if n > 0 && cut == n {
            continue;
        }
        let cfg = SignatureConfig::v4(SignatureType::Text, key.algorithm(), HashAlgorithm::Sha256);
        let mut hasher = match cfg.into_hasher() {
            Ok(h) => h,
            Err(e) => return Outcome::bad("C14:public-hasher:setup", e.to_string()),
        };
        hasher.write_all(&c.s[..cut]).unwrap();
        hasher.write_all(&c.s[cut..]).unwrap();
        let rec = RecSigner::new(key);
        let sig = match hasher.sign(&rec, &Password::empty()) {
            Ok(s) => s,
            Err(e) => return Outcome::bad("C14:public-hasher:sign-error", e.to_string()),
        };
        o.evals += 1;
        let got = rec.last().unwrap_or_default();
        if got != want {
            let class = if c.s.last() == Some(&b'\r') {
                "trailing-lone-CR"
            } else {
                "mismatch"
            };
            o.push(
                format!("C14:public-hasher:digest:{class}"),
                format!(
                    "text signature over \"{}\" (split at {cut}): signed digest {} != digest of canonical form {}",
                    esc(&c.s),
                    hex::encode(&got),
                    hex::encode(&want)
                ),
            );
            break;
        }
        if let Err(e) = sig.verify(&pubkey, &c.s[..]) {
            o.push(
                "C14:public-hasher:verify-side-disagrees",
                format!(
                    "signature made through the streaming hasher over \"{}\" fails Signature::verify: {e}",
                    esc(&c.s)
                ),
            );
            break;
        }
    }
    o
}

/// (3) `NormalizedReader` for the three targets, all source compositions x consumer sizes.
fn run_reader(c: &ReaderCase) -> Outcome {
    let (lb, eol): (LineBreak, &[u8]) = match c.eol {
        0 => (LineBreak::Lf, b"\n"),
        1 => (LineBreak::Crlf, b"\r\n"),
        _ => (LineBreak::Cr, b"\r"),
    };
    let want = canon_to(&c.s, eol);
    let n = c.s.len();
    let masks: u32 = if n <= 1 { 1 } else { 1 << (n - 1) };
    let mut o = if nontrivial(&c.s) {
        Outcome::ok("equal")
    } else {
        Outcome::trivial("equal")
    };
    for mask in 0..masks {
        let parts = common::composition(n, mask);
        // (0 = reads of 2 octets, each preceded by a read into an empty buffer)
        for consumer in [usize::MAX, 1, 2, 3, 0] {
            let src = PartsReader {
                data: &c.s,
                parts: &parts,
                idx: 0,
                pos: 0,
                left: 0,
            };
            let mut r = NormalizedReader::new(src, lb);
            let mut got = Vec::new();
            let res = if consumer == usize::MAX {
                r.read_to_end(&mut got).map(|_| ())
            } else {
                let mut buf = vec![0u8; if consumer == 0 { 2 } else { consumer }];
                loop {
                    if consumer == 0 {
                        if let Err(e) = r.read(&mut []) {
                            break Err(e);
                        }
                    }
                    match r.read(&mut buf) {
                        Ok(0) => break Ok(()),
                        Ok(k) => got.extend_from_slice(&buf[..k]),
                        Err(e) => break Err(e),
                    }
                    if got.len() > 4 * n + 16 {
                        break Err(std::io::Error::other("runaway"));
                    }
                }
            };
            o.evals += 1;
            if res.is_err() || got != want {
                o.push(
                    "C14:normalized-reader:mismatch",
                    format!(
                        "NormalizedReader(eol={}) over \"{}\" source chunks {:?} consumer {}: got \"{}\" ({:?}), want \"{}\"",
                        c.eol,
                        esc(&c.s),
                        parts,
                        consumer,
                        esc(&got),
                        res.err().map(|e| e.to_string()),
                        esc(&want)
                    ),
                );
                return o;
            }
        }
    }
    o
}

struct PartsReader<'a> {
    data: &'a [u8],
    parts: &'a [usize],
    idx: usize,
    pos: usize,
    left: usize,
}

impl Read for PartsReader<'_> {
    fn read(&mut self, buf: &mut [u8]) -> std::io::Result<usize> {
        if buf.is_empty() {
            return Ok(0);
        }
        if self.left == 0 {
            if self.idx >= self.parts.len() {
                return Ok(0);
            }
            self.left = self.parts[self.idx];
            self.idx += 1;
        }
        let k = self.left.min(buf.len());
        buf[..k].copy_from_slice(&self.data[self.pos..self.pos + k]);
        self.pos += k;
        self.left -= k;
        Ok(k)
    }
}

/// (4) in-memory `normalize_lines` through `LiteralData::from_str`.
fn run_in_memory(c: &TextCase) -> Outcome {
    let s = String::from_utf8(c.s.clone()).expect("ascii");
    let want = canon(&c.s);
    match LiteralData::from_str("", &s) {
        Ok(l) => {
            if l.data() == &want[..] {
                if nontrivial(&c.s) {
                    Outcome::ok("equal")
                } else {
                    Outcome::trivial("equal")
                }
            } else {
                Outcome::bad(
                    "C14:normalize_lines:mismatch",
                    format!(
                        "LiteralData::from_str(\"{}\") holds \"{}\", canonical form is \"{}\"",
                        esc(&c.s),
                        esc(l.data()),
                        esc(&want)
                    ),
                )
            }
        }
        Err(e) => Outcome::bad("C14:normalize_lines:error", e.to_string()),
    }
}

/// (5) invariance: a text signature over s verifies over t iff canon(s) == canon(t).
fn run_pair(c: &PairCase) -> Outcome {
    let cert = common::cert(KeyKind::Ed25519V4, 1);
    let key = &cert.primary_key;
    let pubkey = key.public_key();
    let mut rng = crate::engine::rng(7);
    let sig = match DetachedSignature::sign_text_data(&mut rng, key, &Password::empty(), HashAlgorithm::Sha256, &c.s[..]) {
        Ok(s) => s,
        Err(e) => return Outcome::bad("C14:pair:sign-error", e.to_string()),
    };
    let same = canon(&c.s) == canon(&c.t);
    // the same signature carried in front of a literal packet holding t (prefixed-signature
    // message): the inline verification path has its own hasher
    {
        use pgp::ser::Serialize as _;
        use std::io::Read as _;
        let mut lit = vec![b'b', 0, 0, 0, 0, 0];
        lit.extend_from_slice(&c.t);
        let stream = [
            crate::reference::frame::frame_min(2, &sig.signature.to_bytes().unwrap_or_default()),
            crate::reference::frame::frame_min(11, &lit),
        ]
        .concat();
        let inline = pgp::composed::Message::from_bytes(&stream[..]).map_err(|e| e.to_string()).and_then(|mut m| {
            let mut sink = Vec::new();
            m.read_to_end(&mut sink).map_err(|e| e.to_string())?;
            m.verify(&pubkey).map(|_| ()).map_err(|e| e.to_string())
        });
        match (same, inline) {
            (true, Err(e)) => {
                return Outcome::bad(
                    "C14:pair:prefixed-message:equivalent-rejected",
                    format!("text signature over \"{}\" in front of a literal packet holding the equivalent \"{}\" does not verify: {e}", esc(&c.s), esc(&c.t)),
                )
            }
            (false, Ok(())) => {
                return Outcome::bad(
                    "C14:pair:prefixed-message:different-accepted",
                    format!("text signature over \"{}\" verifies inline over the non-equivalent \"{}\"", esc(&c.s), esc(&c.t)),
                )
            }
            _ => {}
        }
    }
    let res = sig.verify(&pubkey, &c.t);
    match (same, res) {
        (true, Ok(())) => Outcome::ok("equivalent:accepted"),
        (false, Err(_)) => Outcome::ok("different:rejected"),
        (true, Err(e)) => {
            let class = if c.s.last() == Some(&b'\r') || c.t.last() == Some(&b'\r') {
                "trailing-lone-CR"
            } else {
                "other"
            };
            Outcome::bad(
                format!("C14:pair:equivalent-rejected:{class}"),
                format!(
                    "text signature over \"{}\" does not verify over the equivalent \"{}\": {e}",
                    esc(&c.s),
                    esc(&c.t)
                ),
            )
        }
        (false, Ok(())) => Outcome::bad(
            "C14:pair:different-accepted",
            format!(
                "text signature over \"{}\" verifies over the non-equivalent \"{}\"",
                esc(&c.s),
                esc(&c.t)
            ),
        ),
    }
}

fn boundary_text(c: &BoundaryCase) -> Vec<u8> {
    let start = c.boundary - c.back;
    let mut t = vec![b'x'; start];
    t.extend_from_slice(&c.w);
    t.extend_from_slice(&vec![b'y'; c.tail]);
    t
}

/// (6) CR/LF placed across the internal window edges (512/1024 normaliser window, 8192/16384
/// reader buffers), through the streaming hasher, the normalising reader and `Signature::verify`.
fn run_boundary(c: &BoundaryCase) -> Outcome {
    let t = boundary_text(c);
    let want = canon(&t);
    let mut o = Outcome::ok("equal");
    // streaming hasher: cut at boundary-1, boundary, boundary+1 and every position inside w
    let start = c.boundary - c.back;
    let mut cuts: Vec<usize> = vec![c.boundary - 1, c.boundary, c.boundary + 1];
    cuts.extend(start..=start + c.w.len());
    cuts.sort_unstable();
    cuts.dedup();
    for &cut in &cuts {
        if cut > t.len() {
            continue;
        }
        let got = pgp::verif_hooks::normalizing_hasher_bytes(&[&t[..cut], &t[cut..]], true);
        o.evals += 1;
        if got != want {
            o.push(
                "C14:boundary:streaming-hasher",
                format!(
                    "w=\"{}\" at {}-{} cut {cut}: hasher output differs from canonical form at byte {}",
                    esc(&c.w),
                    c.boundary,
                    c.back,
                    first_diff(&got, &want)
                ),
            );
            return o;
        }
    }
    // normalising reader, source delivering everything / 1 byte / boundary-sized pieces
    for uni in [usize::MAX, 1, c.boundary, c.boundary - 1, 511, 513] {
        for consumer in [usize::MAX, 1, 512, 513] {
            let src = UniReader {
                data: &t,
                pos: 0,
                uni,
            };
            let mut r = NormalizedReader::new(src, LineBreak::Crlf);
            let mut got = Vec::new();
            let res = if consumer == usize::MAX {
                r.read_to_end(&mut got).map(|_| ())
            } else {
                let mut buf = vec![0u8; consumer];
                loop {
                    match r.read(&mut buf) {
                        Ok(0) => break Ok(()),
                        Ok(k) => got.extend_from_slice(&buf[..k]),
                        Err(e) => break Err(e),
                    }
                }
            };
            o.evals += 1;
            if res.is_err() || got != want {
                o.push(
                    "C14:boundary:normalized-reader",
                    format!(
                        "w=\"{}\" at {}-{} source<= {uni} consumer {consumer}: output differs from canonical form at byte {}",
                        esc(&c.w),
                        c.boundary,
                        c.back,
                        first_diff(&got, &want)
                    ),
                );
                return o;
            }
        }
    }
    // one read of the source is interrupted (ErrorKind::Interrupted: nothing read, call again) at
    // call k; the consumer repeats interrupted reads as std's helpers do.  The text that comes out
    // is the canonical one, or reading ends in an error - never a clean different text.
    for uni in [usize::MAX, c.boundary, 511, 513] {
        for k in 0..8usize {
            let src = InterruptedReader { inner: UniReader { data: &t, pos: 0, uni }, calls: 0, at: k };
            let mut r = NormalizedReader::new(src, LineBreak::Crlf);
            let mut got = Vec::new();
            let mut buf = vec![0u8; 600];
            let mut repeats = 0usize;
            let res: Result<(), String> = loop {
                match r.read(&mut buf) {
                    Ok(0) => break Ok(()),
                    Ok(n) => {
                        repeats = 0;
                        got.extend_from_slice(&buf[..n]);
                        if got.len() > 2 * want.len() + 1024 {
                            break Err("runaway".into());
                        }
                    }
                    Err(e) if e.kind() == std::io::ErrorKind::Interrupted && repeats < 1000 => repeats += 1,
                    Err(e) => break Err(e.to_string()),
                }
            };
            o.evals += 1;
            if res.is_ok() && got != want {
                o.push(
                    "C14:boundary:normalized-reader:interrupted-read-changes-the-text",
                    format!(
                        "w=\"{}\" at {}-{} source<= {uni}, read number {k} of the source interrupted once: the reader ends cleanly with {} octets, the canonical text has {} (first difference at {})",
                        esc(&c.w),
                        c.boundary,
                        c.back,
                        got.len(),
                        want.len(),
                        first_diff(&got, &want)
                    ),
                );
                return o;
            }
        }
    }
    // sign through the hasher, verify through the reader-based path
    let cert = common::cert(KeyKind::Ed25519V4, 1);
    let key = &cert.primary_key;
    let mut rng = crate::engine::rng(7);
    match DetachedSignature::sign_text_data(&mut rng, key, &Password::empty(), HashAlgorithm::Sha256, &t[..]) {
        Ok(sig) => {
            o.evals += 1;
            if let Err(e) = sig.verify(&key.public_key(), &t) {
                let class = if t.last() == Some(&b'\r') {
                    "trailing-lone-CR"
                } else {
                    "other"
                };
                o.push(
                    format!("C14:boundary:sign-verify:{class}"),
                    format!("w=\"{}\" at {}-{}: {e}", esc(&c.w), c.boundary, c.back),
                );
            }
        }
        Err(e) => o.push("C14:boundary:sign-error", e.to_string()),
    }
    o
}

fn first_diff(a: &[u8], b: &[u8]) -> usize {
    a.iter()
        .zip(b.iter())
        .position(|(x, y)| x != y)
        .unwrap_or(a.len().min(b.len()))
}

/// Returns `ErrorKind::Interrupted` once, at call number `at`.
struct InterruptedReader<R: Read> {
    inner: R,
    calls: usize,
    at: usize,
}

impl<R: Read> Read for InterruptedReader<R> {
    fn read(&mut self, buf: &mut [u8]) -> std::io::Result<usize> {
        self.calls += 1;
        if self.calls == self.at + 1 {
            return Err(std::io::Error::new(std::io::ErrorKind::Interrupted, "verif-interrupted"));
        }
        self.inner.read(buf)
    }
}

struct UniReader<'a> {
    data: &'a [u8],
    pos: usize,
    uni: usize,
}

impl Read for UniReader<'_> {
    fn read(&mut self, buf: &mut [u8]) -> std::io::Result<usize> {
        let k = (self.data.len() - self.pos).min(buf.len()).min(self.uni);
        buf[..k].copy_from_slice(&self.data[self.pos..self.pos + k]);
        self.pos += k;
        Ok(k)
    }
}

/// Text signatures requested from the message builder on every route (plain, SEIPDv1, SEIPDv2;
/// `sign_text` called before or after the transition to an encrypting builder): the signature
/// that comes out is a text signature over the canonical form of the literal data.
#[derive(Clone, Debug, Hash, Serialize, Deserialize)]
pub struct RouteCase {
    pub s: Vec<u8>,
    /// 0 plain, 1 SEIPDv1, 2 SEIPDv2
    pub enc: u8,
    /// true: sign_text() before seipd_v1()/seipd_v2()
    pub early: bool,
}

fn run_route(c: &RouteCase) -> Outcome {
    use pgp::composed::{Message, MessageBuilder};
    use pgp::crypto::{aead::{AeadAlgorithm, ChunkSize}, sym::SymmetricKeyAlgorithm};
    use std::io::Read as _;
    let cert = common::cert(KeyKind::Ed25519V4, 1);
    let key = &cert.primary_key;
    let pk = key.public_key();
    let pw = Password::from("route");
    let what = format!("payload \"{}\" route {} sign_text {}", esc(&c.s), ["plain", "SEIPDv1", "SEIPDv2"][c.enc as usize], if c.early { "before the transition" } else { "after the transition" });
    let built: pgp::errors::Result<Vec<u8>> = (|| {
        let mut b = MessageBuilder::from_bytes("", c.s.clone());
        if c.early || c.enc == 0 {
            b.sign_text();
            b.sign(key, Password::empty(), HashAlgorithm::Sha256);
        }
        match c.enc {
            0 => b.to_vec(crate::engine::rng(3)),
            1 => {
                let mut b = b.seipd_v1(crate::engine::rng(4), SymmetricKeyAlgorithm::AES128);
                if !c.early {
                    b.sign_text();
                    b.sign(key, Password::empty(), HashAlgorithm::Sha256);
                }
                b.encrypt_with_password(pgp::types::StringToKey::new_default(crate::engine::rng(5)), &pw)?;
                b.to_vec(crate::engine::rng(3))
            }
            _ => {
                let mut b = b.seipd_v2(crate::engine::rng(4), SymmetricKeyAlgorithm::AES128, AeadAlgorithm::Ocb, ChunkSize::C64B);
                if !c.early {
                    b.sign_text();
                    b.sign(key, Password::empty(), HashAlgorithm::Sha256);
                }
                b.encrypt_with_password(crate::engine::rng(6), pgp::types::StringToKey::new_default(crate::engine::rng(5)), &pw)?;
                b.to_vec(crate::engine::rng(3))
            }
        }
    })();
    let bytes = match built {
        Ok(b) => b,
        Err(e) => return Outcome::bad("C14:builder-route:build-error", format!("{what}: {e}")),
    };
    let opened = (|| -> Result<pgp::packet::Signature, String> {
        let m = Message::from_bytes(&bytes[..]).map_err(|e| e.to_string())?;
        let mut m = if c.enc == 0 { m } else { m.decrypt_with_password(&pw).map_err(|e| e.to_string())? };
        let mut sink = Vec::new();
        m.read_to_end(&mut sink).map_err(|e| e.to_string())?;
        if sink != c.s {
            return Err("payload differs".into());
        }
        m.verify(pk).map(|s| s.clone()).map_err(|e| format!("inline verification: {e}"))
    })();
    let sig = match opened {
        Ok(s) => s,
        Err(e) => return Outcome::bad("C14:builder-route:own-message-rejected", format!("{what}: {e}")),
    };
    let mut o = Outcome::ok("text-signature-over-canonical-form");
    if sig.typ() != Some(pgp::packet::SignatureType::Text) {
        o.push("C14:builder-route:signature-type-not-text", format!("{what}: the signature is of type {:?}", sig.typ()));
    }
    // the extracted signature is a text signature: it verifies over every equivalent form
    for t in [c.s.clone(), canon(&c.s)] {
        if let Err(e) = sig.verify(pk, &t[..]) {
            o.push("C14:builder-route:extracted-signature-does-not-verify-over-equivalent-text", format!("{what}: over \"{}\": {e}", esc(&t)));
            break;
        }
    }
    o
}

/// The salt of a version 6 signature is binary data in front of the text: it is hashed as it
/// is, whatever octets it holds, in text mode too.
#[derive(Clone, Debug, Hash, Serialize, Deserialize)]
pub struct SaltCase {
    /// position of the special octet(s) in the 16-octet salt
    pub pos: usize,
    /// 0: LF, 1: CR, 2: CR LF (at pos, pos+1), 3: LF CR
    pub what: u8,
    pub doc: u8,
}

const SALT_DOCS: [&[u8]; 4] = [b"abc", b"\nabc", b"a\r\nb\nc\r", b""];

fn run_salt(c: &SaltCase) -> Outcome {
    use pgp::packet::{SignatureConfig, SignatureType, Subpacket, SubpacketData};
    use pgp::types::KeyDetails;
    let cert = common::cert(KeyKind::Ed25519V6, 1);
    let key = &cert.primary_key;
    let pk = key.public_key();
    let mut salt: Vec<u8> = (0..16u8).map(|i| 0x41 + i).collect();
    let special: &[u8] = [&b"\n"[..], b"\r", b"\r\n", b"\n\r"][c.what as usize];
    for (i, b) in special.iter().enumerate() {
        if c.pos + i < 16 {
            salt[c.pos + i] = *b;
        }
    }
    let doc = SALT_DOCS[c.doc as usize];
    let what = format!("salt {} over document \"{}\"", hex::encode(&salt), esc(doc));
    let mut o = Outcome::ok("salt-hashed-as-is");
    for typ in [SignatureType::Text, SignatureType::Binary] {
        let mut cfg = SignatureConfig::v6_with_salt(typ, key.algorithm(), HashAlgorithm::Sha256, salt.clone());
        cfg.hashed_subpackets = vec![
            Subpacket::regular(SubpacketData::SignatureCreationTime(pgp::types::Timestamp::from_secs(common::NOW))).expect("sp"),
            Subpacket::regular(SubpacketData::IssuerFingerprint(key.fingerprint())).expect("sp"),
        ];
        let sig = match cfg.sign(key, &Password::empty(), doc) {
            Ok(s) => s,
            Err(e) => {
                o.push("C14:v6-salt:sign-error", format!("{what}: {e}"));
                continue;
            }
        };
        if let Err(e) = sig.verify(pk, doc) {
            o.push(format!("C14:v6-salt:{typ:?}-signature-does-not-verify"), format!("{what}: {e}"));
        }
        // against the digest definition: salt || canonical text || fields || trailer
        use pgp::ser::Serialize as _;
        let body = sig.to_bytes().expect("ser");
        let kind = if typ == SignatureType::Text { crate::common::sigs::SigKind::DocText } else { crate::common::sigs::SigKind::DocBinary };
        if let Ok(want) = crate::common::sigs::reference_digest(&body, kind, doc, &[], &[], &[]) {
            if let Ok(d) = crate::reference::codec::decode_packet(2, &body) {
                if let crate::reference::codec::Summary::Signature(si) = &d.summary {
                    if body[si.left16.0..si.left16.1] != want[..2] {
                        o.push(format!("C14:v6-salt:{typ:?}-digest-not-over-the-salt-as-is"), format!("{what}: left 16 bits {} vs RFC digest {}", hex::encode(&body[si.left16.0..si.left16.1]), hex::encode(&want[..2])));
                    }
                }
            }
        }
    }
    o
}

pub fn check(ctx: &Ctx) {
    let l = ctx.tier.pick(10, 12);
    let strings = common::all_strings(&ABC, l);
    ctx.run_space(
        "hasher_h2",
        true,
        &format!("all strings over {{CR,LF,x}} of length <= {l} x all 2^(n-1) chunkings through util::NormalizingHasher (hook H2), text and binary mode; non-trivial = contains CR or LF"),
        strings.par_iter().map(|s| TextCase { s: s.clone() }),
        run_hasher_h2,
    );
    let lp = ctx.tier.pick(8, 10);
    let strings_p = common::all_strings(&ABC, lp);
    ctx.run_space(
        "hasher_public",
        true,
        &format!("all strings of length <= {lp} x every 2-chunk split through SignatureConfig::into_hasher (io::Write) with a recording SigningKey; digest = SHA-256(canon || v4 fields || trailer); then Signature::verify over a reader"),
        strings_p.par_iter().map(|s| TextCase { s: s.clone() }),
        run_hasher_public,
    );
    let lr = ctx.tier.pick(9, 11);
    let strings_r = common::all_strings(&ABC, lr);
    ctx.run_space(
        "normalized_reader",
        true,
        &format!("all strings of length <= {lr} x targets {{LF,CRLF,CR}} x all source compositions x consumer sizes {{1,2,3,read_to_end, 2 with a read into an empty buffer before every call}}"),
        strings_r
            .par_iter()
            .flat_map_iter(|s| (0..3u8).map(move |eol| ReaderCase { s: s.clone(), eol })),
        run_reader,
    );
    ctx.run_space(
        "normalize_lines",
        true,
        &format!("all strings of length <= {l} through LiteralData::from_str (in-memory normalize_lines)"),
        strings.par_iter().map(|s| TextCase { s: s.clone() }),
        run_in_memory,
    );
    let lq = ctx.tier.pick(5, 6);
    let sq = common::all_strings(&ABC, lq);
    let pairs: Vec<PairCase> = sq
        .iter()
        .flat_map(|s| {
            sq.iter().map(move |t| PairCase {
                s: s.clone(),
                t: t.clone(),
            })
        })
        .collect();
    // the class "other" represented by an octet that is not valid UTF-8 on its own (a conversion
    // of the text to a string would not be faithful)
    const ABC_E9: [&[u8]; 3] = [b"\r", b"\n", b"\xe9"];
    let s9 = common::all_strings(&ABC_E9, ctx.tier.pick(4, 5));
    let pairs: Vec<PairCase> = pairs
        .into_iter()
        .chain(s9.iter().flat_map(|s| s9.iter().map(move |t| PairCase { s: s.clone(), t: t.clone() })))
        .collect();
    let strings_p9 = common::all_strings(&ABC_E9, ctx.tier.pick(6, 7));
    ctx.run_space(
        "hasher_public_non_utf8",
        true,
        "the same as hasher_public with the class `other` represented by the octet E9 (not valid UTF-8 on its own): all strings over {CR,LF,E9} of length <= 6 (thorough 7)",
        strings_p9.par_iter().map(|s| TextCase { s: s.clone() }),
        run_hasher_public,
    );
    ctx.run_space(
        "sign_verify_pairs",
        true,
        &format!("all ordered pairs (s,t) of strings over {{CR,LF,x}} of length <= {lq} and over {{CR,LF,E9}} (an octet that is not valid UTF-8) of length <= 4 (thorough 5): DetachedSignature::sign_text_data over s verifies over t - detached, and carried in front of a literal packet holding t (Message::verify) - iff canon(s) = canon(t)"),
        pairs.into_par_iter(),
        run_pair,
    );
    let rstrings = common::all_strings(&ABC, ctx.tier.pick(5, 6));
    let mut rc = Vec::new();
    for s in &rstrings {
        for enc in 0..3u8 {
            for early in [false, true] {
                if enc == 0 && early {
                    continue;
                }
                rc.push(RouteCase { s: s.clone(), enc, early });
            }
        }
    }
    ctx.run_space(
        "builder_routes",
        true,
        "all strings over {CR,LF,x} of length <= 4 (thorough 6) as a binary literal signed with sign_text() through MessageBuilder on the routes {plain, SEIPDv1, SEIPDv2} x {sign_text before, after the transition to the encrypting builder}: the inline signature verifies, is of type Text, and verifies detached over the payload and over its canonical form",
        rc.into_par_iter(),
        run_route,
    );
    let mut salts = Vec::new();
    for pos in 0..16usize {
        for what in 0..4u8 {
            for doc in 0..SALT_DOCS.len() as u8 {
                salts.push(SaltCase { pos, what, doc });
            }
        }
    }
    ctx.run_space(
        "v6_salt_is_binary",
        true,
        "version 6 text and binary signatures made with SignatureConfig::v6_with_salt for every salt that holds LF, CR, CR LF or LF CR at each of its 16 positions x 4 documents (incl. one starting with LF and the empty one): the signature verifies and its digest prefix is that of salt || canonical text || fields || trailer with the salt hashed as it is",
        salts.into_par_iter(),
        run_salt,
    );
    let ws = common::all_strings(&ABC, ctx.tier.pick(4, 5));
    let mut bc = Vec::new();
    for &boundary in &[512usize, 1024, 1536, 8192, 16384] {
        for w in &ws {
            if w.is_empty() {
                continue;
            }
            for back in 0..=w.len() {
                for tail in [0usize, 1, 7] {
                    bc.push(BoundaryCase {
                        w: w.clone(),
                        boundary,
                        back,
                        tail,
                    });
                }
            }
        }
    }
    ctx.run_space(
        "window_edges",
        true,
        "x^a . w . y^t (t in {0,1,7}: the text may end exactly at the edge) with w over {CR,LF,x}, |w| <= 4 (thorough 5), every alignment of w across offsets 512, 1024, 1536, 8192, 16384; hasher cuts at every position in/around w; NormalizedReader with 6 source and 4 consumer patterns, and with one read of the source interrupted (ErrorKind::Interrupted) at each of its first 8 calls; sign_text_data -> verify",
        bc.into_par_iter(),
        run_boundary,
    );
    ctx.assume("the abstraction alphabet {CR, LF, other} is sufficient: the canonicalisers branch only on these byte classes (by reading util.rs / normalize_lines.rs)");
}

pub fn replay(space: &str, case: &Value) -> Option<Outcome> {
    match space {
        "hasher_h2" => replay_as(case, run_hasher_h2),
        "hasher_public" | "hasher_public_non_utf8" => replay_as(case, run_hasher_public),
        "normalized_reader" => replay_as(case, run_reader),
        "normalize_lines" => replay_as(case, run_in_memory),
        "sign_verify_pairs" => replay_as(case, run_pair),
        "builder_routes" => replay_as(case, run_route),
        "v6_salt_is_binary" => replay_as(case, run_salt),
        "window_edges" => replay_as(case, run_boundary),
        _ => None,
    }
}
