//! C15 — version-alignment and criticality rules are enforced on every path.
//!
//! Complete tables; the expected verdict of every cell is an explicit function (`expected_*`)
//! written from RFC 9580 (the "grammar" reference model); equivalent paths must agree.

use std::io::Read;

use pgp::{
    composed::{
        CleartextSignedMessage, DecryptionOptions, Deserializable, Message, PlainSessionKey,
        SignedPublicKey, SignedSecretKey, TheRing,
    },
    crypto::{hash::HashAlgorithm, sym::SymmetricKeyAlgorithm},
    packet::{
        KeyFlags, PacketTrait, PublicKeyEncryptedSessionKey, SignatureConfig, SignatureType,
        Subpacket, SubpacketData,
    },
    ser::Serialize as _,
    types::{KeyDetails, KeyVersion, Password, Tag, Timestamp},
};
use rayon::prelude::*;
use serde::{Deserialize, Serialize};
use serde_json::Value;

use crate::{
    common::{self, msg, sigs, KeyKind},
    engine::{replay_as, Ctx, Outcome, Tier},
    reference::{
        codec,
        crypto as cm,
        frame::frame_min,
        kdf::{self, S2k},
    },
};

// ------------------------------------------------------------------------------------------
// (1) ESK version x container version

#[derive(Clone, Copy, Debug, Hash, PartialEq, Eq, Serialize, Deserialize)]
pub enum EskKind {
    PkeskV3,
    PkeskV6,
    SkeskV4,
    SkeskV6,
    PkeskUnknown,
    SkeskUnknown,
}

#[derive(Clone, Copy, Debug, Hash, PartialEq, Eq, Serialize, Deserialize)]
pub enum Container {
    Sed,
    SeipdV1,
    SeipdV2,
}

#[derive(Clone, Debug, Hash, Serialize, Deserialize)]
pub struct AlignCase {
    pub esks: Vec<EskKind>,
    pub container: Container,
    pub legacy: bool,
    pub gnupg: bool,
    /// 0 the recipient key, 1 the password, 2 session key as V3_4, 3 session key as V6
    pub secret: u8,
    pub abort_early: bool,
}

const SK: [u8; 16] = [0x31, 0x41, 0x59, 0x26, 0x53, 0x58, 0x97, 0x93, 0x23, 0x84, 0x62, 0x64, 0x33, 0x83, 0x27, 0x95];
const MSG_PW: &[u8] = b"alignment password";

fn inner_literal() -> (Vec<u8>, Vec<u8>) {
    let data = b"aligned plaintext".to_vec();
    let mut body = vec![b'b', 0, 0, 0, 0, 0];
    body.extend_from_slice(&data);
    (frame_min(11, &body), data)
}

fn esk_bytes(k: EskKind) -> Vec<u8> {
    let raw: pgp::composed::RawSessionKey = SK.to_vec().into();
    let s2k = S2k::Iterated {
        hash: 8,
        salt: [9, 8, 7, 6, 5, 4, 3, 2],
        count: 0,
    };
    match k {
        EskKind::PkeskV3 => {
            let cert = common::cert(KeyKind::Ed25519V4, 3);
            let p = PublicKeyEncryptedSessionKey::from_session_key_v3(
                crate::engine::rng(1),
                &raw,
                SymmetricKeyAlgorithm::AES128,
                cert.secret_subkeys[0].key.public_key(),
            )
            .expect("pkesk v3");
            let mut v = Vec::new();
            p.to_writer_with_header(&mut v).expect("ser");
            v
        }
        EskKind::PkeskV6 => {
            let cert = common::cert(KeyKind::Ed25519V4, 3);
            let p = PublicKeyEncryptedSessionKey::from_session_key_v6(
                crate::engine::rng(1),
                &raw,
                cert.secret_subkeys[0].key.public_key(),
            )
            .expect("pkesk v6");
            let mut v = Vec::new();
            p.to_writer_with_header(&mut v).expect("ser");
            v
        }
        EskKind::SkeskV4 => frame_min(3, &kdf::skesk_v4(7, &s2k, MSG_PW, Some((7, &SK)))),
        EskKind::SkeskV6 => frame_min(3, &kdf::skesk_v6(7, 2, &s2k, &[0x66; 15], MSG_PW, &SK)),
        EskKind::PkeskUnknown => frame_min(1, &[9, 1, 2, 3, 4, 5, 6, 7, 8, 9, 10]),
        EskKind::SkeskUnknown => frame_min(3, &[9, 7, 3, 8, 1, 2, 3, 4, 5, 6, 7, 8, 0, 1, 2, 3]),
    }
}

fn container_bytes(c: Container) -> Vec<u8> {
    let (inner, _) = inner_literal();
    let prefix: Vec<u8> = (0..16).map(|i| 0xD0 + i as u8).collect();
    match c {
        Container::Sed => frame_min(9, &cm::sed_encrypt(7, &SK, &prefix, &inner)),
        Container::SeipdV1 => {
            let mut b = vec![1u8];
            b.extend_from_slice(&cm::seipdv1_encrypt(7, &SK, &prefix, &inner));
            frame_min(18, &b)
        }
        Container::SeipdV2 => frame_min(18, &cm::seipdv2_body(7, 2, 0, &[0x11; 32], &SK, &inner)),
    }
}

/// RFC 9580 §10.3.2.1 (and §5.7 / the opt-in policy for legacy containers) as a function.
fn expected_align(c: &AlignCase) -> bool {
    let container_allowed = match c.container {
        Container::Sed => c.legacy,
        _ => true,
    };
    if !container_allowed {
        return false;
    }
    let usable = |e: &EskKind| match (e, c.container) {
        (EskKind::PkeskV3 | EskKind::SkeskV4, Container::SeipdV1 | Container::Sed) => true,
        (EskKind::PkeskV6 | EskKind::SkeskV6, Container::SeipdV2) => true,
        _ => false,
    };
    match c.secret {
        0 => c.esks.iter().any(|e| usable(e) && matches!(e, EskKind::PkeskV3 | EskKind::PkeskV6)),
        1 => c.esks.iter().any(|e| usable(e) && matches!(e, EskKind::SkeskV4 | EskKind::SkeskV6)),
        2 => matches!(c.container, Container::SeipdV1 | Container::Sed),
        _ => matches!(c.container, Container::SeipdV2),
    }
}

fn run_align(c: &AlignCase) -> Outcome {
    let mut stream = Vec::new();
    for e in &c.esks {
        stream.extend_from_slice(&esk_bytes(*e));
    }
    stream.extend_from_slice(&container_bytes(c.container));
    let (_, data) = inner_literal();
    let want = expected_align(c);
    let ctx = format!("{c:?}");
    let msg = match Message::from_bytes(&stream[..]) {
        Ok(m) => m,
        Err(e) => {
            return if want {
                Outcome::bad("C15:esk-alignment:legal-message-rejected-at-parse", format!("{ctx}: {e}"))
            } else {
                Outcome::ok("refused@parse")
            }
        }
    };
    let cert = common::cert(KeyKind::Ed25519V4, 3);
    let pw = Password::from(MSG_PW);
    let mut opts = DecryptionOptions::new();
    if c.legacy {
        opts = opts.enable_legacy();
    }
    if c.gnupg {
        opts = opts.enable_gnupg_aead();
    }
    let ring = match c.secret {
        0 => TheRing {
            secret_keys: vec![&cert],
            key_passwords: vec![],
            decrypt_options: opts,
            ..Default::default()
        },
        1 => TheRing {
            message_password: vec![&pw],
            decrypt_options: opts,
            ..Default::default()
        },
        2 => TheRing {
            session_keys: vec![PlainSessionKey::V3_4 {
                sym_alg: SymmetricKeyAlgorithm::AES128,
                key: SK.to_vec().into(),
            }],
            decrypt_options: opts,
            ..Default::default()
        },
        _ => TheRing {
            session_keys: vec![PlainSessionKey::V6 { key: SK.to_vec().into() }],
            decrypt_options: opts,
            ..Default::default()
        },
    };
    let got: Result<Vec<u8>, String> = match msg.decrypt_the_ring(ring, c.abort_early) {
        Ok((mut m, _)) => {
            let mut out = Vec::new();
            m.read_to_end(&mut out).map(|_| out).map_err(|e| format!("read: {e}"))
        }
        Err(e) => Err(format!("decrypt: {e}")),
    };
    match (want, got) {
        (true, Ok(d)) if d == data => Outcome::ok("decrypts"),
        (true, other) => Outcome::bad(
            "C15:esk-alignment:aligned-esk-not-used",
            format!("{ctx}: expected the plaintext, got {:?}", other.map(|d| d.len())),
        ),
        (false, Ok(d)) => {
            let why = if c.container == Container::Sed && !c.legacy {
                "legacy-container-decrypted-without-opt-in"
            } else {
                "misaligned-esk-or-session-key-used"
            };
            Outcome::bad(
                format!("C15:esk-alignment:{why}"),
                format!("{ctx}: decrypted {} octets although RFC 9580 10.3.2.1 says this pairing must not be used", d.len()),
            )
        }
        (false, Err(_)) => Outcome::ok("refused"),
    }
}

fn run_gnupg(c: &(bool, bool)) -> Outcome {
    // LibrePGP test vector: SKESK v5 + OCB packet (tag 20), password "password"
    let (gnupg, legacy) = *c;
    let skesk5 = cm::hexd("c33d05070203089f0b7da3e5ea64779099e326e5400a90936cefb4e8eba08c6773716d1f2714540a38fcac529949dac529d3de31e15b4aeb729e330033dbed");
    let ocb = cm::hexd("d44901070 20e5ed2bc1e470abe8f1d644c7a6c8a567b0f7701196611a154ba9c2574cd056284a8ef68035c623d93cc708a43211bb6eaf2b27f7c18d571bcd83b20add3a08b73af15b9a098");
    let mut stream = skesk5;
    stream.extend_from_slice(&ocb);
    let pw = Password::from("password");
    let mut opts = DecryptionOptions::new();
    if gnupg {
        opts = opts.enable_gnupg_aead();
    }
    if legacy {
        opts = opts.enable_legacy();
    }
    let msg = match Message::from_bytes(&stream[..]) {
        Ok(m) => m,
        Err(e) => return Outcome::bad("C15:gnupg-aead:vector-rejected-at-parse", e.to_string()),
    };
    let ring = TheRing {
        message_password: vec![&pw],
        decrypt_options: opts,
        ..Default::default()
    };
    let got = match msg.decrypt_the_ring(ring, true) {
        Ok((mut m, _)) => {
            let mut out = Vec::new();
            m.read_to_end(&mut out).map(|_| out).map_err(|e| e.to_string())
        }
        Err(e) => Err(e.to_string()),
    };
    let mut o = match (gnupg, got) {
        (true, Ok(d)) if d == b"Hello, world!\n" => Outcome::ok("enabled:decrypts"),
        (true, other) => Outcome::bad("C15:gnupg-aead:enabled-but-not-decrypted", format!("{other:?}")),
        (false, Ok(_)) => Outcome::bad("C15:gnupg-aead:decrypted-without-opt-in", format!("legacy={legacy}")),
        (false, Err(_)) => Outcome::ok("disabled:refused"),
    };
    // the same container with the content key presented directly (as a v5 key, and as a
    // v3/v4-style key naming the cipher): the packet type itself is behind the opt-in, whatever
    // the session key came from; also through the decrypt_legacy entry point
    let content_key: Option<Vec<u8>> = (|| {
        let p = pgp::packet::PacketParser::new(&stream[..]).next()?.ok()?;
        let pgp::packet::Packet::SymKeyEncryptedSessionKey(sk) = p else { return None };
        let k = sk.s2k()?.derive_key(b"password", 16).ok()?;
        match &sk.decrypt(k).ok()? {
            PlainSessionKey::V5 { key } | PlainSessionKey::V3_4 { key, .. } | PlainSessionKey::V6 { key } => Some(key.as_ref().to_vec()),
        }
    })();
    let Some(ck) = content_key else {
        o.push("C15:gnupg-aead:vector-skesk-not-openable", String::new());
        return o;
    };
    let ocb_only = cm::hexd("d44901070 20e5ed2bc1e470abe8f1d644c7a6c8a567b0f7701196611a154ba9c2574cd056284a8ef68035c623d93cc708a43211bb6eaf2b27f7c18d571bcd83b20add3a08b73af15b9a098");
    for (name, sk) in [
        ("v5 session key", PlainSessionKey::V5 { key: ck.clone().into() }),
        ("v3/v4 session key", PlainSessionKey::V3_4 { sym_alg: pgp::crypto::sym::SymmetricKeyAlgorithm::AES128, key: ck.clone().into() }),
    ] {
        let mut opts = DecryptionOptions::new();
        if gnupg {
            opts = opts.enable_gnupg_aead();
        }
        if legacy {
            opts = opts.enable_legacy();
        }
        let Ok(m) = Message::from_bytes(&ocb_only[..]) else { continue };
        let ring = TheRing { session_keys: vec![sk], decrypt_options: opts, ..Default::default() };
        let got = match m.decrypt_the_ring(ring, true) {
            Ok((mut m, _)) => {
                let mut out = Vec::new();
                m.read_to_end(&mut out).map(|_| out).map_err(|e| e.to_string())
            }
            Err(e) => Err(e.to_string()),
        };
        match (gnupg, got) {
            (false, Ok(_)) => o.push("C15:gnupg-aead:decrypted-without-opt-in", format!("{name} presented directly, legacy={legacy}")),
            (true, Ok(d)) if d != b"Hello, world!\n" => o.push("C15:gnupg-aead:enabled-but-not-decrypted", format!("{name}: other plaintext")),
            _ => {}
        }
    }
    o
}

// ------------------------------------------------------------------------------------------
// (2) key version x signature version on every path, (4) criticality, (5) issuer fingerprint version

#[derive(Clone, Copy, Debug, Hash, PartialEq, Eq, Serialize, Deserialize)]
pub enum Path {
    Detached,
    Certification,
    PrefixedMessage,
    OnePassMessage,
    Cleartext,
    CertificatePublic,
    CertificateSecret,
    /// a certification over the user id of ANOTHER key, of the other key version: the
    /// signature version goes with the signer's key version, not the certified key's
    ThirdPartyCertification,
}

pub const PATHS: [Path; 8] = [
    Path::Detached,
    Path::Certification,
    Path::PrefixedMessage,
    Path::OnePassMessage,
    Path::Cleartext,
    Path::CertificatePublic,
    Path::CertificateSecret,
    Path::ThirdPartyCertification,
];

#[derive(Clone, Debug, Hash, Serialize, Deserialize)]
pub struct SigCase {
    pub key: KeyKind,
    /// signature version to forge (4 or 6)
    pub sig_version: u8,
    pub path: Path,
    /// extra hashed subpacket: (type, critical, body)
    pub extra: Option<(u8, bool, Vec<u8>)>,
    /// add an issuer fingerprint subpacket with this version octet (and a fingerprint of the
    /// matching length taken/padded from the key's)
    pub issuer_fp_version: Option<u8>,
}

const TEXT: &str = "clear text\nsecond line";

fn time_subpacket() -> Vec<u8> {
    sigs::raw_subpacket(2, false, &common::NOW.to_be_bytes())
}

/// Build the artefact for `path` around a crafted signature and run the path's verification.
fn verify_on_path(c: &SigCase) -> Result<Result<(), String>, String> {
    let cert = common::cert(c.key, 1);
    let key = &cert.primary_key;
    let pk = key.public_key();
    let hash = if c.key == KeyKind::Ed448V6 { HashAlgorithm::Sha512 } else { HashAlgorithm::Sha256 };
    let salt: Vec<u8> = vec![0x5A; if hash == HashAlgorithm::Sha512 { 32 } else { 16 }];
    let mut hashed = time_subpacket();
    if let Some(v) = c.issuer_fp_version {
        let mut fp = pk.fingerprint().as_bytes().to_vec();
        // version 5 (LibrePGP) fingerprints are 32 octets long, like version 6 ones
        fp.resize(if v == 6 || v == 5 { 32 } else { 20 }, 0xEE);
        let mut b = vec![v];
        b.extend_from_slice(&fp);
        hashed.extend_from_slice(&sigs::raw_subpacket(33, false, &b));
    }
    if let Some((t, crit, body)) = &c.extra {
        hashed.extend_from_slice(&sigs::raw_subpacket(*t, *crit, body));
    }
    let uid = sigs::uid_from_bytes(b"Path <path@example.org>").ok_or("uid")?;
    let uid_body = uid.to_bytes().map_err(|e| e.to_string())?;
    let key_body = pk.to_bytes().map_err(|e| e.to_string())?;
    let frame = sigs::key_frame(&key_body);
    let mut uid_prefix = vec![0xB4];
    uid_prefix.extend_from_slice(&(uid_body.len() as u32).to_be_bytes());
    let doc = b"document bytes";
    let canon_text = crate::reference::canon::csf_signed_form(TEXT.as_bytes());
    // the certified key of the third-party path: the opposite version of the signer's
    let signee = common::cert(if c.key.is_v6() { KeyKind::Ed25519V4 } else { KeyKind::Ed25519V6 }, 2);
    let signee_pk = signee.primary_key.public_key();
    let signee_frame = sigs::key_frame(&signee_pk.to_bytes().map_err(|e| e.to_string())?);
    let (typ, content): (u8, Vec<&[u8]>) = match c.path {
        Path::ThirdPartyCertification => (0x13, vec![&signee_frame[..], &uid_prefix[..], &uid_body[..]]),
        Path::Detached | Path::PrefixedMessage | Path::OnePassMessage => (0x00, vec![&doc[..]]),
        Path::Cleartext => (0x01, vec![&canon_text[..]]),
        Path::Certification | Path::CertificatePublic | Path::CertificateSecret => (0x13, vec![&frame[..], &uid_prefix[..], &uid_body[..]]),
    };
    let mut hashed_full = hashed.clone();
    if matches!(c.path, Path::CertificatePublic | Path::CertificateSecret) {
        // a self-certification needs key flags to be useful; keep it minimal
        hashed_full.extend_from_slice(&sigs::raw_subpacket(27, false, &[0x03]));
    }
    let body = sigs::craft_signature(key, c.sig_version, typ, hash, &hashed_full, &[], &salt, &content)?;
    let sig_pkt = frame_min(2, &body);
    Ok(match c.path {
        Path::Detached => sigs::sig_from_body(&body).and_then(|s| s.verify(pk, &doc[..]).map_err(|e| e.to_string())),
        Path::Certification => sigs::sig_from_body(&body).and_then(|s| s.verify_certification(pk, Tag::UserId, &uid).map_err(|e| e.to_string())),
        Path::ThirdPartyCertification => sigs::sig_from_body(&body).and_then(|s| s.verify_third_party_certification(signee_pk, pk, Tag::UserId, &uid).map_err(|e| e.to_string())),
        Path::PrefixedMessage | Path::OnePassMessage => {
            let mut lit = vec![b'b', 0, 0, 0, 0, 0];
            lit.extend_from_slice(doc);
            let mut stream = Vec::new();
            if c.path == Path::OnePassMessage {
                // one-pass header matching the signature
                let mut ops = if c.sig_version == 6 {
                    let mut o = vec![6u8, typ, u8::from(hash), u8::from(pk.algorithm()), salt.len() as u8];
                    o.extend_from_slice(&salt);
                    let mut fp = pk.fingerprint().as_bytes().to_vec();
                    fp.resize(32, 0xEE);
                    o.extend_from_slice(&fp);
                    o
                } else {
                    let mut o = vec![3u8, typ, u8::from(hash), u8::from(pk.algorithm())];
                    o.extend_from_slice(pk.legacy_key_id().as_ref());
                    o
                };
                ops.push(1);
                stream.extend_from_slice(&frame_min(4, &ops));
                stream.extend_from_slice(&frame_min(11, &lit));
                stream.extend_from_slice(&sig_pkt);
            } else {
                stream.extend_from_slice(&sig_pkt);
                stream.extend_from_slice(&frame_min(11, &lit));
            }
            (|| -> Result<(), String> {
                let mut m = Message::from_bytes(&stream[..]).map_err(|e| e.to_string())?;
                let mut out = Vec::new();
                m.read_to_end(&mut out).map_err(|e| e.to_string())?;
                m.verify(pk).map(|_| ()).map_err(|e| e.to_string())
            })()
        }
        Path::Cleartext => {
            let mut doc = String::new();
            doc.push_str("-----BEGIN PGP SIGNED MESSAGE-----\n");
            if c.sig_version != 6 {
                doc.push_str(&format!("Hash: {}\n", if hash == HashAlgorithm::Sha512 { "SHA512" } else { "SHA256" }));
            }
            doc.push('\n');
            doc.push_str(TEXT);
            doc.push('\n');
            let armored = crate::reference::armor::armor("PGP SIGNATURE", &[], &sig_pkt, false, b"\n");
            doc.push_str(&String::from_utf8_lossy(&armored));
            (|| -> Result<(), String> {
                let (m, _) = CleartextSignedMessage::from_string(&doc).map_err(|e| e.to_string())?;
                m.verify(pk).map(|_| ()).map_err(|e| e.to_string())
            })()
        }
        Path::CertificatePublic | Path::CertificateSecret => {
            let mut stream = Vec::new();
            if c.path == Path::CertificatePublic {
                pk.to_writer_with_header(&mut stream).map_err(|e| e.to_string())?;
            } else {
                key.to_writer_with_header(&mut stream).map_err(|e| e.to_string())?;
            }
            uid.to_writer_with_header(&mut stream).map_err(|e| e.to_string())?;
            stream.extend_from_slice(&sig_pkt);
            if c.path == Path::CertificatePublic {
                (|| -> Result<(), String> {
                    let k = SignedPublicKey::from_bytes(&stream[..]).map_err(|e| e.to_string())?;
                    if k.details.users.is_empty() || k.details.users[0].signatures.is_empty() {
                        return Err("self-signature dropped at import".into());
                    }
                    k.verify_bindings().map_err(|e| e.to_string())
                })()
            } else {
                (|| -> Result<(), String> {
                    let k = SignedSecretKey::from_bytes(&stream[..]).map_err(|e| e.to_string())?;
                    if k.details.users.is_empty() || k.details.users[0].signatures.is_empty() {
                        return Err("self-signature dropped at import".into());
                    }
                    k.verify_bindings().map_err(|e| e.to_string())
                })()
            }
        }
    })
}

/// subpacket types RFC 9580 (and its registry) does not assign: an implementation cannot
/// understand them, so the critical bit must make the signature invalid
fn unassigned(t: u8) -> bool {
    matches!(t, 0 | 1 | 8 | 13 | 14 | 15 | 17 | 18 | 19 | 36 | 40..=99 | 111..=127)
}

fn sample_body(t: u8) -> Vec<u8> {
    match t {
        2 | 3 | 9 => vec![0, 0, 1, 0],
        4 | 7 | 25 => vec![1],
        5 => vec![1, 60],
        6 | 24 | 26 | 28 => b"x".to_vec(),
        11 | 21 | 22 | 23 | 27 | 30 => vec![1],
        12 => {
            let mut v = vec![0x80, 22];
            v.extend_from_slice(&[7u8; 20]);
            v
        }
        16 => vec![1, 2, 3, 4, 5, 6, 7, 8],
        20 => {
            let mut v = vec![0x80, 0, 0, 0, 0, 1, 0, 1];
            v.extend_from_slice(b"nv");
            v
        }
        29 => vec![0, b'r'],
        31 => {
            let mut v = vec![22, 8];
            v.extend_from_slice(&[0u8; 32]);
            v
        }
        34 => vec![2],
        35 => {
            let mut v = vec![4];
            v.extend_from_slice(&[9u8; 20]);
            v
        }
        39 => vec![9, 2],
        _ => b"x".to_vec(),
    }
}

fn run_sig(c: &SigCase) -> Outcome {
    let key_v6 = c.key.is_v6();
    let aligned = (c.sig_version == 6) == key_v6;
    let fp_ok = c.issuer_fp_version.map(|v| v == c.sig_version).unwrap_or(true);
    let res = match verify_on_path(c) {
        Ok(r) => r,
        Err(e) => return Outcome::bad("C15:craft-error", format!("{c:?}: {e}")),
    };
    let ctx = format!("{c:?}");
    // expectation
    let must_reject = !aligned
        || !fp_ok
        || c.extra.as_ref().map(|(t, crit, _)| *crit && unassigned(*t)).unwrap_or(false);
    let must_accept = aligned
        && fp_ok
        && c.extra.as_ref().map(|(t, crit, _)| !*crit && (unassigned(*t) || (100..=110).contains(t))).unwrap_or(true)
        && (c.extra.is_none() || c.extra.as_ref().map(|(_, crit, _)| !*crit).unwrap_or(true));
    let path = format!("{:?}", c.path);
    match (res, must_reject, must_accept) {
        (Ok(()), true, _) => {
            let why = if !aligned {
                format!("v{}-signature-by-v{}-key-accepted", c.sig_version, if key_v6 { 6 } else { 4 })
            } else if !fp_ok {
                "issuer-fingerprint-version-mismatch-accepted".to_string()
            } else {
                "unknown-critical-subpacket-accepted".to_string()
            };
            Outcome::bad(format!("C15:{path}:{why}"), ctx)
        }
        (Err(e), _, true) => {
            let why = if c.extra.is_some() { "non-critical-unknown-subpacket-rejected" } else { "aligned-control-signature-rejected" };
            Outcome::bad(format!("C15:{path}:{why}"), format!("{ctx}: {e}"))
        }
        (Ok(()), false, _) => Outcome::ok("accepted"),
        (Err(_), _, false) => Outcome::ok("rejected"),
    }
}

// ------------------------------------------------------------------------------------------
// (3) one-pass header vs trailing signature

#[derive(Clone, Debug, Hash, Serialize, Deserialize)]
pub struct OpsCase {
    pub v6: bool,
    /// which one-pass packet (0 = first in the stream)
    pub which: usize,
    /// 0 type, 1 hash, 2 pk alg, 3 salt (v6) / key id (v3), 4 issuer (fingerprint v6), 5 version
    pub field: u8,
}

fn run_ops(c: &OpsCase) -> Outcome {
    let kinds = if c.v6 { [KeyKind::Ed25519V6, KeyKind::EcdsaP256V6] } else { [KeyKind::Ed25519V4, KeyKind::EcdsaP256V4] };
    let cfg = msg::MsgCfg {
        signers: kinds.iter().map(|k| (*k, 0u8)).collect(),
        ..Default::default()
    };
    let payload = b"ops payload".to_vec();
    let bytes = match msg::build_vec(&cfg, &payload, 3) {
        Ok(b) => b,
        Err(e) => return Outcome::bad("C15:ops:build-error", e.to_string()),
    };
    let ps = codec::split_packets(&bytes).expect("split");
    let mut out = Vec::new();
    let mut ops_seen = 0usize;
    let mut hashing_relevant = false;
    for (tag, hdr, body) in &ps {
        let mut body = body.clone();
        if *tag == 4 {
            if ops_seen == c.which {
                let d = codec::decode_packet(4, &body).expect("ops");
                use codec::Kind;
                let pick = |k: Kind| d.fields.iter().find(|f| f.kind == k).map(|f| (f.start, f.end));
                match c.field {
                    0 => {
                        let (s, _) = pick(Kind::SigType).unwrap();
                        body[s] ^= 0x01;
                        hashing_relevant = true;
                    }
                    1 => {
                        let (s, _) = pick(Kind::HashAlg).unwrap();
                        body[s] = if body[s] == 8 { 10 } else { 8 };
                        hashing_relevant = true;
                    }
                    2 => {
                        let (s, _) = pick(Kind::PkAlg).unwrap();
                        body[s] = if body[s] == 1 { 19 } else { 1 };
                        hashing_relevant = true;
                    }
                    3 => {
                        if let Some((s, _)) = pick(Kind::Salt) {
                            body[s] ^= 0x80;
                            hashing_relevant = true;
                        } else if let Some((s, _)) = pick(Kind::KeyId) {
                            body[s] ^= 0x80;
                        }
                    }
                    4 => {
                        if let Some((s, _)) = pick(Kind::Fingerprint).or(pick(Kind::KeyId)) {
                            body[s + 1] ^= 0x01;
                        }
                    }
                    _ => {
                        // a one-pass packet of the other version cannot be derived by one octet;
                        // use an unknown version instead
                        body[0] = 9;
                        hashing_relevant = true;
                    }
                }
            }
            ops_seen += 1;
        }
        // re-frame (lengths unchanged)
        out.extend_from_slice(hdr);
        out.extend_from_slice(&body);
    }
    let certs: Vec<_> = kinds.iter().map(|k| common::cert(*k, 1)).collect();
    // one-pass packet i brackets signature n-1-i; the builder emits OPS in signer order
    let affected_signer = c.which;
    let res = (|| -> Result<Vec<bool>, String> {
        let mut m = Message::from_bytes(&out[..]).map_err(|e| format!("parse: {e}"))?;
        let mut d = Vec::new();
        m.read_to_end(&mut d).map_err(|e| format!("read: {e}"))?;
        Ok(certs
            .iter()
            .map(|cert| (0..2).any(|i| m.verify_nested_explicit(i, cert.primary_key.public_key()).is_ok()))
            .collect())
    })();
    let ctx = format!("{c:?}");
    match res {
        Err(e) => {
            if hashing_relevant {
                Outcome::ok("whole-message-rejected")
            } else {
                Outcome::bad("C15:ops:advisory-field-change-breaks-message", format!("{ctx}: {e}"))
            }
        }
        Ok(valid) => {
            let mut o = Outcome::ok(if hashing_relevant { "slot-invalidated" } else { "advisory-field:unaffected" });
            for (i, v) in valid.iter().enumerate() {
                if i == affected_signer {
                    if hashing_relevant && *v {
                        o.push("C15:ops:disagreeing-one-pass-header-still-verifies", ctx.clone());
                    }
                    if !hashing_relevant && !*v {
                        o.class = "advisory-field:invalidated".into();
                    }
                } else if !*v {
                    o.push("C15:ops:other-signature-slot-affected", format!("{ctx}: signer {i} no longer verifies"));
                }
            }
            o
        }
    }
}

// ------------------------------------------------------------------------------------------
// (5) certificate structure: equivalent import paths agree

#[derive(Clone, Debug, Hash, Serialize, Deserialize)]
pub struct StructCase {
    /// 0: v6 primary + v4 subkey; 1: v4 primary + v6 subkey; 2: signing subkey without back
    /// signature; 3: signing subkey with a back signature made by another key; 4: control (legal)
    pub shape: u8,
    pub v6: bool,
    /// subkey carried as: 0 public-subkey packet in a public cert, 1 secret-subkey in a secret
    /// cert, 2 public-subkey packet in a secret cert
    pub carrier: u8,
    /// 0: the one binding signature of the shape; 1: that binding followed by a legal one (the
    /// offending signature is not the last); 2: a legal one followed by that binding
    #[serde(default)]
    pub second: u8,
}

fn run_struct(c: &StructCase) -> Outcome {
    let pkind = if c.v6 { KeyKind::Ed25519V6 } else { KeyKind::Ed25519V4 };
    let other_kind = if c.v6 { KeyKind::Ed25519V4 } else { KeyKind::Ed25519V6 };
    let cert = common::cert(pkind, 1);
    let primary = &cert.primary_key;
    let pw = Password::empty();
    // the subkey: for version mixes a subkey of the other version; for signing-subkey shapes the
    // primary of another certificate of the same version used as a signing subkey
    let donor = match c.shape {
        0 | 1 => common::cert(other_kind, 5),
        _ => common::cert(pkind, 5),
    };
    // shape 0 means "v6 primary with v4 subkey": only meaningful when c.v6; shape 1 the reverse
    if (c.shape == 0 && !c.v6) || (c.shape == 1 && c.v6) {
        return Outcome::trivial("n/a");
    }
    let signing_sub = matches!(c.shape, 2 | 3 | 4);
    // subkey material as Subkey packets: convert the donor's primary (signing) or subkey (encryption)
    let (sub_pub, sub_sec): (pgp::packet::PublicSubkey, pgp::packet::SecretSubkey) = if signing_sub {
        // re-tag the donor primary as a subkey by parsing its body under the subkey tags
        let pub_body = donor.primary_key.public_key().to_bytes().expect("ser");
        let sec_body = donor.primary_key.to_bytes().expect("ser");
        let p = match pgp::packet::PacketParser::new(&frame_min(14, &pub_body)[..]).next() {
            Some(Ok(pgp::packet::Packet::PublicSubkey(k))) => k,
            _ => return Outcome::bad("C15:struct:retag-failed", String::new()),
        };
        let s = match pgp::packet::PacketParser::new(&frame_min(7, &sec_body)[..]).next() {
            Some(Ok(pgp::packet::Packet::SecretSubkey(k))) => k,
            _ => return Outcome::bad("C15:struct:retag-failed", String::new()),
        };
        (p, s)
    } else {
        (donor.secret_subkeys[0].key.public_key().clone(), donor.secret_subkeys[0].key.clone())
    };
    // binding signature by the primary over the subkey
    let mk_cfg = |typ: SignatureType, key: &dyn KeyDetailsDyn, seed: u64| -> pgp::errors::Result<SignatureConfig> {
        let mut cfg = if key.ver() == KeyVersion::V6 {
            SignatureConfig::v6(crate::engine::rng(seed), typ, key.alg(), HashAlgorithm::Sha256)?
        } else {
            SignatureConfig::v4(typ, key.alg(), HashAlgorithm::Sha256)
        };
        cfg.hashed_subpackets = vec![
            Subpacket::regular(SubpacketData::SignatureCreationTime(Timestamp::from_secs(common::NOW)))?,
            Subpacket::regular(SubpacketData::IssuerFingerprint(key.fp()))?,
        ];
        Ok(cfg)
    };
    let make_binding = |shape: u8| -> pgp::errors::Result<pgp::packet::Signature> {
        let mut cfg = mk_cfg(SignatureType::SubkeyBinding, primary, 1 + shape as u64)?;
        let mut flags = KeyFlags::default();
        if signing_sub {
            flags.set_sign(true);
        } else {
            flags.set_encrypt_comms(true);
        }
        cfg.hashed_subpackets.push(Subpacket::regular(SubpacketData::KeyFlags(flags))?);
        match shape {
            3 | 4 => {
                // embedded back signature: by the subkey itself (4) or by an unrelated key (3)
                let back_signer: &pgp::packet::SecretKey = if shape == 4 { &donor.primary_key } else { &common::cert(pkind, 6).primary_key.clone() };
                let bcfg = mk_cfg(SignatureType::KeyBinding, back_signer, 2)?;
                let back = bcfg.sign_primary_key_binding(back_signer, back_signer.public_key(), &pw, primary.public_key())?;
                cfg.hashed_subpackets.push(Subpacket::regular(SubpacketData::EmbeddedSignature(Box::new(back)))?);
            }
            _ => {}
        }
        cfg.sign_subkey_binding(primary, primary.public_key(), &pw, &sub_pub)
    };
    let binding = make_binding(c.shape);
    let binding = match binding {
        Ok(b) => b,
        Err(e) => {
            // the library refuses to create the illegal binding: fine for illegal shapes
            return if c.shape == 4 {
                Outcome::bad("C15:struct:control-binding-refused", e.to_string())
            } else {
                Outcome::ok("refused@sign")
            };
        }
    };
    // assemble
    let public = cert.to_public_key();
    let mut stream = Vec::new();
    let w = |r: pgp::errors::Result<()>| r.expect("serialise");
    if c.carrier == 0 {
        w(public.primary_key.to_writer_with_header(&mut stream));
    } else {
        w(primary.to_writer_with_header(&mut stream));
    }
    w(cert.details.to_writer(&mut stream));
    if c.carrier == 1 {
        w(sub_sec.to_writer_with_header(&mut stream));
    } else {
        w(sub_pub.to_writer_with_header(&mut stream));
    }
    // a second binding signature over the same subkey (only for the signing-subkey shapes, where
    // a legal one exists)
    let legal_binding = if c.second != 0 && matches!(c.shape, 2 | 3) { make_binding(4).ok() } else { None };
    match (&legal_binding, c.second) {
        (Some(l), 2) => {
            w(l.to_writer_with_header(&mut stream));
            w(binding.to_writer_with_header(&mut stream));
        }
        (Some(l), _) => {
            w(binding.to_writer_with_header(&mut stream));
            w(l.to_writer_with_header(&mut stream));
        }
        (None, 0) => w(binding.to_writer_with_header(&mut stream)),
        (None, _) => return Outcome::trivial("n/a"),
    }
    let legal = c.shape == 4;
    // judge through every applicable path
    let mut verdicts: Vec<(&str, Result<(), String>)> = Vec::new();
    let judge_pub = |bytes: &[u8]| -> Result<(), String> {
        let k = SignedPublicKey::from_bytes(bytes).map_err(|e| format!("import: {e}"))?;
        if k.public_subkeys.is_empty() {
            return Err("subkey dropped at import".into());
        }
        k.verify_bindings().map_err(|e| format!("verify_bindings: {e}"))
    };
    let judge_sec = |bytes: &[u8]| -> Result<(SignedSecretKey, ()), String> {
        let k = SignedSecretKey::from_bytes(bytes).map_err(|e| format!("import: {e}"))?;
        if k.public_subkeys.is_empty() && k.secret_subkeys.is_empty() {
            return Err("subkey dropped at import".into());
        }
        k.verify_bindings().map_err(|e| format!("verify_bindings: {e}"))?;
        Ok((k, ()))
    };
    if c.carrier == 0 {
        verdicts.push(("public:from_bytes", judge_pub(&stream)));
        let armored = crate::reference::armor::armor("PGP PUBLIC KEY BLOCK", &[], &stream, true, b"\n");
        verdicts.push((
            "public:from_armor",
            SignedPublicKey::from_armor_single(&armored[..])
                .map_err(|e| format!("import: {e}"))
                .and_then(|(k, _)| {
                    if k.public_subkeys.is_empty() {
                        return Err("subkey dropped at import".into());
                    }
                    k.verify_bindings().map_err(|e| format!("verify_bindings: {e}"))
                }),
        ));
    } else {
        let r = judge_sec(&stream);
        let derived = r.as_ref().ok().map(|(k, _)| k.to_public_key());
        verdicts.push(("secret:from_bytes", r.map(|_| ())));
        if let Some(p) = derived {
            verdicts.push((
                "secret:to_public_key",
                (|| -> Result<(), String> {
                    if p.public_subkeys.is_empty() {
                        return Err("subkey dropped".into());
                    }
                    p.verify_bindings().map_err(|e| e.to_string())?;
                    let b = p.to_bytes().map_err(|e| e.to_string())?;
                    judge_pub(&b)
                })(),
            ));
        }
    }
    let ctx = format!("{c:?}");
    if c.shape == 1 {
        // a v4 primary carrying a v6 subkey: the property speaks of v6 primaries only; what is
        // demanded here is that the equivalent import paths agree
        let oks: Vec<bool> = verdicts.iter().map(|(_, v)| v.is_ok()).collect();
        return if oks.iter().all(|b| *b == oks[0]) {
            Outcome::ok(if oks.first() == Some(&true) { "v4-primary-v6-subkey:accepted-consistently" } else { "v4-primary-v6-subkey:rejected-consistently" })
        } else {
            Outcome::bad("C15:struct:import-paths-disagree", format!("{ctx}: {:?}", verdicts.iter().map(|(p, v)| (*p, v.is_ok())).collect::<Vec<_>>()))
        };
    }
    let mut o = Outcome::ok(if legal { "legal:accepted-on-all-paths" } else { "illegal:rejected-on-all-paths" });
    for (path, v) in &verdicts {
        match (legal, v) {
            (true, Err(e)) => o.push(format!("C15:struct:legal-certificate-rejected:{path}"), format!("{ctx}: {e}")),
            (false, Ok(())) => {
                let what = match c.shape {
                    0 | 1 => "mixed-version-subkey-accepted",
                    2 => "signing-subkey-without-back-signature-accepted",
                    _ => "signing-subkey-with-foreign-back-signature-accepted",
                };
                o.push(format!("C15:struct:{what}:{path}"), ctx.clone());
            }
            _ => {}
        }
    }
    o
}

/// tiny object-safe view of a key for the closure above
trait KeyDetailsDyn {
    fn ver(&self) -> KeyVersion;
    fn alg(&self) -> pgp::crypto::public_key::PublicKeyAlgorithm;
    fn fp(&self) -> pgp::types::Fingerprint;
}
impl<T: KeyDetails> KeyDetailsDyn for T {
    fn ver(&self) -> KeyVersion {
        self.version()
    }
    fn alg(&self) -> pgp::crypto::public_key::PublicKeyAlgorithm {
        self.algorithm()
    }
    fn fp(&self) -> pgp::types::Fingerprint {
        self.fingerprint()
    }
}

pub fn check(ctx: &Ctx) {
    // the former thorough bounds take seconds: they are the quick tier now; `deep` = thorough
    let quick = false;
    #[allow(unused_variables)]
    let deep = ctx.tier == Tier::Thorough;
    for k in [KeyKind::Ed25519V4, KeyKind::Ed25519V6, KeyKind::EcdsaP256V4, KeyKind::EcdsaP256V6] {
        for s in [1u64, 3, 5, 6] {
            common::cert(k, s);
        }
    }
    // (1)
    let esk_kinds = [EskKind::PkeskV3, EskKind::PkeskV6, EskKind::SkeskV4, EskKind::SkeskV6, EskKind::PkeskUnknown, EskKind::SkeskUnknown];
    let mut seqs: Vec<Vec<EskKind>> = vec![vec![]];
    let mut frontier: Vec<Vec<EskKind>> = vec![vec![]];
    for _ in 0..if ctx.tier == Tier::Thorough { 5 } else { 3 } {
        let mut next = Vec::new();
        for s in &frontier {
            for a in esk_kinds {
                let mut s2 = s.clone();
                s2.push(a);
                next.push(s2);
            }
        }
        seqs.extend(next.iter().cloned());
        frontier = next;
    }
    let mut ac = Vec::new();
    for esks in &seqs {
        for container in [Container::Sed, Container::SeipdV1, Container::SeipdV2] {
            for (legacy, gnupg) in [(false, false), (true, false), (false, true), (true, true)] {
                for secret in 0..4u8 {
                    for abort_early in [true, false] {
                        ac.push(AlignCase {
                            esks: esks.clone(),
                            container,
                            legacy,
                            gnupg,
                            secret,
                            abort_early,
                        });
                    }
                }
            }
        }
    }
    ctx.run_space(
        "esk_container_alignment",
        true,
        "all sequences of 0..3 (thorough 0..5) ESKs from {PKESK v3, PKESK v6, SKESK v4, SKESK v6, PKESK/SKESK of unknown version}, every one cryptographically valid for the container's real session key (SKESKs and containers built by the reference model), in front of {SED, SEIPDv1, SEIPDv2} x options {default, legacy, gnupg_aead, both} x presented secret {recipient key, password, session key as V3_4, as V6} x abort_early on/off; expected verdict = RFC 9580 10.3.2.1 table + opt-in policy as an explicit function: a misaligned ESK (or session-key kind) is never used, SED only with enable_legacy",
        ac.into_par_iter(),
        run_align,
    );
    ctx.run_space(
        "gnupg_aead_opt_in",
        true,
        "LibrePGP SKESK v5 + OCB packet test vector x options {default, legacy, gnupg_aead, both}: decrypts only with enable_gnupg_aead - by password, and with the content key presented directly as a v5 / v3-v4 session key",
        vec![(false, false), (false, true), (true, false), (true, true)].into_par_iter(),
        run_gnupg,
    );

    // (2), (4), (5)
    let mut sc = Vec::new();
    for key in [KeyKind::Ed25519V4, KeyKind::Ed25519V6, KeyKind::EcdsaP256V4, KeyKind::EcdsaP256V6] {
        for sig_version in [4u8, 6] {
            for path in PATHS {
                sc.push(SigCase { key, sig_version, path, extra: None, issuer_fp_version: None });
                for v in [4u8, 6, 5, 3] {
                    sc.push(SigCase { key, sig_version, path, extra: None, issuer_fp_version: Some(v) });
                }
            }
        }
    }
    for key in [KeyKind::Ed25519V4, KeyKind::Ed25519V6] {
        let sig_version = if key.is_v6() { 6 } else { 4 };
        for t in 0..128u8 {
            if t == 32 || t == 33 || t == 2 {
                continue; // embedded signature / issuer fingerprint / creation time: separate cells
            }
            for critical in [false, true] {
                for path in PATHS {
                    if quick && !matches!(path, Path::Detached | Path::OnePassMessage | Path::CertificatePublic | Path::Cleartext) && t % 8 != 0 {
                        continue;
                    }
                    sc.push(SigCase {
                        key,
                        sig_version,
                        path,
                        extra: Some((t, critical, sample_body(t))),
                        issuer_fp_version: None,
                    });
                }
            }
        }
    }
    ctx.run_space(
        "signature_rules_on_every_path",
        true,
        "signatures assembled by the reference (digest per RFC 9580 5.2.4, signed with the key's raw signer) and pushed through 8 paths {Signature::verify, verify_certification, third-party certification over a key of the other version, prefixed message, one-pass message, cleartext, public certificate import + verify_bindings, secret certificate import + verify_bindings}: (a) signature version 4/6 x key version 4/6 x 4 keys: misaligned => rejected, aligned control => accepted; (b) issuer-fingerprint subpacket version 4/6 vs signature version; (c) hashed subpacket type 0..127 x critical bit: RFC-unassigned + critical => rejected, any type non-critical (unassigned or private) => accepted; registered types with the critical bit: either verdict",
        sc.into_par_iter(),
        run_sig,
    );

    // (3)
    let mut oc = Vec::new();
    for v6 in [false, true] {
        for which in 0..2usize {
            for field in 0..6u8 {
                oc.push(OpsCase { v6, which, field });
            }
        }
    }
    ctx.run_space(
        "one_pass_header_vs_signature",
        true,
        "two-signer one-pass messages (v4 pair, v6 pair): each field of each one-pass packet changed in turn {type, hash, public-key algorithm, salt / key id, issuer, version}: fields that determine hashing or pairing invalidate exactly the bracketed signature, the other signer still verifies; advisory issuer fields do not break anything",
        oc.into_par_iter(),
        run_ops,
    );

    // (5)
    let mut stc = Vec::new();
    for shape in 0..5u8 {
        for v6 in [false, true] {
            for carrier in 0..3u8 {
                for second in 0..3u8 {
                    stc.push(StructCase { shape, v6, carrier, second });
                }
            }
        }
    }
    ctx.run_space(
        "certificate_structure_paths_agree",
        true,
        "certificates assembled from real packets: v6 primary + v4 subkey, v4 primary + v6 subkey, signing subkey without embedded back signature, with a back signature by an unrelated key (each also next to a legal binding signature over the same subkey, before and after it), and the legal control; subkey carried as public-subkey in a public certificate / secret-subkey in a secret certificate / public-subkey inside a secret certificate; judged by SignedPublicKey::from_bytes, from_armor, SignedSecretKey::from_bytes, and to_public_key() re-import: illegal shapes rejected on every path, the control accepted on every path",
        stc.into_par_iter(),
        run_struct,
    );
    ctx.assume("registered subpacket types with the critical bit may be accepted or rejected (an implementation need not implement all of them); private/experimental types 100..110 likewise");
}

pub fn replay(space: &str, case: &Value) -> Option<Outcome> {
    match space {
        "esk_container_alignment" => replay_as(case, run_align),
        "gnupg_aead_opt_in" => replay_as(case, run_gnupg),
        "signature_rules_on_every_path" => replay_as(case, run_sig),
        "one_pass_header_vs_signature" => replay_as(case, run_ops),
        "certificate_structure_paths_agree" => replay_as(case, run_struct),
        _ => None,
    }
}
