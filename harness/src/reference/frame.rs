//! OpenPGP packet framing (RFC 9580 §4.2), independent encoder and deframer.

#[derive(Clone, Copy, Debug, PartialEq, Eq, Hash, serde::Serialize, serde::Deserialize)]
pub enum LenForm {
    New1,
    New2,
    New5,
    Old1,
    Old2,
    Old4,
    OldIndeterminate,
}

pub const DATA_TAGS: [u8; 5] = [8, 9, 11, 18, 20];

pub fn new_len(n: usize, form: LenForm) -> Option<Vec<u8>> {
    match form {
        LenForm::New1 if n < 192 => Some(vec![n as u8]),
        LenForm::New2 if (192..8384).contains(&n) => {
            let m = n - 192;
            Some(vec![(m >> 8) as u8 + 192, m as u8])
        }
        LenForm::New5 if n <= u32::MAX as usize => {
            let mut v = vec![0xFF];
            v.extend_from_slice(&(n as u32).to_be_bytes());
            Some(v)
        }
        _ => None,
    }
}

/// Frame `body` with a fixed (or indeterminate) length in the given form.
pub fn frame(tag: u8, body: &[u8], form: LenForm) -> Option<Vec<u8>> {
    let n = body.len();
    let mut out = Vec::with_capacity(n + 6);
    match form {
        LenForm::New1 | LenForm::New2 | LenForm::New5 => {
            if tag > 63 {
                return None;
            }
            out.push(0xC0 | tag);
            out.extend_from_slice(&new_len(n, form)?);
        }
        LenForm::Old1 | LenForm::Old2 | LenForm::Old4 | LenForm::OldIndeterminate => {
            if tag > 15 {
                return None;
            }
            let lt = match form {
                LenForm::Old1 => 0,
                LenForm::Old2 => 1,
                LenForm::Old4 => 2,
                _ => 3,
            };
            out.push(0x80 | (tag << 2) | lt);
            match form {
                LenForm::Old1 if n < 256 => out.push(n as u8),
                LenForm::Old2 if n < 65536 => out.extend_from_slice(&(n as u16).to_be_bytes()),
                LenForm::Old4 => out.extend_from_slice(&(n as u32).to_be_bytes()),
                LenForm::OldIndeterminate => {}
                _ => return None,
            }
        }
    }
    out.extend_from_slice(body);
    Some(out)
}

/// The minimal new-format framing.
pub fn frame_min(tag: u8, body: &[u8]) -> Vec<u8> {
    let form = if body.len() < 192 {
        LenForm::New1
    } else if body.len() < 8384 {
        LenForm::New2
    } else {
        LenForm::New5
    };
    frame(tag, body, form).expect("frame")
}

/// Partial-body framing: chunk exponents (2^e octets each), the rest as a final fixed chunk in
/// `final_form`.  Returns None if the body is too short for the chunks or the form cannot
/// express the final length.
pub fn frame_partial(tag: u8, body: &[u8], exps: &[u8], final_form: LenForm) -> Option<Vec<u8>> {
    let mut out = vec![0xC0 | tag];
    let mut pos = 0usize;
    for &e in exps {
        let sz = 1usize << e;
        if pos + sz > body.len() {
            return None;
        }
        out.push(224 + e);
        out.extend_from_slice(&body[pos..pos + sz]);
        pos += sz;
    }
    out.extend_from_slice(&new_len(body.len() - pos, final_form)?);
    out.extend_from_slice(&body[pos..]);
    Some(out)
}

#[derive(Clone, Debug, PartialEq, Eq)]
pub struct Framed {
    pub tag: u8,
    pub new_format: bool,
    pub body: Vec<u8>,
    /// sizes of the partial chunks (empty for fixed framing)
    pub partial: Vec<usize>,
    pub final_len: Option<usize>,
}

#[derive(Clone, Debug, PartialEq, Eq)]
pub enum FrameError {
    BadTagOctet(usize),
    Truncated(usize),
    PartialOnNonDataTag { tag: u8, at: usize },
    FirstPartialTooShort { len: usize, at: usize },
}

/// Strict deframer: rejects what RFC 9580 §4.2.1.4 forbids.
pub fn deframe(s: &[u8]) -> Result<Vec<Framed>, FrameError> {
    let mut out = Vec::new();
    let mut i = 0usize;
    while i < s.len() {
        let start = i;
        let h = s[i];
        i += 1;
        if h & 0x80 == 0 {
            return Err(FrameError::BadTagOctet(start));
        }
        if h & 0x40 != 0 {
            let tag = h & 0x3F;
            let mut body = Vec::new();
            let mut partial = Vec::new();
            loop {
                let l0 = *s.get(i).ok_or(FrameError::Truncated(i))? as usize;
                i += 1;
                let (len, is_partial) = if l0 < 192 {
                    (l0, false)
                } else if l0 < 224 {
                    let l1 = *s.get(i).ok_or(FrameError::Truncated(i))? as usize;
                    i += 1;
                    (((l0 - 192) << 8) + l1 + 192, false)
                } else if l0 < 255 {
                    (1usize << (l0 & 0x1F), true)
                } else {
                    let b = s.get(i..i + 4).ok_or(FrameError::Truncated(i))?;
                    i += 4;
                    (u32::from_be_bytes(b.try_into().unwrap()) as usize, false)
                };
                if is_partial {
                    if !DATA_TAGS.contains(&tag) {
                        return Err(FrameError::PartialOnNonDataTag { tag, at: start });
                    }
                    if partial.is_empty() && len < 512 {
                        return Err(FrameError::FirstPartialTooShort { len, at: start });
                    }
                }
                let chunk = s.get(i..i + len).ok_or(FrameError::Truncated(i))?;
                body.extend_from_slice(chunk);
                i += len;
                if is_partial {
                    partial.push(len);
                } else {
                    out.push(Framed {
                        tag,
                        new_format: true,
                        body,
                        partial,
                        final_len: Some(len),
                    });
                    break;
                }
            }
        } else {
            let tag = (h >> 2) & 0x0F;
            let lt = h & 3;
            let len = match lt {
                0 => {
                    let v = *s.get(i).ok_or(FrameError::Truncated(i))? as usize;
                    i += 1;
                    Some(v)
                }
                1 => {
                    let b = s.get(i..i + 2).ok_or(FrameError::Truncated(i))?;
                    i += 2;
                    Some(u16::from_be_bytes(b.try_into().unwrap()) as usize)
                }
                2 => {
                    let b = s.get(i..i + 4).ok_or(FrameError::Truncated(i))?;
                    i += 4;
                    Some(u32::from_be_bytes(b.try_into().unwrap()) as usize)
                }
                _ => None,
            };
            let body = match len {
                Some(l) => {
                    let b = s.get(i..i + l).ok_or(FrameError::Truncated(i))?.to_vec();
                    i += l;
                    b
                }
                None => {
                    let b = s[i..].to_vec();
                    i = s.len();
                    b
                }
            };
            out.push(Framed {
                tag,
                new_format: false,
                body,
                partial: vec![],
                final_len: len,
            });
        }
    }
    Ok(out)
}

pub fn self_test() -> Result<(), String> {
    // RFC 9580 §4.2.1 examples
    if new_len(100, LenForm::New1) != Some(vec![0x64]) {
        return Err("len 100".into());
    }
    if new_len(1723, LenForm::New2) != Some(vec![0xC5, 0xFB]) {
        return Err("len 1723".into());
    }
    if new_len(100000, LenForm::New5) != Some(vec![0xFF, 0x00, 0x01, 0x86, 0xA0]) {
        return Err("len 100000".into());
    }
    // "a packet with length 100000 might be encoded as 0xEF(32768) 0xE1(2) 0xE0(1) 0xF0(65536) 0xC5 0xDD (1693)"
    let body: Vec<u8> = (0..100000usize).map(|i| i as u8).collect();
    let f = frame_partial(11, &body, &[15, 1, 0, 16], LenForm::New2).ok_or("partial example")?;
    if f[1] != 0xEF || f[2 + 32768] != 0xE1 {
        return Err("partial example octets".into());
    }
    let d = deframe(&f).map_err(|e| format!("{e:?}"))?;
    if d.len() != 1 || d[0].body != body || d[0].final_len != Some(1693) {
        return Err("partial example deframe".into());
    }
    Ok(())
}
