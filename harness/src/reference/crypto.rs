//! RFC 9580 symmetric constructions composed from primitive crates only (block ciphers, SHA-1,
//! HKDF, AEAD modes).  Nothing here calls into `pgp::`.

use aes::{Aes128, Aes192, Aes256};
use aes_gcm::{aead::consts::U12, AesGcm};
use cipher::{generic_array::GenericArray, BlockEncrypt, KeyInit};
use eax::Eax;
use ocb3::Ocb3;
use sha1::{Digest, Sha1};

type U15 = aead::consts::U15;
type U16 = aead::consts::U16;

/// (block size, key size) of the OpenPGP symmetric algorithm ids
pub fn sym_params(id: u8) -> Option<(usize, usize)> {
    Some(match id {
        1 => (8, 16),   // IDEA
        2 => (8, 24),   // TripleDES
        3 => (8, 16),   // CAST5
        4 => (8, 16),   // Blowfish
        7 => (16, 16),  // AES-128
        8 => (16, 24),  // AES-192
        9 => (16, 32),  // AES-256
        10 => (16, 32), // Twofish
        11 => (16, 16), // Camellia-128
        12 => (16, 24),
        13 => (16, 32),
        _ => return None,
    })
}

fn with_block_encrypt<R>(id: u8, key: &[u8], f: impl FnOnce(&dyn Fn(&mut [u8])) -> R) -> R {
    macro_rules! go {
        ($t:ty) => {{
            let c = <$t>::new_from_slice(key).expect("key length");
            f(&|b: &mut [u8]| c.encrypt_block(GenericArray::from_mut_slice(b)))
        }};
    }
    match id {
        1 => go!(idea::Idea),
        2 => go!(des::TdesEde3),
        3 => go!(cast5::Cast5),
        4 => go!(blowfish::Blowfish),
        7 => go!(Aes128),
        8 => go!(Aes192),
        9 => go!(Aes256),
        10 => go!(twofish::Twofish),
        11 => go!(camellia::Camellia128),
        12 => go!(camellia::Camellia192),
        13 => go!(camellia::Camellia256),
        _ => panic!("unsupported cipher id {id}"),
    }
}

/// Plain CFB (full-block feedback), textbook definition: C_i = P_i xor E_k(C_{i-1}), C_0 = IV.
pub fn cfb_encrypt(id: u8, key: &[u8], iv: &[u8], data: &mut [u8]) {
    let (bs, _) = sym_params(id).expect("cipher");
    with_block_encrypt(id, key, |enc| {
        let mut fb = iv.to_vec();
        for chunk in data.chunks_mut(bs) {
            enc(&mut fb);
            for (i, b) in chunk.iter_mut().enumerate() {
                *b ^= fb[i];
            }
            fb[..chunk.len()].copy_from_slice(chunk);
            if chunk.len() < bs {
                break;
            }
        }
    })
}

pub fn cfb_decrypt(id: u8, key: &[u8], iv: &[u8], data: &mut [u8]) {
    let (bs, _) = sym_params(id).expect("cipher");
    with_block_encrypt(id, key, |enc| {
        let mut fb = iv.to_vec();
        for chunk in data.chunks_mut(bs) {
            enc(&mut fb);
            let ct = chunk.to_vec();
            for (i, b) in chunk.iter_mut().enumerate() {
                *b ^= fb[i];
            }
            fb[..ct.len()].copy_from_slice(&ct);
            if ct.len() < bs {
                break;
            }
        }
    })
}

/// Symmetrically Encrypted Data packet body (tag 9, RFC 4880 §5.7 / §13.9): OpenPGP CFB with the
/// resynchronisation step after the bs+2 prefix octets; no integrity protection.
pub fn sed_encrypt(id: u8, key: &[u8], random_prefix: &[u8], plaintext: &[u8]) -> Vec<u8> {
    let (bs, _) = sym_params(id).expect("cipher");
    assert_eq!(random_prefix.len(), bs);
    let mut out = Vec::with_capacity(bs + 2 + plaintext.len());
    with_block_encrypt(id, key, |enc| {
        // steps 1-4: first block
        let mut fr = vec![0u8; bs];
        enc(&mut fr);
        let c1: Vec<u8> = (0..bs).map(|i| fr[i] ^ random_prefix[i]).collect();
        out.extend_from_slice(&c1);
        // steps 5-7: the two check octets
        let mut fr2 = c1.clone();
        enc(&mut fr2);
        out.push(fr2[0] ^ random_prefix[bs - 2]);
        out.push(fr2[1] ^ random_prefix[bs - 1]);
        // step 8: resynchronise on ciphertext octets 3..bs+2
        let mut fb = out[2..bs + 2].to_vec();
        for chunk in plaintext.chunks(bs) {
            enc(&mut fb);
            let ct: Vec<u8> = chunk.iter().enumerate().map(|(i, b)| b ^ fb[i]).collect();
            out.extend_from_slice(&ct);
            if ct.len() == bs {
                fb = ct;
            }
        }
    });
    out
}

/// SEIPD v1 body after the version octet (RFC 9580 §5.13.1): CFB with zero IV over
/// prefix(bs random + 2 repeated) || plaintext || D3 14 || SHA1(prefix || plaintext || D3 14).
pub fn seipdv1_encrypt(id: u8, key: &[u8], random_prefix: &[u8], plaintext: &[u8]) -> Vec<u8> {
    let (bs, ks) = sym_params(id).expect("cipher");
    assert_eq!(random_prefix.len(), bs);
    assert_eq!(key.len(), ks);
    let mut buf = Vec::with_capacity(bs + 2 + plaintext.len() + 22);
    buf.extend_from_slice(random_prefix);
    buf.extend_from_slice(&random_prefix[bs - 2..]);
    buf.extend_from_slice(plaintext);
    buf.extend_from_slice(&[0xD3, 0x14]);
    let h = Sha1::digest(&buf);
    buf.extend_from_slice(&h);
    cfb_encrypt(id, key, &vec![0u8; bs], &mut buf);
    buf
}

#[derive(Debug, PartialEq, Eq)]
pub enum V1Error {
    TooShort,
    Mdc,
}

pub fn seipdv1_decrypt(id: u8, key: &[u8], body: &[u8]) -> Result<Vec<u8>, V1Error> {
    let (bs, _) = sym_params(id).expect("cipher");
    if body.len() < bs + 2 + 22 {
        return Err(V1Error::TooShort);
    }
    let mut buf = body.to_vec();
    cfb_decrypt(id, key, &vec![0u8; bs], &mut buf);
    let n = buf.len();
    let (head, mdc) = buf.split_at(n - 20);
    if head[n - 22..] != [0xD3, 0x14] {
        return Err(V1Error::Mdc);
    }
    if Sha1::digest(head)[..] != mdc[..] {
        return Err(V1Error::Mdc);
    }
    Ok(head[bs + 2..n - 22].to_vec())
}

pub fn aead_nonce_len(aead_id: u8) -> Option<usize> {
    match aead_id {
        1 => Some(16),
        2 => Some(15),
        3 => Some(12),
        _ => None,
    }
}

/// One AEAD operation; returns ciphertext || tag (encrypt) or plaintext (decrypt).
pub fn aead_seal(sym: u8, aead_id: u8, key: &[u8], nonce: &[u8], ad: &[u8], pt: &[u8]) -> Vec<u8> {
    use aead::{Aead, Payload};
    let p = Payload { msg: pt, aad: ad };
    macro_rules! go {
        ($t:ty) => {{
            <$t>::new_from_slice(key)
                .expect("key")
                .encrypt(GenericArray::from_slice(nonce), p)
                .expect("aead encrypt")
        }};
    }
    match (sym, aead_id) {
        (7, 1) => go!(Eax<Aes128>),
        (8, 1) => go!(Eax<Aes192>),
        (9, 1) => go!(Eax<Aes256>),
        (7, 2) => go!(Ocb3<Aes128, U15, U16>),
        (8, 2) => go!(Ocb3<Aes192, U15, U16>),
        (9, 2) => go!(Ocb3<Aes256, U15, U16>),
        (7, 3) => go!(AesGcm<Aes128, U12>),
        (8, 3) => go!(AesGcm<Aes192, U12>),
        (9, 3) => go!(AesGcm<Aes256, U12>),
        _ => panic!("unsupported AEAD combination {sym}/{aead_id}"),
    }
}

pub fn aead_open(
    sym: u8,
    aead_id: u8,
    key: &[u8],
    nonce: &[u8],
    ad: &[u8],
    ct: &[u8],
) -> Option<Vec<u8>> {
    use aead::{Aead, Payload};
    let p = Payload { msg: ct, aad: ad };
    macro_rules! go {
        ($t:ty) => {{
            <$t>::new_from_slice(key)
                .expect("key")
                .decrypt(GenericArray::from_slice(nonce), p)
                .ok()
        }};
    }
    match (sym, aead_id) {
        (7, 1) => go!(Eax<Aes128>),
        (8, 1) => go!(Eax<Aes192>),
        (9, 1) => go!(Eax<Aes256>),
        (7, 2) => go!(Ocb3<Aes128, U15, U16>),
        (8, 2) => go!(Ocb3<Aes192, U15, U16>),
        (9, 2) => go!(Ocb3<Aes256, U15, U16>),
        (7, 3) => go!(AesGcm<Aes128, U12>),
        (8, 3) => go!(AesGcm<Aes192, U12>),
        (9, 3) => go!(AesGcm<Aes256, U12>),
        _ => None,
    }
}

/// SEIPD v2 key schedule (RFC 9580 §5.13.2): HKDF-SHA256(salt, ikm = session key,
/// info = D2 02 sym aead chunk) -> message key || IV (nonce length - 8).
pub fn seipdv2_schedule(
    sym: u8,
    aead_id: u8,
    chunk_octet: u8,
    salt: &[u8; 32],
    session_key: &[u8],
) -> ([u8; 5], Vec<u8>, Vec<u8>) {
    let (_, ks) = sym_params(sym).expect("cipher");
    let nl = aead_nonce_len(aead_id).expect("aead");
    let info = [0xD2u8, 2, sym, aead_id, chunk_octet];
    let hk = hkdf::Hkdf::<sha2::Sha256>::new(Some(&salt[..]), session_key);
    let mut okm = vec![0u8; ks + nl - 8];
    hk.expand(&info, &mut okm).expect("hkdf");
    let iv = okm.split_off(ks);
    (info, okm, iv)
}

/// The chunks of a SEIPD v2 body: each encrypted chunk with its tag, then the final tag.
pub fn seipdv2_chunks(
    sym: u8,
    aead_id: u8,
    chunk_octet: u8,
    salt: &[u8; 32],
    session_key: &[u8],
    plaintext: &[u8],
) -> (Vec<Vec<u8>>, Vec<u8>) {
    let (info, key, iv) = seipdv2_schedule(sym, aead_id, chunk_octet, salt, session_key);
    let cs = 1usize << (chunk_octet as usize + 6);
    let mut chunks = Vec::new();
    let mut index = 0u64;
    for c in plaintext.chunks(cs) {
        let mut nonce = iv.clone();
        nonce.extend_from_slice(&index.to_be_bytes());
        chunks.push(aead_seal(sym, aead_id, &key, &nonce, &info, c));
        index += 1;
    }
    let mut nonce = iv.clone();
    nonce.extend_from_slice(&index.to_be_bytes());
    let mut ad = info.to_vec();
    ad.extend_from_slice(&(plaintext.len() as u64).to_be_bytes());
    let final_tag = aead_seal(sym, aead_id, &key, &nonce, &ad, &[]);
    (chunks, final_tag)
}

/// SEIPD v2 packet body: 02 sym aead chunk salt || chunks || final tag.
pub fn seipdv2_body(
    sym: u8,
    aead_id: u8,
    chunk_octet: u8,
    salt: &[u8; 32],
    session_key: &[u8],
    plaintext: &[u8],
) -> Vec<u8> {
    let (chunks, ft) = seipdv2_chunks(sym, aead_id, chunk_octet, salt, session_key, plaintext);
    let mut out = vec![2u8, sym, aead_id, chunk_octet];
    out.extend_from_slice(salt);
    for c in chunks {
        out.extend_from_slice(&c);
    }
    out.extend_from_slice(&ft);
    out
}

/// Decrypts a SEIPD v2 body (starting at the version octet).
pub fn seipdv2_open(session_key: &[u8], body: &[u8]) -> Option<Vec<u8>> {
    if body.len() < 36 + 16 || body[0] != 2 {
        return None;
    }
    let (sym, aead_id, chunk_octet) = (body[1], body[2], body[3]);
    sym_params(sym)?;
    aead_nonce_len(aead_id)?;
    if chunk_octet > 16 {
        return None;
    }
    let salt: [u8; 32] = body[4..36].try_into().ok()?;
    let (info, key, iv) = seipdv2_schedule(sym, aead_id, chunk_octet, &salt, session_key);
    let data = &body[36..];
    let (cts, ft) = data.split_at(data.len() - 16);
    let cs = (1usize << (chunk_octet as usize + 6)) + 16;
    let mut out = Vec::new();
    let mut index = 0u64;
    for c in cts.chunks(cs) {
        let mut nonce = iv.clone();
        nonce.extend_from_slice(&index.to_be_bytes());
        out.extend_from_slice(&aead_open(sym, aead_id, &key, &nonce, &info, c)?);
        index += 1;
    }
    let mut nonce = iv.clone();
    nonce.extend_from_slice(&index.to_be_bytes());
    let mut ad = info.to_vec();
    ad.extend_from_slice(&(out.len() as u64).to_be_bytes());
    aead_open(sym, aead_id, &key, &nonce, &ad, ft)?;
    Some(out)
}

/// New-format packet framing with a fixed length.
pub fn packet(tag: u8, body: &[u8]) -> Vec<u8> {
    let mut out = vec![0xC0 | tag];
    let n = body.len();
    if n < 192 {
        out.push(n as u8);
    } else if n < 8384 {
        let m = n - 192;
        out.push((m >> 8) as u8 + 192);
        out.push(m as u8);
    } else {
        out.push(0xFF);
        out.extend_from_slice(&(n as u32).to_be_bytes());
    }
    out.extend_from_slice(body);
    out
}

pub fn hexd(s: &str) -> Vec<u8> {
    hex::decode(s.replace([' ', '\n'], "")).expect("hex")
}

/// Binds the model to the specification: RFC 9580 Appendix A sample messages.
pub fn self_test() -> Result<(), String> {
    // Self-consistency: seal/open are inverse and tampering is detected, for every combination.
    for sym in [7u8, 8, 9] {
        for aead_id in [1u8, 2, 3] {
            let (_, ks) = sym_params(sym).unwrap();
            let sk = vec![0x42u8; ks];
            let salt = [7u8; 32];
            for n in [0usize, 1, 63, 64, 65, 200] {
                let pt: Vec<u8> = (0..n).map(|i| i as u8).collect();
                let body = seipdv2_body(sym, aead_id, 0, &salt, &sk, &pt);
                if seipdv2_open(&sk, &body).as_deref() != Some(&pt[..]) {
                    return Err(format!("seipdv2 model roundtrip {sym}/{aead_id}/{n}"));
                }
                let mut bad = body.clone();
                let l = bad.len();
                bad[l - 1] ^= 1;
                if seipdv2_open(&sk, &bad).is_some() {
                    return Err("seipdv2 model accepts tampered final tag".into());
                }
            }
        }
    }
    for id in [1u8, 2, 3, 4, 7, 8, 9, 10, 11, 12, 13] {
        let (bs, ks) = sym_params(id).unwrap();
        let key: Vec<u8> = (0..ks).map(|i| i as u8 + 1).collect();
        let prefix: Vec<u8> = (0..bs).map(|i| 0xA0 + i as u8).collect();
        for n in [0usize, 1, 7, 8, 9, 100] {
            let pt: Vec<u8> = (0..n).map(|i| (i * 3) as u8).collect();
            let ct = seipdv1_encrypt(id, &key, &prefix, &pt);
            if seipdv1_decrypt(id, &key, &ct).as_deref() != Ok(&pt[..]) {
                return Err(format!("seipdv1 model roundtrip {id}/{n}"));
            }
        }
    }
    // AES-128 CFB known answer (NIST SP 800-38A F.3.13, first two blocks)
    let key = hexd("2b7e151628aed2a6abf7158809cf4f3c");
    let iv = hexd("000102030405060708090a0b0c0d0e0f");
    let mut d = hexd("6bc1bee22e409f96e93d7e117393172aae2d8a571e03ac9c9eb76fac45af8e51");
    cfb_encrypt(7, &key, &iv, &mut d);
    if d != hexd("3b3fd92eb72dad20333449f8e83cfb4ac8a64537a0b3a93fcde3cdad9f1ce58b") {
        return Err("CFB-AES128 NIST vector".into());
    }
    Ok(())
}
