//! Text canonicalisation as RFC 9580 §5.2.1.2 / §7.2 state it.

/// Every LF not preceded by CR becomes CR LF; everything else is unchanged.
pub fn canon(input: &[u8]) -> Vec<u8> {
    let mut out = Vec::with_capacity(input.len() + 8);
    let mut prev = 0u8;
    for &b in input {
        if b == b'\n' && prev != b'\r' {
            out.push(b'\r');
        }
        out.push(b);
        prev = b;
    }
    out
}

/// Same with an arbitrary replacement for the line ending (`CRLF` and bare `LF` are line endings,
/// a lone `CR` is not).
pub fn canon_to(input: &[u8], eol: &[u8]) -> Vec<u8> {
    let mut out = Vec::with_capacity(input.len() + 8);
    let mut i = 0;
    while i < input.len() {
        let b = input[i];
        if b == b'\r' && input.get(i + 1) == Some(&b'\n') {
            out.extend_from_slice(eol);
            i += 2;
        } else if b == b'\n' {
            out.extend_from_slice(eol);
            i += 1;
        } else {
            out.push(b);
            i += 1;
        }
    }
    out
}

/// Cleartext signature framework, signed form of a text (RFC 9580 §7.2): lines are split at
/// line endings (CRLF or LF), trailing SP / TAB of every line removed, lines joined with CRLF.
/// The line ending *before* the armor header of the signature is not part of the text, so the
/// text has exactly the line structure it was given with.
pub fn csf_signed_form(text: &[u8]) -> Vec<u8> {
    let unified = canon_to(text, b"\n");
    let mut out = Vec::new();
    let mut first = true;
    for line in unified.split(|&b| b == b'\n') {
        if !first {
            out.extend_from_slice(b"\r\n");
        }
        first = false;
        let mut end = line.len();
        while end > 0 && (line[end - 1] == b' ' || line[end - 1] == b'\t') {
            end -= 1;
        }
        out.extend_from_slice(&line[..end]);
    }
    out
}
