//! ASCII armor per RFC 9580 §6: bitwise CRC-24, base64, 64-column lines.

pub const CRC24_INIT: u32 = 0x00B7_04CE;
pub const CRC24_POLY: u32 = 0x0186_4CFB;

/// RFC 9580 §6.1.1 reference algorithm, bit by bit.
pub fn crc24(data: &[u8]) -> u32 {
    let mut crc = CRC24_INIT;
    for &b in data {
        crc ^= (b as u32) << 16;
        for _ in 0..8 {
            crc <<= 1;
            if crc & 0x0100_0000 != 0 {
                crc ^= CRC24_POLY;
            }
        }
    }
    crc & 0x00FF_FFFF
}

const B64: &[u8; 64] = b"ABCDEFGHIJKLMNOPQRSTUVWXYZabcdefghijklmnopqrstuvwxyz0123456789+/";

pub fn b64_encode(data: &[u8]) -> Vec<u8> {
    let mut out = Vec::with_capacity(data.len().div_ceil(3) * 4);
    for chunk in data.chunks(3) {
        let b = [
            chunk[0],
            *chunk.get(1).unwrap_or(&0),
            *chunk.get(2).unwrap_or(&0),
        ];
        let n = ((b[0] as u32) << 16) | ((b[1] as u32) << 8) | b[2] as u32;
        out.push(B64[(n >> 18) as usize & 63]);
        out.push(B64[(n >> 12) as usize & 63]);
        out.push(if chunk.len() > 1 { B64[(n >> 6) as usize & 63] } else { b'=' });
        out.push(if chunk.len() > 2 { B64[n as usize & 63] } else { b'=' });
    }
    out
}

pub fn b64_decode(text: &[u8]) -> Option<Vec<u8>> {
    let mut vals = Vec::with_capacity(text.len());
    let mut pad = 0;
    for &c in text {
        if c == b'=' {
            pad += 1;
            continue;
        }
        if pad > 0 {
            return None;
        }
        vals.push(B64.iter().position(|&x| x == c)? as u32);
    }
    if (vals.len() + pad) % 4 != 0 || pad > 2 {
        return None;
    }
    let mut out = Vec::new();
    for q in vals.chunks(4) {
        match q.len() {
            4 => {
                let n = (q[0] << 18) | (q[1] << 12) | (q[2] << 6) | q[3];
                out.extend_from_slice(&[(n >> 16) as u8, (n >> 8) as u8, n as u8]);
            }
            3 => {
                let n = (q[0] << 18) | (q[1] << 12) | (q[2] << 6);
                if n & 0xFF != 0 {
                    return None; // non-canonical trailing bits
                }
                out.extend_from_slice(&[(n >> 16) as u8, (n >> 8) as u8]);
            }
            2 => {
                let n = (q[0] << 18) | (q[1] << 12);
                if n & 0xFFFF != 0 {
                    return None;
                }
                out.push((n >> 16) as u8);
            }
            _ => return None,
        }
    }
    Some(out)
}

/// Body lines: base64 of the data, at most 64 characters per line, each terminated by `eol`.
pub fn body_lines(data: &[u8], eol: &[u8]) -> Vec<u8> {
    let enc = b64_encode(data);
    let mut out = Vec::with_capacity(enc.len() + enc.len() / 64 * 2 + 2);
    for line in enc.chunks(64) {
        out.extend_from_slice(line);
        out.extend_from_slice(eol);
    }
    out
}

pub fn checksum_line(data: &[u8]) -> Vec<u8> {
    let c = crc24(data);
    let mut out = vec![b'='];
    out.extend_from_slice(&b64_encode(&[(c >> 16) as u8, (c >> 8) as u8, c as u8]));
    out
}

/// The armored form as the library's writer is expected to emit it (LF line endings).
pub fn armor(
    block: &str,
    headers: &[(String, String)],
    data: &[u8],
    checksum: bool,
    eol: &[u8],
) -> Vec<u8> {
    let mut out = Vec::new();
    out.extend_from_slice(b"-----BEGIN ");
    out.extend_from_slice(block.as_bytes());
    out.extend_from_slice(b"-----");
    out.extend_from_slice(eol);
    for (k, v) in headers {
        out.extend_from_slice(k.as_bytes());
        out.extend_from_slice(b": ");
        out.extend_from_slice(v.as_bytes());
        out.extend_from_slice(eol);
    }
    out.extend_from_slice(eol);
    out.extend_from_slice(&body_lines(data, eol));
    if checksum {
        out.extend_from_slice(&checksum_line(data));
        out.extend_from_slice(eol);
    }
    out.extend_from_slice(b"-----END ");
    out.extend_from_slice(block.as_bytes());
    out.extend_from_slice(b"-----");
    out.extend_from_slice(eol);
    out
}

#[cfg(test)]
mod tests {
    use super::*;
    #[test]
    fn crc_vectors() {
        assert_eq!(crc24(b""), 0xB704CE);
        // "123456789" -> 0x21CF02 (CRC-24/OPENPGP check value)
        assert_eq!(crc24(b"123456789"), 0x21CF02);
    }
}

/// Self-test against known vectors; called by checks before trusting the model.
pub fn self_test() -> Result<(), String> {
    if crc24(b"") != 0xB704CE {
        return Err("crc24(empty)".into());
    }
    if crc24(b"123456789") != 0x21CF02 {
        return Err("crc24 check value".into());
    }
    if b64_encode(b"foobar") != b"Zm9vYmFy" || b64_encode(b"fo") != b"Zm8=" || b64_encode(b"f") != b"Zg==" {
        return Err("base64 RFC 4648 vectors".into());
    }
    for v in [&b""[..], b"f", b"fo", b"foo", b"foob"] {
        if b64_decode(&b64_encode(v)).as_deref() != Some(v) {
            return Err("base64 decode".into());
        }
    }
    Ok(())
}
