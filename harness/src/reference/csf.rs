//! Cleartext signature framework (RFC 9580 §7), independent reader.

/// Undo dash-escaping: a line starting with "- " loses these two characters.
pub fn dash_unescape(text: &[u8]) -> Vec<u8> {
    let mut out = Vec::with_capacity(text.len());
    for line in text.split_inclusive(|&b| b == b'\n') {
        if line.starts_with(b"- ") {
            out.extend_from_slice(&line[2..]);
        } else {
            out.extend_from_slice(line);
        }
    }
    out
}

#[derive(Debug, Clone, PartialEq, Eq)]
pub struct CsfDoc {
    pub hash_headers: Vec<String>,
    /// the dash-escaped text section without the line ending that precedes the signature block
    pub escaped_text: Vec<u8>,
    /// the armored signature block (from its BEGIN line)
    pub signature_block: Vec<u8>,
}

fn trim_cr(l: &[u8]) -> &[u8] {
    l.strip_suffix(b"\r").unwrap_or(l)
}

/// Reads a cleartext signed document.  The cleartext ends at the first line that starts with
/// five dashes (dash-escaping guarantees that no text line does).
pub fn read_document(doc: &[u8]) -> Option<CsfDoc> {
    let mut pos = 0usize;
    let next_line = |pos: &mut usize| -> Option<(usize, usize)> {
        if *pos >= doc.len() {
            return None;
        }
        let start = *pos;
        let end = match doc[start..].iter().position(|&b| b == b'\n') {
            Some(i) => start + i + 1,
            None => doc.len(),
        };
        *pos = end;
        Some((start, end))
    };
    let (s, e) = next_line(&mut pos)?;
    let first = trim_cr(doc[s..e].strip_suffix(b"\n")?);
    if first != b"-----BEGIN PGP SIGNED MESSAGE-----" {
        return None;
    }
    let mut hash_headers = Vec::new();
    loop {
        let (s, e) = next_line(&mut pos)?;
        let line = trim_cr(doc[s..e].strip_suffix(b"\n")?);
        if line.iter().all(|&b| b == b' ' || b == b'\t') {
            break;
        }
        let l = std::str::from_utf8(line).ok()?;
        let v = l.strip_prefix("Hash: ")?;
        hash_headers.push(v.to_string());
    }
    let text_start = pos;
    loop {
        let (s, e) = next_line(&mut pos)?;
        if doc[s..e].starts_with(b"-----") {
            let mut text = &doc[text_start..s];
            if text.is_empty() {
                // no text line at all (not even the empty one): tolerated as empty text
            } else {
                text = text.strip_suffix(b"\n")?;
                text = text.strip_suffix(b"\r").unwrap_or(text);
            }
            return Some(CsfDoc {
                hash_headers,
                escaped_text: text.to_vec(),
                signature_block: doc[s..].to_vec(),
            });
        }
    }
}
